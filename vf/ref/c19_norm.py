"""C19 oracle parts that do not depend on the code under test.

N(tree): nested-tuple canonical form implementing "equivalent up to whitespace at
block boundaries" (DESIGN C19): a string child that touches a block node
(section, list, list item, table part, rule, preformatted block) or the boundary
of a block container (those kinds and ROOT) is stripped on that side and dropped
when empty.  Nothing else is normalised.

first_diff(a, b): first structural difference between two canonical forms,
as a *mechanism class* (what kind of thing changed, in/next to which node
kind) -- never a value from the input.
"""
from __future__ import annotations

BLOCK = {"ROOT", "LEVEL1", "LEVEL2", "LEVEL3", "LEVEL4", "LEVEL5", "LEVEL6", "LIST", "LIST_ITEM", "TABLE",
         "TABLE_CAPTION", "TABLE_ROW", "TABLE_CELL", "TABLE_HEADER_CELL", "HLINE", "PRE", "PREFORMATTED"}


class Nd(tuple):
    """canonical node: (kind, sarg, largs, attrs, children, definition)"""
    __slots__ = ()


def _isnode(x):
    return not isinstance(x, (str, list, tuple))


BRACE = {"TEMPLATE", "PARSER_FN", "TEMPLATE_ARG"}
MARK = "<noinclude/>"


def N(x, boundary=True, relax=()):
    """Canonical form of a node, a string or a child list (lists are taken to sit at a
    block boundary when boundary=True -- the root boundary for things passed directly).
    relax: only used to NAME a mechanism, never to decide a violation: "marker-args" / "marker-pre"
    delete the serialiser's protection marker from strings inside brace arguments / PRE."""
    if isinstance(x, str):
        return N_list([x], boundary, relax)
    if isinstance(x, (list, tuple)):
        return N_list(x, boundary, relax)
    return N_node(x, relax)


def N_node(n, relax=(), inargs=False):
    k = n.kind.name
    blk = k in BLOCK
    ia = inargs or k in BRACE
    strip = ("marker-pre" in relax and k == "PRE") or ("marker-args" in relax and inargs)
    return Nd((k, n.sarg, tuple(N_list(a, False, relax, ia, "marker-args" in relax and ia) for a in n.largs),
               tuple(sorted((str(a), str(v)) for a, v in n.attrs.items())),
               N_list(n.children, blk, relax, inargs, strip),
               None if n.definition is None else N_list(n.definition, blk, relax, inargs, strip)))


def N_list(lst, container_block, relax=(), inargs=False, strip_mark=False):
    out = []
    n = len(lst)
    for i, x in enumerate(lst):
        if isinstance(x, str):
            pb = (i == 0 and container_block) or (i > 0 and _isnode(lst[i - 1]) and lst[i - 1].kind.name in BLOCK)
            nb = (i == n - 1 and container_block) or (i < n - 1 and _isnode(lst[i + 1]) and lst[i + 1].kind.name in BLOCK)
            if strip_mark:
                x = x.replace(MARK, "")
            if pb:
                x = x.lstrip()
            if nb:
                x = x.rstrip()
            if x == "":
                continue
            out.append(x)
        else:
            out.append(N_node(x, relax, inargs))
    return tuple(out)


def kinds_of(x, acc=None):
    """Multiset (dict) of node kinds in a real tree / list (largs and definition included)."""
    if acc is None:
        acc = {}
    if isinstance(x, str):
        return acc
    if isinstance(x, (list, tuple)):
        for y in x:
            kinds_of(y, acc)
        return acc
    acc[x.kind.name] = acc.get(x.kind.name, 0) + 1
    for a in x.largs:
        kinds_of(a, acc)
    kinds_of(x.children, acc)
    if x.definition:
        kinds_of(x.definition, acc)
    return acc


def flat_text(c):
    """All string content of a canonical form, in order."""
    if isinstance(c, str):
        return c
    if c is None:
        return ""
    if isinstance(c, Nd):
        return "".join(flat_text(a) for a in c[2]) + flat_text(c[4]) + flat_text(c[5])
    return "".join(flat_text(y) for y in c)


def _k(x):
    return "str" if isinstance(x, str) else x[0]


def _left(A, i, parent, field):
    if i == 0:
        return "%s-%s-start" % (parent, field)
    return _k(A[i - 1])


def _right(A, i, parent, field):
    if i >= len(A) - 1:
        return "%s-%s-end" % (parent, field)
    return _k(A[i + 1])


def _str_diff(x, y, A, B, i, parent, field):
    if MARK in y and MARK not in x and y.replace(MARK, "") == x:
        return "text-gains-noinclude-marker/in=%s-%s" % (parent, field)
    if x.split() == y.split():
        lead = len(x) - len(x.lstrip()), len(y) - len(y.lstrip())
        lead_differs = x[:lead[0]] != y[:lead[1]]
        trail_differs = x[len(x.rstrip()):] != y[len(y.rstrip()):]
        if lead_differs:
            return "text-layout-changed/next-to=" + _left(A, i, parent, field)
        if trail_differs:
            return "text-layout-changed/next-to=" + _right(A, i, parent, field)
        return "inner-whitespace-changed/in=%s-%s" % (parent, field)
    if y.startswith(x):
        return "text-extended/in=%s-%s/before=%s" % (parent, field, _right(A, i, parent, field))
    if x.startswith(y):
        return "text-truncated/in=%s-%s/before=%s" % (parent, field, _right(A, i, parent, field))
    return "text-changed/in=%s-%s" % (parent, field)


def _list_diff(A, B, parent, field):
    # where: only named for argument / definition lists (for children the changed kinds say enough, and
    # naming the parent would split one mechanism over as many signatures as there are container kinds)
    where = "" if field == "children" else "/in=%s-%s" % (parent, field)
    for i in range(max(len(A), len(B))):
        if i >= len(A):
            return "extra-%s%s/after=%s" % (_k(B[i]), where, _k(A[i - 1]) if i else "start")
        if i >= len(B):
            return "lost-%s%s/after=%s" % (_k(A[i]), where, _k(A[i - 1]) if i else "start")
        x, y = A[i], B[i]
        if x == y:
            continue
        sx, sy = isinstance(x, str), isinstance(y, str)
        if sx and sy:
            return _str_diff(x, y, A, B, i, parent, field)
        if sx and not sy:
            if y[0] == "PREFORMATTED":
                return "text-layout-changed/next-to=" + _left(A, i, parent, field)
            return "str->%s%s/after=%s" % (y[0], where, _left(A, i, parent, field))
        if sy and not sx:
            if y.strip() == "" and i + 1 < len(B) and not isinstance(B[i + 1], str) and B[i + 1][0] == "PREFORMATTED":
                return "text-layout-changed/next-to=" + _left(A, i, parent, field)
            return "%s->str%s" % (x[0], where)
        if x[0] != y[0]:
            return "%s->%s%s" % (x[0], y[0], where)
        return _node_diff(x, y)
    return None


def _node_diff(a, b):
    k = a[0]
    if a[1] != b[1]:
        return "sarg-changed/%s" % k
    if a[3] != b[3]:
        da, db = dict(a[3]), dict(b[3])
        if set(da) - set(db):
            return "attrs-lost/%s" % k
        if set(db) - set(da):
            return "attrs-added/%s" % k
        return "attr-value-changed/%s" % k
    if len(a[2]) != len(b[2]):
        return "%s/%s" % ("args-lost" if len(a[2]) > len(b[2]) else "args-added", k)
    for x, y in zip(a[2], b[2]):
        d = _list_diff(x, y, k, "arg")
        if d:
            return d
    d = _list_diff(a[4], b[4], k, "children")
    if d:
        return d
    if (a[5] is None) != (b[5] is None):
        return "%s/%s" % ("definition-lost" if b[5] is None else "definition-added", k)
    if a[5] is not None:
        return _list_diff(a[5], b[5], k, "definition")
    return None


def first_diff(a, b, parent="ROOT"):
    """a, b: canonical nodes (6-tuples) or canonical child lists (tuples of items)."""
    if a == b:
        return None
    an, bn = isinstance(a, Nd), isinstance(b, Nd)
    if an and bn:
        if a[0] != b[0]:
            return "%s->%s/in=top" % (a[0], b[0])
        return _node_diff(a, b) or "unclassified"
    return _list_diff(a, b, parent, "children") or "unclassified"
