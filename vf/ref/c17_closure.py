"""Reference model for C17, written from the property statement (never imports the package).

A *graph* is the JSON-able description of one template library as the classifier sees it:

    {"pages": [{"t": "Template:A", "r": None | "Template:B", "u": ["b", "T:C", ...], "f": 0 | 1}, ...]}

    t = stored title (Template namespace), r = redirect target title or None,
    u = the names the classifier reports as used by this page, *as written*,
    f = the classifier's "structure-affecting" flag.  List order = insertion order.

Name resolution of a used name (the title rules of the page store, property C10): `_` is a
blank; the namespace prefix may be given, omitted, aliased (`T:`) or written in another case;
the rest is case-sensitive except that a lower-case first letter also finds the title stored
with that letter upper-cased (exact spelling wins).

The closure ("full"): the least set that contains every flagged template (and every template already
marked when the analysis starts) and is closed under all three rules of the statement at once:
includes a marked template -> marked; redirect to a marked template -> marked; target of a marked
redirect -> marked.  A redirect page points at the template that the page store resolves its stored
target title to (same title rules).  The marked set must EQUAL this closure.

For naming a disagreement the one-hop reading is also computed (two_phase: inclusion fixpoint M0, then
redirect sources of M0 and targets of redirect pages in M0, once); templates of the closure beyond it are
labelled by the rule that derives them ("beyond": includer / redirect of a template that is itself only
marked through a redirect).

Stores with a history.  A page may carry "p": 1 (stored with need_pre_expand=True up front), and an
analysis may run on a store that an earlier analysis already marked (`before` = titles marked when the
analysis starts).  Marks are monotone (nothing is ever unmarked) and the closure is the closure of the
CURRENT store seeded with flagged + before.

A *case* is {"mode": "readd" | "grow", "rounds": [graph, ...]}: "readd" = every round stores the same
titles again (add_page overwrites and resets the mark) and analyses; "grow" = every round ADDS the
pages of its graph to the store and analyses the union.
"""
from __future__ import annotations

NS = "Template"
NS_WORDS = ("template", "t")  # local name + alias, compared case-insensitively


def bare(name: str) -> str:
    """The used name without its (optional) namespace prefix, `_` read as blank."""
    t = name.replace("_", " ")
    i = t.find(":")
    if i > 0 and t[:i].lower() in NS_WORDS:
        t = t[i + 1:]
    return t


def resolve(name: str, titles) -> str | None:
    t = bare(name)
    if not t:
        return None
    c = NS + ":" + t
    if c in titles:
        return c
    c = NS + ":" + t[:1].upper() + t[1:]
    if c in titles:
        return c
    return None


def canonical_name(title: str) -> str:
    return title[len(NS) + 1:]


def spelling_class(name: str, title: str) -> str:
    """How a used name that resolves to `title` differs from the canonical bare title."""
    if name == canonical_name(title):
        return "canonical"
    tags = []
    i = name.find(":")
    if i > 0 and name[:i].lower() in NS_WORDS:
        p = name[:i]
        tags.append("prefix" if p == NS else ("alias" if p.lower() == "t" else "prefix-othercase"))
    if "_" in name:
        tags.append("underscore")
    if bare(name) != canonical_name(title):
        tags.append("lower-initial")
    return "+".join(tags) or "other"


def closure(graph: dict, before=()) -> dict:
    pages = graph["pages"]
    titles = {p["t"] for p in pages}
    premarked = {p["t"] for p in pages if p.get("p")}
    before = (set(before) & titles) | premarked
    flagged = {p["t"] for p in pages if p["f"]}
    # resolved inclusion edges: includer -> set(included titles)
    inc = {}
    noncanon = 0
    unresolved = 0
    classes = {}
    for p in pages:
        s = set()
        for w in p["u"]:
            r = resolve(w, titles)
            if r is None:
                unresolved += 1
            else:
                s.add(r)
                k = spelling_class(w, r)
                classes[k] = classes.get(k, 0) + 1
                if k != "canonical":
                    noncanon += 1
        inc[p["t"]] = s
    # a redirect page points at the template that the page store resolves its target title to
    # (same title rules as for used names); None = no such template
    redirect = {}
    redirect_raw = {}
    spelled_redirects = 0
    for p in pages:
        if p["r"] is not None:
            redirect_raw[p["t"]] = p["r"]
            redirect[p["t"]] = resolve(p["r"], titles)
            if redirect[p["t"]] is not None and redirect[p["t"]] != p["r"]:
                spelled_redirects += 1

    # phase 1: least fixpoint of the inclusion rule alone, seeded with everything that is marked by decree
    # (flagged by the classifier, or already marked when the analysis starts); breadth first so that
    # depth = length of the shortest inclusion chain
    seeds = flagged | before
    depth = {t: 0 for t in seeds}
    frontier = set(seeds)
    d = 0
    while frontier:
        d += 1
        nxt = set()
        for t, s in inc.items():
            if t not in depth and s & frontier:
                nxt.add(t)
        for t in nxt:
            depth[t] = d
        frontier = nxt
    m0 = set(depth)
    src = {s for s, t in redirect.items() if t in m0}
    tgt = {t for s, t in redirect.items() if s in m0 and t is not None}
    two = m0 | src | tgt

    # the closure the statement asks for: least set closed under all three rules; pages beyond the one-hop
    # reading are labelled with the (synchronous) round and the rule that derives them
    full = set(two)
    beyond = {}
    lay = 0
    while True:
        lay += 1
        new_inc = {t for t, s in inc.items() if t not in full and s & full}
        new_red = set()
        for s, t in redirect.items():
            if t is None:
                continue
            if t in full and s not in full:
                new_red.add(s)
            if s in full and t not in full:
                new_red.add(t)
        if not new_inc and not new_red:
            break
        for t in new_inc:
            beyond[t] = (lay, "inclusion")
        for t in new_red - new_inc:
            beyond[t] = (lay, "redirect")
        full |= new_inc | new_red

    why = {}
    for t in full:
        if t in flagged:
            why[t] = "flagged-template"
        elif t in before:
            why[t] = "already-marked-before-analysis"
        elif t in m0:
            why[t] = "includer-of-marked"
        elif t in src:
            why[t] = "redirect-source"
        elif t in tgt:
            why[t] = "redirect-target"
        elif beyond[t][1] == "inclusion":
            why[t] = "includer-of-template-marked-via-redirect"
        else:
            why[t] = "redirect-of-template-marked-via-redirect"
    return {"before": before, "premarked": premarked, "titles": titles, "flagged": flagged, "inc": inc,
            "redirect": redirect, "redirect_raw": redirect_raw, "spelled_redirects": spelled_redirects, "m0": m0,
            "depth": depth, "two_phase": two, "full": full, "beyond": beyond, "why": why, "src": src - m0, "tgt": tgt - m0,
            "noncanonical_edges": noncanon, "unresolved_names": unresolved, "spelling": classes}


def cyclic(inc: dict) -> bool:
    """Is there a directed cycle (including self-inclusion) among resolved inclusion edges?"""
    state = {}
    for root in inc:
        if root in state:
            continue
        stack = [(root, iter(inc.get(root, ())))]
        state[root] = 1
        while stack:
            node, it = stack[-1]
            for nx in it:
                st = state.get(nx)
                if st == 1:
                    return True
                if st is None:
                    state[nx] = 1
                    stack.append((nx, iter(inc.get(nx, ()))))
                    break
            else:
                state[node] = 2
                stack.pop()
    return False


def multipath(inc: dict, flagged) -> bool:
    """Some template has two different marked-reaching inclusions (diamond / second path)."""
    return any(len(s) >= 2 for s in inc.values())


def graph_at(case: dict, k: int) -> dict:
    """The library that the store holds when round k is analysed."""
    if case.get("mode") == "grow":
        return {"pages": [p for r in case["rounds"][:k + 1] for p in r["pages"]]}
    return case["rounds"][k]


def canonicalise_case(case: dict) -> dict:
    out = {"rounds": []}
    if case.get("mode") == "grow":
        out["mode"] = "grow"
        titles = {p["t"] for r in case["rounds"] for p in r["pages"]}
        out["rounds"] = [canonicalise(r, titles) for r in case["rounds"]]
    else:
        if "mode" in case:
            out["mode"] = case["mode"]
        out["rounds"] = [canonicalise(r) for r in case["rounds"]]
    return out


def canonicalise_redirects_case(case: dict) -> dict:
    """Same history, every redirect target that resolves rewritten to the stored title of its target."""
    grow = case.get("mode") == "grow"
    allt = {p["t"] for r in case["rounds"] for p in r["pages"]}
    rounds = []
    for r in case["rounds"]:
        titles = allt if grow else {p["t"] for p in r["pages"]}
        pages = []
        for p in r["pages"]:
            q = dict(p)
            if p["r"] is not None:
                t = resolve(p["r"], titles)
                if t is not None:
                    q["r"] = t
            pages.append(q)
        rounds.append({"pages": pages})
    out = {"rounds": rounds}
    if "mode" in case:
        out["mode"] = case["mode"]
    return out


def refine_missed(m: dict, got) -> str | None:
    """Root of a missed propagation on a store that was partly marked before the analysis: take a missed
    template of minimal derivation depth; if every marked template it includes one level below was already
    marked when the analysis started, the propagation did not start from / pass through those."""
    missed = [t for t in m["m0"] - set(got)]
    if not missed:
        return None
    d = min(m["depth"][t] for t in missed)
    if d == 0:
        return None
    kinds = set()
    for t in missed:
        if m["depth"][t] != d:
            continue
        preds = {y for y in m["inc"][t] if m["depth"].get(y) == d - 1}
        if not preds or not preds <= m["before"]:
            return None
        kinds.add("flagged" if preds & m["flagged"] else "unflagged")
    if "flagged" in kinds:
        return "includer-of-flagged-template-that-was-already-marked"
    return "includer-of-unflagged-template-that-was-already-marked"


def history_triggers(m: dict) -> set:
    """Which history-dependent derivations the analysed store contains: a template not marked before the
    analysis whose shortest derivation goes only through templates that were already marked."""
    kinds = set()
    for t in m["m0"] - m["before"]:
        d = m["depth"][t]
        if d == 0:
            continue
        preds = {y for y in m["inc"][t] if m["depth"].get(y) == d - 1}
        if preds and preds <= m["before"]:
            kinds.add("flagged" if preds & m["flagged"] else "unflagged")
    return kinds


def canonicalise(graph: dict, titles=None) -> dict:
    """Same library, every used name that resolves rewritten to the canonical bare title."""
    titles = titles if titles is not None else {p["t"] for p in graph["pages"]}
    out = []
    for p in graph["pages"]:
        u = []
        for w in p["u"]:
            r = resolve(w, titles)
            w2 = canonical_name(r) if r is not None else w
            if w2 not in u:
                u.append(w2)
        q = {"t": p["t"], "r": p["r"], "u": u, "f": p["f"]}
        if p.get("p"):
            q["p"] = 1
        out.append(q)
    return {"pages": out}
