"""C10 reference model -- sequential page store, written from the property statement only.

    After any sequence of add_page calls, looking a page up returns exactly the most recently
    added title/body/redirect/model for that (title, namespace) and absent pages stay absent;
    existence checks agree with lookups.  Lookups are insensitive to the namespace prefix being
    given, omitted, aliased or written in another case and to underscores versus spaces, a
    lower-case first letter also finds the page stored with that letter upper-cased (outside the
    main namespace), titles are otherwise case-sensitive, and a redirect resolves (one hop) to its
    target's content.  Committed content is identical when read through a new context.

Nothing here imports the package under test.  The namespace table is the English site data
(names / aliases / canonical key) for the namespaces the workload uses.
"""
from __future__ import annotations

import re

# ns id -> (local name, [other accepted prefixes: aliases and the canonical key when it differs])
NS = {
    0: ("", []),
    1: ("Talk", []),
    4: ("Wiktionary", ["WT", "Project"]),
    10: ("Template", ["T"]),
    11: ("Template talk", []),
    828: ("Module", ["MOD"]),
}
# canonical key under which the expander recognises "{{Key:name}}" as a transclusion from that namespace
NS_KEY = {1: "Talk", 4: "Project", 10: "Template", 11: "Template talk", 828: "Module"}

SKIP = ("skip",)   # sentinel: the statement does not determine the answer


class Rec:
    __slots__ = ("ns", "name", "titles", "body", "redirect", "model", "ver", "stored_us")

    def __init__(self, ns, name, titles, body, redirect, model, ver, stored_us):
        self.ns, self.name, self.titles, self.body = ns, name, titles, body
        self.redirect, self.model, self.ver, self.stored_us = redirect, model, ver, stored_us

    def same(self, other):
        return other is not None and self.ver == other.ver


def strip_prefix(ns, s):
    """Title with blanks, without the namespace prefix if one (name, alias, any case) is given.
    Main namespace: its prefix is 'Main:' (only that exact spelling is handled here; see Model.find)."""
    if ns == 0 and s.startswith("Main:"):
        return s[5:]
    if ns:
        name, others = NS[ns]
        low = s.lower()
        for pre in [name] + others:
            p = pre.lower() + ":"
            if low.startswith(p):
                return s[len(p):]
    return s


def prefix_ns(s):
    """(namespace id, rest) when s starts with the prefix of a non-main namespace (name or alias, any case)."""
    low = s.lower()
    for n, (name, others) in NS.items():
        if n:
            for pre in [name] + others:
                if low.startswith(pre.lower() + ":"):
                    return n, s[len(pre) + 1:]
    return None


def ucfirst(s):
    return s[:1].upper() + s[1:]


class Model:
    def __init__(self):
        self.store = {}        # (ns, name) -> Rec   (latest version)
        self.committed = {}    # copy at the last commit / close
        self.snapshots = []    # earlier stores (for "which older state does this stale read show")
        self.ver = 0

    # -- writes -----------------------------------------------------------------------------
    def add(self, ns, title, body, redirect, model):
        """title as passed to add_page (canonical prefix given or omitted; maybe with '_')."""
        self.snapshots.append(dict(self.store))
        self.ver += 1
        name = strip_prefix(ns, title.replace("_", " "))
        full = (NS[ns][0] + ":" if ns else "") + name
        stored_us = "_" in title
        # the returned title is pinned only when the page was added under its canonical full title
        titles = None if stored_us else {full, title}
        self.store[(ns, name)] = Rec(ns, name, titles, body, redirect, model, self.ver, stored_us)
        return self.ver

    def commit(self):
        self.committed = dict(self.store)

    # -- lookups ----------------------------------------------------------------------------
    @staticmethod
    def find_none(store, s):
        """Lookup without a namespace id: the prefix of the full title alone selects the namespace (given,
        aliased or in another case -- lookups are insensitive to that), and the rules of that namespace
        apply to the rest (lower-case first letter outside main); a title without a prefix is a
        main-namespace title.  'main:' in another case: SKIP (see Model.find)."""
        if s.startswith("Main:"):
            return store.get((0, s[5:]))
        if s.lower().startswith("main:"):
            return SKIP
        pn = prefix_ns(s)
        if pn is not None:
            n, rest = pn
            if not rest:
                return None
            r = store.get((n, rest))
            if r is None:
                r = store.get((n, ucfirst(rest)))
            return r
        return store.get((0, s))

    @classmethod
    def find(cls, store, ns, spelled):
        s = spelled.replace("_", " ")
        if ns is None:
            return cls.find_none(store, s)
        if ns == 0 and not s.startswith("Main:") and s.lower().startswith("main:"):
            # the statement makes the prefix case-insensitive, the pinned code knows only 'Main:' -> undetermined
            return SKIP
        s = strip_prefix(ns, s)
        if not s:
            return None
        r = store.get((ns, s))
        if r is None and ns != 0:
            r = store.get((ns, ucfirst(s)))
        return r

    @classmethod
    def resolve(cls, store, ns, spelled, store2=None):
        """-> (page-level expectation, body-level expectation); either may be SKIP.
        store2 (diagnosis only): the state in which the redirect's target is looked up."""
        r = cls.find(store, ns, spelled)
        if r is SKIP:
            return SKIP, SKIP
        if r is None:
            return None, None
        if r.redirect is None:
            return r, r.body
        if store2 is not None:
            store = store2
        if ns is None and r.ns and strip_prefix(r.ns, r.redirect.replace("_", " ")) == r.redirect.replace("_", " "):
            # target written without a prefix, looked up without a namespace id: the redirect's namespace
            # or the main namespace?  not said
            return SKIP, SKIP
        tns = ns
        if ns is not None:
            # "a redirect resolves to its target's content": a target title that carries the prefix of another
            # namespace names a page of that namespace; without a prefix (or with the redirect's own) the
            # target is looked up like any title given together with the redirect's namespace
            tgt = r.redirect.replace("_", " ")
            pn = prefix_ns(tgt)
            if pn is not None and pn[0] != r.ns:
                tns = pn[0]
            elif r.ns and tgt.lower().startswith("main:"):
                return SKIP, SKIP
        t = cls.find(store, tns, r.redirect)
        if t is SKIP:
            return SKIP, SKIP
        if t is None:
            return None, None
        if t.redirect is None:
            return t, t.body
        # target is itself a redirect: "one hop" gives no content.  Whether that is "no page" or "the
        # redirect page" is not said -> page level undetermined; body None unless the upper-cased twin
        # of a lower-case target exists (then "finds the upper-cased page" could apply as well).
        if tns is None:
            pn = prefix_ns(r.redirect.replace("_", " "))
            tns, tn = pn if pn is not None else (0, r.redirect.replace("_", " "))
        else:
            tn = strip_prefix(tns, r.redirect.replace("_", " "))
        if tns and ucfirst(tn) != tn and (tns, ucfirst(tn)) in store and (tns, tn) in store:
            return SKIP, SKIP
        return SKIP, None

    @classmethod
    def expected(cls, store, op, ns, spelled, store2=None):
        if op in ("get", "getfull"):
            return cls.find(store, None if op == "getfull" else ns, spelled)
        if op == "exists":
            r = cls.find(store, ns, spelled)
            return SKIP if r is SKIP else r is not None
        if op == "resolve":
            return cls.resolve(store, ns, spelled, store2)[0]
        if op == "body":
            return cls.resolve(store, ns, spelled, store2)[1]
        if op == "expand":
            b = cls.resolve(store, ns, spelled, store2)[1]
            if b is SKIP:
                return SKIP
            if b is None and ":" in spelled:
                # nothing to transclude under (ns, title): the expander then tries the text as a full title
                # without a namespace -- its own name resolution, outside this property
                return SKIP
            return versions_in(b)
        raise ValueError(op)


VER_RE = re.compile(r"\(v(\d+)\)")


def versions_in(text):
    return [int(x) for x in VER_RE.findall(text or "")]


def page_tuple(p):
    return None if p is None else (p.title, p.namespace_id, p.body, p.redirect_to, p.model)


def agree(op, got, exp):
    """got: observed (tuple / bool / str / list); exp: model expectation.  -> (ok, differing fields)"""
    if exp is SKIP:
        return True, ()
    if op in ("get", "getfull", "resolve"):
        if exp is None or got is None:
            return (exp is None and got is None), (("absent",) if got is None else ("phantom",))
        bad = []
        title, nsid, body, redir, model = got
        if exp.titles is not None and title not in exp.titles:
            bad.append("title")
        if nsid != exp.ns:
            bad.append("namespace")
        if body != exp.body:
            bad.append("body")
        if redir != exp.redirect:
            bad.append("redirect")
        if model != exp.model:
            bad.append("model")
        return not bad, tuple(bad)
    if op == "exists":
        return got == exp, (("absent",) if exp else ("phantom",))
    if op == "body":
        if got == exp:
            return True, ()
        return False, (("absent",) if got is None else ("phantom",) if exp is None else ("body",))
    if op == "expand":
        if got == exp:
            return True, ()
        return False, (("absent",) if not got else ("phantom",) if not exp else ("body",))
    raise ValueError(op)
