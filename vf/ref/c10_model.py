"""C10 reference model -- sequential page store, written from the property statement only.

    After any sequence of add_page calls, looking a page up returns exactly the most recently
    added title/body/redirect/model for that (title, namespace) and absent pages stay absent;
    existence checks agree with lookups.  Lookups are insensitive to the namespace prefix being
    given, omitted, aliased or written in another case and to underscores versus spaces, a
    lower-case first letter also finds the page stored with that letter upper-cased (outside the
    main namespace), titles are otherwise case-sensitive, and a redirect resolves (one hop) to its
    target's content.  Committed content is identical when read through a new context.

Nothing here imports the package under test.  The namespace table is the English site data
(names / aliases / canonical key) for the namespaces the workload uses.
"""
from __future__ import annotations

import re

# ns id -> (local name, [other accepted prefixes: aliases and the canonical key when it differs])
NS = {
    0: ("", []),
    1: ("Talk", []),
    4: ("Wiktionary", ["WT", "Project"]),
    10: ("Template", ["T"]),
    11: ("Template talk", []),
    828: ("Module", ["MOD"]),
}
# canonical key under which the expander recognises "{{Key:name}}" as a transclusion from that namespace
NS_KEY = {1: "Talk", 4: "Project", 10: "Template", 11: "Template talk", 828: "Module"}

SKIP = ("skip",)   # sentinel: the statement does not determine the answer


class Rec:
    __slots__ = ("ns", "name", "titles", "body", "redirect", "model", "ver", "stored_us")

    def __init__(self, ns, name, titles, body, redirect, model, ver, stored_us):
        self.ns, self.name, self.titles, self.body = ns, name, titles, body
        self.redirect, self.model, self.ver, self.stored_us = redirect, model, ver, stored_us

    def same(self, other):
        return other is not None and self.ver == other.ver


def strip_prefix(ns, s):
    """Title with blanks, without the namespace prefix if one (name, alias, any case) is given.
    Main namespace: its prefix is 'Main:' (only that exact spelling is handled here; see Model.find)."""
    if ns == 0 and s.startswith("Main:"):
        return s[5:]
    if ns:
        name, others = NS[ns]
        low = s.lower()
        for pre in [name] + others:
            p = pre.lower() + ":"
            if low.startswith(p):
                return s[len(p):]
    return s


def ucfirst(s):
    return s[:1].upper() + s[1:]


class Model:
    def __init__(self):
        self.store = {}        # (ns, name) -> Rec   (latest version)
        self.committed = {}    # copy at the last commit / close
        self.snapshots = []    # earlier stores (for "which older state does this stale read show")
        self.ver = 0

    # -- writes -----------------------------------------------------------------------------
    def add(self, ns, title, body, redirect, model):
        """title as passed to add_page (canonical prefix given or omitted; maybe with '_')."""
        self.snapshots.append(dict(self.store))
        self.ver += 1
        name = strip_prefix(ns, title.replace("_", " "))
        full = (NS[ns][0] + ":" if ns else "") + name
        stored_us = "_" in title
        # the returned title is pinned only when the page was added under its canonical full title
        titles = None if stored_us else {full, title}
        self.store[(ns, name)] = Rec(ns, name, titles, body, redirect, model, self.ver, stored_us)
        return self.ver

    def commit(self):
        self.committed = dict(self.store)

    # -- lookups ----------------------------------------------------------------------------
    @staticmethod
    def find_none(store, s):
        """Lookup without a namespace id: the prefix of the full title alone selects the namespace; a title
        without a prefix is a main-namespace title.  The statement makes lookups insensitive to the prefix
        being aliased / written in another case and lets a lower-case first letter find the upper-cased
        page outside the main namespace; the pinned code matches the stored full title literally when no
        namespace id is given.  Where the two readings differ the answer is SKIP (only the relation
        'existence check == lookup, same arguments' is asserted there)."""
        low = s.lower()
        for n, (name, others) in NS.items():
            if not n:
                continue
            for pre in [name] + others:
                if low.startswith(pre.lower() + ":"):
                    if not s.startswith(name + ":"):
                        return SKIP
                    rest = s[len(name) + 1:]
                    r = store.get((n, rest))
                    if r is None and ucfirst(rest) != rest and (n, ucfirst(rest)) in store:
                        return SKIP
                    return r
        if s.startswith("Main:"):
            return store.get((0, s[5:]))
        if low.startswith("main:"):
            return SKIP
        return store.get((0, s))

    @classmethod
    def find(cls, store, ns, spelled):
        s = spelled.replace("_", " ")
        if ns is None:
            return cls.find_none(store, s)
        if ns == 0 and not s.startswith("Main:") and s.lower().startswith("main:"):
            # the statement makes the prefix case-insensitive, the pinned code knows only 'Main:' -> undetermined
            return SKIP
        s = strip_prefix(ns, s)
        if not s:
            return None
        r = store.get((ns, s))
        if r is None and ns != 0:
            r = store.get((ns, ucfirst(s)))
        return r

    @classmethod
    def resolve(cls, store, ns, spelled, store2=None):
        """-> (page-level expectation, body-level expectation); either may be SKIP.
        store2 (diagnosis only): the state in which the redirect's target is looked up."""
        r = cls.find(store, ns, spelled)
        if r is SKIP:
            return SKIP, SKIP
        if r is None:
            return None, None
        if r.redirect is None:
            return r, r.body
        if store2 is not None:
            store = store2
        if ns is None and r.ns and strip_prefix(r.ns, r.redirect.replace("_", " ")) == r.redirect.replace("_", " "):
            # target written without a prefix, looked up without a namespace id: the redirect's namespace
            # or the main namespace?  not said
            return SKIP, SKIP
        t = cls.find(store, ns, r.redirect)
        if t is SKIP:
            return SKIP, SKIP
        if t is None:
            return None, None
        if t.redirect is None:
            return t, t.body
        # target is itself a redirect: "one hop" gives no content.  Whether that is "no page" or "the
        # redirect page" is not said -> page level undetermined; body None unless the upper-cased twin
        # of a lower-case target exists (then "finds the upper-cased page" could apply as well).
        tn = strip_prefix(ns, r.redirect.replace("_", " "))
        if ns and ucfirst(tn) != tn and (ns, ucfirst(tn)) in store and (ns, tn) in store:
            return SKIP, SKIP
        return SKIP, None

    @classmethod
    def expected(cls, store, op, ns, spelled, store2=None):
        if op in ("get", "getfull"):
            return cls.find(store, None if op == "getfull" else ns, spelled)
        if op == "exists":
            r = cls.find(store, ns, spelled)
            return SKIP if r is SKIP else r is not None
        if op == "resolve":
            return cls.resolve(store, ns, spelled, store2)[0]
        if op == "body":
            return cls.resolve(store, ns, spelled, store2)[1]
        if op == "expand":
            b = cls.resolve(store, ns, spelled, store2)[1]
            if b is SKIP:
                return SKIP
            if b is None and ":" in spelled:
                # nothing to transclude under (ns, title): the expander then tries the text as a full title
                # without a namespace -- its own name resolution, outside this property
                return SKIP
            return versions_in(b)
        raise ValueError(op)


VER_RE = re.compile(r"\(v(\d+)\)")


def versions_in(text):
    return [int(x) for x in VER_RE.findall(text or "")]


def page_tuple(p):
    return None if p is None else (p.title, p.namespace_id, p.body, p.redirect_to, p.model)


def agree(op, got, exp):
    """got: observed (tuple / bool / str / list); exp: model expectation.  -> (ok, differing fields)"""
    if exp is SKIP:
        return True, ()
    if op in ("get", "getfull", "resolve"):
        if exp is None or got is None:
            return (exp is None and got is None), (("absent",) if got is None else ("phantom",))
        bad = []
        title, nsid, body, redir, model = got
        if exp.titles is not None and title not in exp.titles:
            bad.append("title")
        if nsid != exp.ns:
            bad.append("namespace")
        if body != exp.body:
            bad.append("body")
        if redir != exp.redirect:
            bad.append("redirect")
        if model != exp.model:
            bad.append("model")
        return not bad, tuple(bad)
    if op == "exists":
        return got == exp, (("absent",) if exp else ("phantom",))
    if op == "body":
        if got == exp:
            return True, ()
        return False, (("absent",) if got is None else ("phantom",) if exp is None else ("body",))
    if op == "expand":
        if got == exp:
            return True, ()
        return False, (("absent",) if not got else ("phantom",) if not exp else ("body",))
    raise ValueError(op)
