"""C11 reference: which database contents may be visible after a process kill.

Written from the property statement only.  The model is a small state machine
over the *public-level events* of a scenario (process start, Wtp() begin/end,
add_page issued, commit begin/end on the page database connection, backup_db
begin/end); it never looks at files or at SQLite.

    content visible through a new Wtp(db_path) after a kill
      * a completed backup exists           -> exactly the backup snapshot
      * killed while backup_db() was running
          - no completed backup before      -> the original pages (last committed content, either side of
                                               the commit backup_db may perform) or the new snapshot
          - a completed backup exists       -> exactly that previous backup ("the last completed backup"; page
                                               versions written after it must not survive); the new snapshot
                                               only once the new backup has observably been installed (the
                                               monitor reads the backup file the dead process left on its own)
      * no backup                           -> the last committed content (either side of an
                                               in-flight commit)

A row is the tuple (title, namespace_id, body, redirect_to, model, need_pre_expand);
a content is a dict (title, namespace_id) -> row.
"""
from __future__ import annotations

import hashlib
import json

DEFAULT_TEMPLATES = [  # the four pages dump processing adds when absent (property C12 text / README)
    ("Template:!", 10, "|", None, "wikitext", False),
    ("Template:=", 10, "=", None, "wikitext", False),
    ("Template:((", 10, "&lbrace;&lbrace;", None, "wikitext", False),
    ("Template:))", 10, "&rbrace;&rbrace;", None, "wikitext", False),
]


def row(r):
    t, ns, body, redir, model = r[:5]
    npe = bool(r[5]) if len(r) > 5 else False
    return (t, ns, body, redir, model, npe)


def key(r):
    return (r[0], r[1])


def digest(rows):
    """Order-independent digest of a collection of rows (used for the in-scenario 'seen' marks)."""
    lst = sorted(json.dumps(list(row(r)), ensure_ascii=True) for r in rows)
    return hashlib.blake2b("\n".join(lst).encode(), digest_size=12).hexdigest()


def apply(content, writes):
    if not writes:
        return content
    c = dict(content)
    for w in writes:
        c[key(w)] = w
    return c


class ModelError(Exception):
    """The event stream does not fit the scenario (harness problem, never a verdict)."""


class RestoreModel:
    def __init__(self):
        self.committed = {}      # content as of the last completed commit of the page db
        self.pending = []        # writes issued since
        self.backup = None       # snapshot of the last completed backup not yet installed by a restore
        self.restored = None     # snapshot installed by a restore, no newer backup since
        self.in_commit = False
        self.in_backup = False
        self.in_open = False
        self.snap_cand = None
        self.new_backup_installed = False   # set by the monitor: the backup file left at the kill holds snap_cand
        self.history = [{}]      # commit points / snapshots in time order (for classification only)
        self.cur_op = None
        self.n_backups = 0
        self.n_restores = 0
        self.n_commits = 0
        self.n_writes = 0
        self.n_seen = 0
        self.tainted = None      # set when a scenario process' own Wtp() showed a content that is not allowed

    # -- events ---------------------------------------------------------
    def _hist(self, content):
        if content != self.history[-1]:
            self.history.append(content)

    def feed(self, ev, script=None):
        k = ev[0]
        if k == "proc":
            # a new process: whatever the previous one had not committed is gone
            self.pending = []
            self.in_commit = self.in_backup = self.in_open = False
            self.cur_op = None
        elif k == "op":
            j, be = ev[1], ev[2]
            op = script[j] if script is not None else None
            if be == "b":
                self.cur_op = op
                if op and op[0] == "open":
                    self.in_open = True
            else:
                if op and op[0] == "open":
                    self.in_open = False
                    if self.backup is not None:
                        # opening the path installs the backup
                        self.committed = dict(self.backup)
                        self.restored = dict(self.backup)
                        self.backup = None
                        self.n_restores += 1
                        self._hist(self.committed)
                self.cur_op = None
        elif k == "w":
            self.pending.append(self._lookup(ev[1], ev[2]))
            self.n_writes += 1
        elif k == "cb":
            self.in_commit = True
        elif k == "ce":
            self.committed = apply(self.committed, self.pending)
            self.pending = []
            self.in_commit = False
            self.n_commits += 1
            self._hist(self.committed)
        elif k == "bb":
            self.in_backup = True
            self.snap_cand = apply(self.committed, self.pending)
        elif k == "be":
            self.in_backup = False
            self.backup = self.snap_cand
            self.snap_cand = None
            self.restored = None
            self.n_backups += 1
            self._hist(self.backup)
        elif k == "seen":
            # the scenario process read all rows right after its Wtp() returned
            self.n_seen += 1
            if self.tainted is None:
                _, al = self.allowed()
                if not any(digest(c.values()) == ev[1] for _, c in al):
                    self.tainted = "content right after Wtp() in scenario process is none of: " + "|".join(n for n, _ in al)
        elif k == "kill":
            pass
        else:
            raise ModelError("unknown event %r" % (ev,))

    def _lookup(self, title, ns):
        op = self.cur_op
        if op is None:
            raise ModelError("write outside an op: %r" % ((title, ns),))
        if op[0] == "add":
            r = row(op[1])
            if key(r) != (title, ns):
                raise ModelError("add_page key %r does not match op %r" % ((title, ns), key(r)))
            return r
        if op[0] == "override":
            for r in op[3]:
                if (r[0], r[1]) == (title, ns):
                    return row(r)
            if op[2] == "process_dump":
                for r in DEFAULT_TEMPLATES:
                    if key(r) == (title, ns):
                        return r
        raise ModelError("unexpected write %r in op %r" % ((title, ns), op[:3]))

    # -- verdict --------------------------------------------------------
    def allowed(self):
        """(expect_tag, [(label, content), ...]) for a kill right after the last fed event."""
        with_pending = apply(self.committed, self.pending)
        if self.in_backup and self.backup is not None:
            out = [("previous-backup", self.backup)]
            if self.new_backup_installed:
                out.append(("new-snapshot", self.snap_cand))
            return "previous-backup", out
        if self.in_backup:
            out = [("original", self.committed), ("original+commit", with_pending), ("new-snapshot", self.snap_cand)]
            if self.restored is not None:
                out.append(("restored-snapshot", self.restored))
            return "original-or-snapshot", out
        if self.backup is not None:
            return "backup-snapshot", [("backup-snapshot", self.backup)]
        if self.restored is not None:
            # a restore happened and no newer backup: the restored snapshot itself, or what was committed on top
            out = [("restored+later-commits", self.committed)]
            if self.in_commit:
                out.append(("in-flight-commit", with_pending))
            out.append(("restored-snapshot", self.restored))
            return "backup-snapshot", out
        out = [("last-committed", self.committed)]
        if self.in_commit:
            out.append(("in-flight-commit", with_pending))
        return "last-committed", out

    def classify(self, observed, expected):
        """Coarse class of a content that is NOT allowed, relative to the expected one."""
        if not observed:
            return "empty"
        if self.pending and observed == apply(self.committed, self.pending) and not self.in_commit:
            return "uncommitted-writes"
        idx_e = None
        for i, h in enumerate(self.history):
            if h == expected:
                idx_e = i
        for i in range(len(self.history) - 1, -1, -1):
            if self.history[i] == observed:
                if idx_e is None:
                    return "other-commit"
                return "later-commit" if i > idx_e else "earlier-commit"
        ek, ok = set(expected), set(observed)
        if ok < ek and all(observed[k] == expected[k] for k in ok):
            return "pages-missing"
        known = set()
        for h in self.history:
            known.update(h.values())
        known.update(self.pending)
        if all(r in known for r in observed.values()):
            if ok == ek:
                return "mix-of-versions"
            return "mix-of-versions+pages-missing" if ok < ek else "mix-of-versions+extra-pages"
        return "unknown-rows"
