"""C03 reference model: specification objects -> wikitext (renderer), specification objects ->
expected structure (written from the property statement) and real parse tree -> observed structure.

Nothing here calls the parser; `observe_*` only reads the public node fields (kind, sarg, largs,
attrs, children) of the tree returned by Wtp.parse().

Inline content AST (JSON lists), a *content* is a list of items:
  ["x", text]
  ["T", name_content, [arg...]]      arg = ["p", content] | ["n", key_text, content]     {{name|a|k=v}}
  ["P", fname_text, [content...]]    at least one argument                                {{#if:a|b}}
  ["A", [content...]]                                                                     {{{a|b}}}
  ["L", [content...]]                                                                     [[a|b]]
  ["U", url_text, content|None]                                                           [url text]
  ["B", content] / ["I", content]                                                         '''x''' / ''x''
  ["H", tag_as_written, [attr...], content|None, end_ws(, sep)]   attr = [name, value, quote, eq]
        sep = the white space written between the tag name and the attributes (default one blank)
        content None = void element written without end tag (<br>, <br/>, <br />; end_ws holds the slash)
Attribute map written: name eq quote value quote, blank separated.

Observed / expected structure (JSON-able):
  content -> list of str | node;  adjacent strings merged, empty strings dropped
  node    -> ["T"|"P"|"A"|"L"|"U", [content per argument], (L only:) trailing children]
             ["B"|"I", content]    ["H", tag, {attrs}, content]
             ["?KIND", ...] for anything else
"""
from __future__ import annotations

# ---------------------------------------------------------------- rendering


def r_attrs(attrs, sep=" "):
    return sep.join("%s%s%s%s%s" % (a[0], a[3] if len(a) > 3 else "=", a[2], a[1], a[2]) for a in attrs)


def r_content(items):
    return "".join(r_item(i) for i in items)


def r_item(it):
    k = it[0]
    if k == "x":
        return it[1]
    if k == "T":
        out = ["{{", r_content(it[1])]
        for a in it[2]:
            out.append("|")
            if a[0] == "n":
                out.append(a[1] + "=")
                out.append(r_content(a[2]))
            else:
                out.append(r_content(a[1]))
        out.append("}}")
        return "".join(out)
    if k == "P":
        return "{{" + it[1] + ":" + "|".join(r_content(a) for a in it[2]) + "}}"
    if k == "A":
        return "{{{" + "|".join(r_content(a) for a in it[1]) + "}}}"
    if k == "L":
        return "[[" + "|".join(r_content(a) for a in it[1]) + "]]"
    if k == "U":
        return "[" + it[1] + ("" if it[2] is None else " " + r_content(it[2])) + "]"
    if k == "B":
        return "'''" + r_content(it[1]) + "'''"
    if k == "I":
        return "''" + r_content(it[1]) + "''"
    if k == "H":
        tag, attrs, content = it[1], it[2], it[3]
        endws = it[4] if len(it) > 4 else ""
        sep = it[5] if len(it) > 5 else " "
        s = "<" + tag + (sep + r_attrs(attrs, sep) if attrs else "")
        if content is None:
            return s + endws + ">"        # void element: endws is "", "/" or " /"
        return s + ">" + r_content(content) + "</" + tag + endws + ">"
    raise ValueError(k)


def r_table(sp):
    """Render a table specification.  Cells of one row are written in *lines*: cell["nl"] starts a
    new source line (mark ! or |), other cells continue the line with the separator cell["sep"]
    ("||" or "!!")."""
    out = [sp.get("pre", "")]
    ind = sp.get("indent", "")
    line = "{|"
    if sp["tattr"]:
        line += " " + r_attrs(sp["tattr"])
    out.append(line + "\n")
    if sp["cap"] is not None:
        ca = sp.get("capattr") or []
        out.append(ind + "|+" + (" " + r_attrs(ca) + " |" if ca else "") + " " + r_content(sp["cap"]) + "\n")
    for ri, row in enumerate(sp["rows"]):
        if ri > 0 or sp.get("marker", True) or row["attr"]:
            out.append(ind + "|-" + (" " + r_attrs(row["attr"]) if row["attr"] else "") + "\n")
        cur = ""
        for ci, c in enumerate(row["cells"]):
            body = (" " + r_attrs(c["attr"]) + " |" if c["attr"] else "") + c["pad"] + r_content(c["content"])
            if ci == 0 or c["nl"]:
                if ci:
                    out.append(cur + "\n")
                cur = ind + ("!" if c["h"] else "|") + body
            else:
                cur += c["pad"] + c["sep"] + body
        out.append(cur + "\n")
    out.append(ind + "|}" + sp.get("post", ""))
    return "".join(out)


def r_inline(sp):
    return r_content(sp["items"])


def render(sp):
    return r_table(sp) if sp["kind"] == "table" else r_inline(sp)


# ---------------------------------------------------------------- expected structure


def _push(out, v):
    if isinstance(v, str):
        if v == "":
            return
        if out and isinstance(out[-1], str):
            out[-1] += v
            return
    out.append(v)


def amap(attrs):
    return {a[0]: a[1] for a in attrs}


def e_content(items):
    out = []
    for it in items:
        k = it[0]
        if k == "x":
            _push(out, it[1])
        elif k == "T":
            args = [e_content(it[1])]
            for a in it[2]:
                if a[0] == "n":
                    args.append(e_content([["x", a[1] + "="]] + a[2]))
                else:
                    args.append(e_content(a[1]))
            out.append(["T", args])
        elif k == "P":
            out.append(["P", [[it[1]]] + [e_content(a) for a in it[2]]])
        elif k == "A":
            out.append(["A", [e_content(a) for a in it[1]]])
        elif k == "L":
            out.append(["L", [e_content(a) for a in it[1]], []])
        elif k == "U":
            args = [[it[1]]]
            if it[2] is not None:
                args.append(e_content(it[2]))
            out.append(["U", args])
        elif k in ("B", "I"):
            out.append([k, e_content(it[1])])
        elif k == "H":
            out.append(["H", it[1].lower(), amap(it[2]), e_content(it[3] or [])])
        else:
            raise ValueError(k)
    return out


def strip_ends(c):
    """Blank-insensitive at both ends of a cell / caption (the statement speaks of content, the
    source necessarily has a line end after it)."""
    c = list(c)
    if c and isinstance(c[0], str):
        c[0] = c[0].lstrip()
        if not c[0]:
            c.pop(0)
    if c and isinstance(c[-1], str):
        c[-1] = c[-1].rstrip()
        if not c[-1]:
            c.pop()
    return c


def e_table(sp):
    return {
        "outside": (sp.get("pre", "") + " " + sp.get("post", "")).split(),
        "tattr": amap(sp["tattr"]),
        "cap": None if sp["cap"] is None else {"attr": amap(sp.get("capattr") or []),
                                               "content": strip_ends(e_content(sp["cap"]))},
        "rows": [{"attr": amap(r["attr"]),
                  "cells": [{"h": bool(c["h"]), "attr": amap(c["attr"]), "content": strip_ends(e_content(c["content"]))}
                            for c in r["cells"]]} for r in sp["rows"]],
    }


def expected(sp):
    return e_table(sp) if sp["kind"] == "table" else e_content(sp["items"])


# ---------------------------------------------------------------- observed structure

_LET = {"TEMPLATE": "T", "PARSER_FN": "P", "TEMPLATE_ARG": "A", "URL": "U"}


def o_content(children):
    out = []
    for c in children:
        if isinstance(c, str):
            _push(out, c)
        else:
            out.append(o_node(c))
    return out


def o_node(n):
    k = n.kind.name
    if k in _LET:
        r = [_LET[k], [o_content(a) for a in n.largs]]
        if n.children:
            r.append({"unexpected-children": o_content(n.children)})
        return r
    if k == "LINK":
        return ["L", [o_content(a) for a in n.largs], o_content(n.children)]
    if k == "BOLD":
        return ["B", o_content(n.children)]
    if k == "ITALIC":
        return ["I", o_content(n.children)]
    if k == "HTML":
        r = ["H", n.sarg, dict(n.attrs), o_content(n.children)]
        if n.largs:
            r.append({"unexpected-largs": [o_content(a) for a in n.largs]})
        return r
    return ["?" + k, n.sarg, [o_content(a) for a in n.largs], dict(n.attrs), o_content(n.children)]


def o_table(root):
    """Observed table structure, or {"shape": reason} when the tree is not 'text, one table, text'."""
    nodes = [c for c in root.children if not isinstance(c, str)]
    outside = " ".join(c for c in root.children if isinstance(c, str)).split()
    if len(nodes) != 1 or nodes[0].kind.name != "TABLE":
        return {"shape": "root-children:" + ",".join(n.kind.name for n in nodes)[:80]}
    t = nodes[0]
    ob = {"outside": outside, "tattr": dict(t.attrs), "cap": None, "rows": [], "stray": []}
    ncap = 0
    for ch in t.children:
        if isinstance(ch, str):
            if ch.strip():
                ob["stray"].append(["table", "text"])
            continue
        k = ch.kind.name
        if k == "TABLE_CAPTION":
            ncap += 1
            cap = {"attr": dict(ch.attrs), "content": strip_ends(o_content(ch.children))}
            ob["cap"] = cap if ncap == 1 else {"several-captions": ncap}
        elif k == "TABLE_ROW":
            row = {"attr": dict(ch.attrs), "cells": []}
            for c in ch.children:
                if isinstance(c, str):
                    if c.strip():
                        ob["stray"].append(["row", "text"])
                    continue
                ck = c.kind.name
                if ck not in ("TABLE_CELL", "TABLE_HEADER_CELL"):
                    ob["stray"].append(["row", ck])
                    continue
                row["cells"].append({"h": ck == "TABLE_HEADER_CELL", "attr": dict(c.attrs),
                                     "content": strip_ends(o_content(c.children))})
            ob["rows"].append(row)
        else:
            ob["stray"].append(["table", k])
    return ob


def observe(sp, root):
    return o_table(root) if sp["kind"] == "table" else o_content(root.children)


# ---------------------------------------------------------------- comparison (first differing path)


def diff_content(e, g, path="content"):
    """-> None | (rule, path, expected, got).  rule names the clause of the statement that fails."""
    if e == g:
        return None
    n = min(len(e), len(g))
    for i in range(n):
        a, b = e[i], g[i]
        if a == b:
            continue
        p = "%s[%d]" % (path, i)
        if isinstance(a, str) and isinstance(b, str):
            if b.startswith(a) and i + 1 < len(e) and not isinstance(e[i + 1], str):
                # the written construct after this text came back as text
                return ("node-vs-text:" + e[i + 1][0], "%s[%d]" % (path, i + 1), e[i + 1], b[len(a):])
            return ("text", p, a, b)
        if isinstance(a, str) or isinstance(b, str):
            return ("node-vs-text:" + (b[0] if isinstance(a, str) else a[0]), p, a, b)
        if a[0] != b[0]:
            return ("node-kind:%s-as-%s" % (a[0], b[0]), p, a, b)
        k = a[0]
        if k in ("T", "A", "L", "U", "P"):
            if len(a[1]) != len(b[1]):
                return (k + ".arg-count", p, a[1], b[1])
            for j, (x, y) in enumerate(zip(a[1], b[1])):
                if x != y:
                    d = diff_content(x, y, "%s.arg%d" % (p, j))
                    return (k + ".arg/" + d[0],) + d[1:]
            return (k + ".extra", p, a[2:], b[2:])
        if k in ("B", "I"):
            d = diff_content(a[1], b[1], p + "." + k)
            return (k + "/" + d[0],) + d[1:]
        if k == "H":
            if a[1] != b[1]:
                return ("H.tag", p, a[1], b[1])
            if a[2] != b[2]:
                return ("H.attrs", p, a[2], b[2])
            if a[3] != b[3]:
                d = diff_content(a[3], b[3], p + ".<%s>" % a[1])
                return ("H.content/" + d[0],) + d[1:]
            return ("H.extra", p, a[4:], b[4:])
        return ("node", p, a, b)
    return ("length", path, e[n:], g[n:])


def diff_table(e, g):
    # clause "exactly r rows of exactly c cells": every way of not being that grid is one rule, the
    # detail goes into the message
    if "shape" in g:
        return ("grid-shape", "root", "one TABLE", g["shape"])
    if g["stray"]:
        return ("grid-shape", "table", "only caption/rows/cells", {"stray": g["stray"]})
    if len(e["rows"]) != len(g["rows"]):
        return ("grid-shape", "rows", len(e["rows"]), {"rows": len(g["rows"]), "caption": g["cap"]})
    for i, (er, gr) in enumerate(zip(e["rows"], g["rows"])):
        if len(er["cells"]) != len(gr["cells"]):
            return ("grid-shape", "row%d" % i, len(er["cells"]), {"cells": len(gr["cells"]), "row-attrs": gr["attr"]})
    for i, (er, gr) in enumerate(zip(e["rows"], g["rows"])):
        for j, (ec, gc) in enumerate(zip(er["cells"], gr["cells"])):
            if ec["h"] != gc["h"]:
                return ("cell-kind", "row%d.cell%d" % (i, j), ec["h"], gc["h"])
    if e["tattr"] != g["tattr"]:
        return ("table-attrs", "table", e["tattr"], g["tattr"])
    if (e["cap"] is None) != (g["cap"] is None):
        return ("caption-presence", "caption", e["cap"], g["cap"])
    for i, (er, gr) in enumerate(zip(e["rows"], g["rows"])):
        if er["attr"] != gr["attr"]:
            return ("row-attrs", "row%d" % i, er["attr"], gr["attr"])
    for i, (er, gr) in enumerate(zip(e["rows"], g["rows"])):
        for j, (ec, gc) in enumerate(zip(er["cells"], gr["cells"])):
            if ec["attr"] != gc["attr"]:
                return ("cell-attrs", "row%d.cell%d" % (i, j), ec["attr"], gc["attr"])
    if e["cap"] is not None and e["cap"] != g["cap"]:
        if "several-captions" in g["cap"]:
            return ("caption-count", "caption", 1, g["cap"])
        if e["cap"]["attr"] != g["cap"]["attr"]:
            return ("caption-attrs", "caption", e["cap"]["attr"], g["cap"]["attr"])
        d = diff_content(e["cap"]["content"], g["cap"]["content"], "caption")
        return ("caption-content/" + d[0],) + d[1:]
    for i, (er, gr) in enumerate(zip(e["rows"], g["rows"])):
        for j, (ec, gc) in enumerate(zip(er["cells"], gr["cells"])):
            if ec["content"] != gc["content"]:
                d = diff_content(ec["content"], gc["content"], "row%d.cell%d" % (i, j))
                return ("cell-content/" + d[0],) + d[1:]
    if e["outside"] != g["outside"]:
        return ("outside-text", "root", e["outside"], g["outside"])
    return None


def diff(sp, e, g):
    return diff_table(e, g) if sp["kind"] == "table" else diff_content(e, g, "top")
