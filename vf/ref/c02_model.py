"""C02 reference models, written from the property statement only (no repo code is imported).

An outline is a list of line dicts:
  {"k": "h",  "lv": 1..6, "id": "H<n>", "deco": ...}   heading
  {"k": "hr", "n": 4..}                                  horizontal rule
  {"k": "f",  "fk": ..., "id": "F<n>" | None}           balanced filler block (a non-list line)
  {"k": "l",  "m": "*#..", "id": "I<n>", "deco": ...}   list line
  {"k": "wo"} / {"k": "wc"}                              open / close line of a balanced <div> that wraps lines

sections():  heading of level L pops while top.level >= L; a rule pops while top.level > 2;
             content belongs to the section on top of the stack.
lists():     most recent open item whose marker is a proper prefix => nested list in it;
             equal marker => same list; otherwise a new list; a non-list line closes all lists.
"""
from __future__ import annotations


def sections(lines):
    """-> (H {id: (level, parent id|None)}, C {content id: section id|None}, HR [section id|None, ...])"""
    H, C, HR = {}, {}, []
    stack = []  # (level, id)
    for ln in lines:
        k = ln["k"]
        if k == "h":
            while stack and stack[-1][0] >= ln["lv"]:
                stack.pop()
            H[ln["id"]] = (ln["lv"], stack[-1][1] if stack else None)
            stack.append((ln["lv"], ln["id"]))
        elif k == "hr":
            while stack and stack[-1][0] > 2:
                stack.pop()
            HR.append(stack[-1][1] if stack else None)
        elif k in ("f", "l"):
            if ln.get("id") is not None:
                C[ln["id"]] = stack[-1][1] if stack else None
    return H, C, HR


def lists(lines):
    """-> I {id: (marker, parent item id|None, list uid)}; uids number the lists in order of creation."""
    I = {}
    open_items = []  # (marker, id, list uid), outermost first
    uid = 0
    for ln in lines:
        if ln["k"] != "l":
            if ln["k"] == "f" and ln.get("fk") == "none":
                continue  # renders to nothing at all
            open_items = []  # a non-list line closes all lists
            continue
        m = ln["m"]
        # items whose marker is neither a proper prefix of m nor equal to m are closed
        while open_items and not m.startswith(open_items[-1][0]):
            open_items.pop()
        if open_items and open_items[-1][0] == m:
            _, _, lu = open_items.pop()  # equal marker: same list, the previous item ends
        else:
            uid += 1
            lu = uid  # nested list in the open proper-prefix item, or a new top-level list
        parent = open_items[-1][1] if open_items else None
        I[ln["id"]] = (m, parent, lu)
        open_items.append((m, ln["id"], lu))
    return I


def model(lines):
    H, C, HR = sections(lines)
    return {"H": H, "C": C, "HR": HR, "I": lists(lines)}


def ancestors(H, sid):
    """strict ancestors of section sid in the model tree, nearest first, ending with None (the root)."""
    out = []
    while sid is not None:
        sid = H[sid][1] if sid in H else None
        out.append(sid)
    return out
