"""Reference: the includable (transcluded) part of a template page.

Written from the MediaWiki transclusion documentation (Help:Templates /
"Control template inclusion"), not from the code under test:

* HTML comments never reach the transclusion (an unclosed comment runs to the
  end of the page);
* text between <noinclude> and </noinclude> is not transcluded (an unclosed
  <noinclude> hides the rest of the page);
* when the page has <onlyinclude>...</onlyinclude> blocks, only their contents
  are transcluded;
* <includeonly> / </includeonly> tags are dropped, their content stays.

It is a one-pass scanner (no regular expressions shared with the subject).
Tag names are case-insensitive and may have blanks before '>'.  The C12
generator only emits bodies on which all orderings of these rules agree (it
also cross-checks this scanner against the includable text it knows by
construction), so nothing here decides an ambiguous nesting.
"""
from __future__ import annotations

WS = " \t\r\n\f\v"
NAMES = ("noinclude", "onlyinclude", "includeonly")


def _tag_at(text, i):
    """(name, closing, end) when an include tag starts at text[i] == '<', else None."""
    n = len(text)
    j = i + 1
    closing = False
    if j < n and text[j] == "/":
        closing = True
        j += 1
    low = text[j:j + 11].lower()
    for name in NAMES:
        if low.startswith(name):
            k = j + len(name)
            while k < n and text[k] in WS:
                k += 1
            if k < n and text[k] == ">":
                return name, closing, k + 1
            return None
    return None


def tokens(text):
    """Split into ('text', s) | ('open'|'close', name) tokens; comments are dropped."""
    out = []
    buf = []
    i, n = 0, len(text)
    while i < n:
        c = text[i]
        if c == "<":
            if text.startswith("<!--", i):
                e = text.find("-->", i + 4)
                i = n if e < 0 else e + 3
                continue
            t = _tag_at(text, i)
            if t is not None:
                if buf:
                    out.append(("text", "".join(buf)))
                    buf = []
                out.append(("close" if t[1] else "open", t[0]))
                i = t[2]
                continue
        buf.append(c)
        i += 1
    if buf:
        out.append(("text", "".join(buf)))
    return out


def _render(toks):
    return "".join(t[1] if t[0] == "text" else ("</%s>" if t[0] == "close" else "<%s>") % t[1] for t in toks)


def includable(text: str) -> str:
    toks = tokens(text)
    # 1. noinclude regions disappear
    kept = []
    i = 0
    while i < len(toks):
        k, v = toks[i]
        if k == "open" and v == "noinclude":
            j = i + 1
            while j < len(toks) and toks[j] != ("close", "noinclude"):
                j += 1
            i = j + 1  # unclosed: j == len(toks) -> rest hidden
            continue
        kept.append(toks[i])
        i += 1
    # 2. onlyinclude blocks, when present, are the only thing transcluded
    blocks = []
    i = 0
    while i < len(kept):
        if kept[i] == ("open", "onlyinclude"):
            j = i + 1
            while j < len(kept) and kept[j] != ("close", "onlyinclude"):
                j += 1
            if j < len(kept):
                blocks.append(kept[i + 1:j])
                i = j + 1
                continue
        i += 1
    if blocks:
        kept = [t for b in blocks for t in b]
    # 3. includeonly tags are transparent
    kept = [t for t in kept if not (t[0] != "text" and t[1] == "includeonly")]
    return _render(kept)
