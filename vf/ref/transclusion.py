"""Reference transclusion semantics (C04) with optional selection (C13).

Evaluates the expansion AST of vf.gen.expansion directly; never parses wikitext and shares no
code or regex with the implementation.  Rules are exactly the ones named in property C04 (and,
when a selection is given, the ones in C13)."""
from __future__ import annotations

import re

MARK = ("*", "#", ":", ";", "{|")
NUM = re.compile(r"^[+-]?(\d+(\.\d*)?|\.\d+)([eE][+-]?\d+)?$")


class Cycle(Exception):
    pass


class FuelExhausted(Exception):
    pass


def nl(s):
    return "\n" + s if s.startswith(MARK) else s


def key_of(k: str):
    k = " ".join(k.split())
    if k.isdigit() and int(k) > 0:
        return int(k)
    return k


def includable(body):
    """AST -> AST: the part of a template body that is transcluded."""
    def has_only(a):
        k = a[0]
        if k == "ONLYINC":
            return True
        if k == "S":
            return any(has_only(x) for x in a[1])
        return False

    def collect_only(a, out):
        k = a[0]
        if k == "ONLYINC":
            out.append(strip(a[1]))
        elif k == "S":
            for x in a[1]:
                collect_only(x, out)

    def strip(a):
        k = a[0]
        if k == "S":
            out = []
            for x in a[1]:
                if x[0] in ("NOINC", "COMMENT"):
                    continue
                if x[0] in ("INCONLY", "ONLYINC"):
                    out.append(strip(x[1]))
                else:
                    out.append(strip(x))
            return ("S", out)
        return a
    if has_only(body):
        out = []
        collect_only(body, out)
        return ("S", out)
    return strip(body)


class Ref:
    """selection None = expand everything; else a set of template names to expand.
    pf: parser functions enabled.  calls: list collecting (name, argmap) per expanded call.
    hook(name, argmap) -> None|str models template_fn; post(name, argmap, text) models post_template_fn."""

    def __init__(self, lib, selection=None, pf=True, hook=None, post=None, body_selection="same"):
        self.lib = {k: includable(v) for k, v in lib.items()}
        self.selection = selection
        self.pf = pf
        self.hook = hook
        self.post = post
        self.calls = []
        self.rules = {}
        self.body_selection = body_selection
        self.template_ns_name = "Template"
        self.fuel = 20000
        self.max_depth = 30
        self.max_len = 1000000
        self.cycle_marker = None   # if set: a re-entered template yields this marker instead of raising Cycle
        self.full_body = set()     # templates whose body is expanded fully (flagged templates on non-en wikis)
        # C13 only (both default to the behaviour every other user of this class relies on):
        self.hook_verbatim = False   # True: a hook result is the expansion as is (no newline before a list marker)
        self.post_on_empty = False   # True: post is also shown an empty expansion

    def hit(self, r):
        self.rules[r] = self.rules.get(r, 0) + 1

    def ev(self, a, frame, stack=(), full=None):
        """Size-guarded entry (fuelled runs only): every intermediate text of a run with a cycle marker is bounded."""
        t = self._ev(a, frame, stack, full)
        if self.cycle_marker is not None and isinstance(t, str) and len(t) > self.max_len:
            raise FuelExhausted()
        return t

    def _ev(self, a, frame, stack=(), full=None):
        """full: True = everything below is fully expanded (arguments of an expanded call)."""
        if full is None:
            full = self.selection is None
        k = a[0]
        if k == "T":
            return a[1]
        if k == "S":
            return "".join(self.ev(x, frame, stack, full) for x in a[1])
        if k in ("NOINC", "COMMENT"):
            return ""
        if k in ("INCONLY", "ONLYINC"):
            return self.ev(a[1], frame, stack, full)
        if k == "P":
            kk = key_of(a[2])
            if frame is not None and kk in frame:
                self.hit("param-defined")
                if frame[kk].endswith("\n"):
                    self.hit("CLASS:pos-trailing-newline")
                return frame[kk]
            if a[3] is not None:
                self.hit("param-default")
                return self.ev(a[3], frame, stack, full)
            self.hit("param-undefined-literal")
            return "{{{" + a[1] + "}}}"      # stays literal AS WRITTEN (not the trimmed lookup key)
        if k == "CN":
            # the name part is expanded first (parser functions in it are evaluated when enabled); the call
            # then behaves like an ordinary call of that name, and is re-emitted under the EXPANDED name
            self.hit("computed-call-name")
            nm = a[1] + self.ev(a[2], frame, stack, full)
            return self.ev(("C", nm, nm.strip(), a[4]), frame, stack, full)
        if k == "C":
            name = a[2]
            expand_it = full or (name in self.lib and name in self.selection)
            if not expand_it:
                self.hit("call-left-unexpanded")
                parts = [a[1]]
                for x in a[3]:
                    if x[0] == "pos":
                        parts.append(self.ev(x[1], frame, stack, full))
                    else:
                        parts.append(x[1] + "=" + x[4] + self.ev(x[3], frame, stack, full) + x[5])
                    if parts[-1].endswith("\n"):
                        self.hit("CLASS:pos-trailing-newline")
                return "{{" + "|".join(parts) + "}}"
            ht = {}
            num = 1
            for x in a[3]:
                if x[0] == "pos":
                    ht[num] = self.ev(x[1], frame, stack, True)
                    if ht[num].endswith("\n"):
                        self.hit("CLASS:pos-trailing-newline")
                    num += 1
                    self.hit("arg-positional-verbatim")
                else:
                    kk = key_of(x[2])
                    if kk in ht:
                        self.hit("later-duplicate-wins")
                    ht[kk] = (x[4] + self.ev(x[3], frame, stack, True) + x[5]).strip()
                    self.hit("arg-named-trimmed")
            self.calls.append((name, dict(ht)))
            t = None
            if self.hook is not None:
                t = self.hook(name, ht)
            from_hook = t is not None
            if t is None:
                if name not in self.lib:
                    self.hit("missing-template-link")
                    t = "[[:" + self.template_ns_name + ":" + name + "]]"
                else:
                    if name in stack:
                        self.hit("template-reentered-on-own-path")
                        if self.cycle_marker is None:
                            raise Cycle(name)
                    if self.cycle_marker is not None:
                        self.fuel -= 1
                        if self.fuel < 0:
                            raise FuelExhausted()
                        if len(stack) > self.max_depth:
                            # unbounded (or very deep) recursion: the implementation must cut it and say so
                            self.hit("cycle-or-depth")
                            return self.cycle_marker
                    self.hit("template-expanded")
                    t = self.ev(self.lib[name], ht, stack + (name,), full or name in self.full_body)
                    if self.cycle_marker is not None and len(t) > self.max_len:
                        # fuelled run on a branching cycle: the text doubles per level; give up instead of
                        # exhausting the machine's memory (the caller treats it like spent fuel)
                        raise FuelExhausted()
            t2 = nl(t)
            if t2 != t and from_hook and self.hook_verbatim:
                self.hit("CLASS:template_fn-result-starts-with-list-marker")
                t2 = t
            if t2 != t:
                self.hit("newline-prepended")
            t = t2
            if self.post is not None and (t or self.post_on_empty):
                r = self.post(name, ht, t)
                if r is not None:
                    if not t:
                        self.hit("CLASS:post_template_fn-replaces-empty-expansion")
                    t = r
            return t
        if not self.pf:
            self.hit("parserfn-left-unexpanded")
            first = self.ev(a[1], frame, stack, full)
            n0 = len(self.calls)
            if k == "IF":
                out = "{{#if:" + "|".join([first] + [self.ev(x, frame, stack, full) for x in a[2:]]) + "}}"
            elif k == "EQ":
                out = "{{#ifeq:" + "|".join([first] + [self.ev(x, frame, stack, full) for x in a[2:]]) + "}}"
            else:
                out = "{{#switch:" + first + "".join(
                    "|" + (self.ev(v, frame, stack, full) if c is None else c + "=" + self.ev(v, frame, stack, full))
                    for c, v in a[2]) + "}}"
            if len(self.calls) != n0:
                self.hit("CLASS:selected-call-inside-disabled-parserfn")
            if frame is not None and any(seg.endswith("\n") for seg in out[2:-2].split("|")):
                self.hit("CLASS:pos-trailing-newline")
            if first != first.strip():
                self.hit("CLASS:disabled-parserfn-first-arg-edge-blank")
            if frame is not None or full:
                if "=" in out:
                    # the re-emitted text of a disabled parser function travels on as (part of) an argument value /
                    # parameter value; an '=' in it is then read as name=value by the next call
                    self.hit("CLASS:disabled-parserfn-text-with-equals-inside-expanded-call")
            return out
        if k in ("IF", "EQ", "SW") and not full:
            n0 = len(self.calls)
            saved = (self.hook, self.post, dict(self.rules))
            self.hook = self.post = None
            try:
                self.ev(a[1], frame, stack, True)
            finally:
                self.hook, self.post, self.rules = saved
            if any(nm not in self.selection for nm, _ in self.calls[n0:]):
                self.hit("CLASS:parserfn-first-arg-calls-unselected-template")
            del self.calls[n0:]
        if k == "IF":
            c = self.ev(a[1], frame, stack, True).strip()
            self.hit("if-true" if c else "if-false")
            return nl(self.ev(a[2] if c else a[3], frame, stack, True).strip())
        if k == "EQ":
            x = self.ev(a[1], frame, stack, True).strip()
            y = self.ev(a[2], frame, stack, True).strip()
            eq = x == y
            if not eq and NUM.match(x) and NUM.match(y) and float(x) == float(y):
                # MediaWiki: "if both strings are valid numerical values, they are compared numerically"
                eq = True
                self.hit("CLASS:numeric-comparands")
            self.hit("ifeq-eq" if eq else "ifeq-ne")
            return nl(self.ev(a[3] if eq else a[4], frame, stack, True).strip())
        if k == "SW":
            v = self.ev(a[1], frame, stack, True).strip()
            dflt = None
            fall = False
            last = None
            for c, val in a[2]:
                if c is None:
                    last = self.ev(val, frame, stack, True).strip()
                    if last == v:
                        fall = True
                    continue
                if c == v or fall:
                    self.hit("switch-fallthrough" if fall and c != v else "switch-match")
                    return nl(self.ev(val, frame, stack, True).strip())
                if c.lower() == "#default":
                    dflt = val
                last = None
            if dflt is not None:
                self.hit("switch-default")
                return nl(self.ev(dflt, frame, stack, True).strip())
            self.hit("switch-nomatch")
            return nl(last or "")
        raise ValueError(k)
