"""C14 reference: the argument-map rule of the property statement.

Written from the statement only (nothing imported from the package):

    * an argument that contains '=' is *named*: name = text before the first
      '=', trimmed; value = text after it, trimmed;
    * a name that is a positive decimal number is the integer key, every other
      name is a string key;
    * every other argument is *positional*: key = 1, 2, 3 ... counted over the
      positional arguments only; value verbatim.

The statement does not say what "trimmed" / "numeric" mean outside ASCII
(NBSP, U+3000, full-width or Arabic-Indic digits ...).  Two readings are kept:
``rule(args, "A")`` (ASCII blanks, ASCII digits) and ``rule(args, "U")``
(Unicode blanks, Unicode decimal digits that int() accepts).  Where they
coincide the rule is asserted; where they differ either reading is accepted
but the three views must still coincide with each other.
"""
from __future__ import annotations

import re

ASCII_WS = " \t\n\r\f\v"
FORBIDDEN = set("|{}[]<>")          # not plain text inside a template argument


def _trim(s, mode):
    return s.strip(ASCII_WS) if mode == "A" else s.strip()


def _numeric(name, mode):
    """int key for a positive numeric name, else None."""
    if not name:
        return None
    if mode == "A":
        if name.isascii() and name.isdigit() and int(name) > 0:
            return int(name)
        return None
    if name.isdigit():
        try:
            v = int(name)
        except ValueError:
            return None
        return v if v > 0 else None
    return None


def split_arg(raw):
    """(name | None, value) -- untrimmed."""
    if "=" in raw:
        n, v = raw.split("=", 1)
        return n, v
    return None, raw


def rule(args, mode="A"):
    d = {}
    num = 1
    for raw in args:
        n, v = split_arg(raw)
        if n is None:
            d[num] = v
            num += 1
        else:
            n = _trim(n, mode)
            k = _numeric(n, mode)
            d[n if k is None else k] = _trim(v, mode)
    return d


def keys_of(args, mode):
    ks = []
    num = 1
    for raw in args:
        n, _v = split_arg(raw)
        if n is None:
            ks.append(num)
            num += 1
        else:
            n = _trim(n, mode)
            k = _numeric(n, mode)
            ks.append(n if k is None else k)
    return ks


def admissible(args):
    """Precondition of the statement + domain of the quantifier.

    distinct effective names (under both readings), non-blank values, non-empty
    names, plain text only, no positional value that ENDS in a newline (the
    quantifier speaks of leading / inner newlines only)."""
    if not args:
        return False
    for raw in args:
        if FORBIDDEN & set(raw):
            return False
        n, v = split_arg(raw)
        if not v.strip():
            return False
        if n is None:
            if v.endswith("\n"):
                return False
        elif not n.strip():
            return False
    for mode in ("A", "U"):
        ks = keys_of(args, mode)
        if len(set(map(_typed, ks))) != len(ks):
            return False
        # '1' vs 1 would be distinct typed keys but are one name to a reader
        if len(set(map(str, ks))) != len(ks):
            return False
    return True


def _typed(k):
    return (type(k).__name__, k)


def canon(d):
    """typed, order-free form of an argument map (1, 1.0, True, '1' all differ)."""
    out = []
    for k, v in d.items():
        out.append((type(k).__name__, str(k), v if isinstance(v, str) else ("<%s>" % type(v).__name__, repr(v)[:120])))
    return tuple(sorted(out, key=lambda t: (t[0], t[1], str(t[2]))))


def show(c):
    """compact literal of a canon() value (used in messages and, for canonical witnesses, in signatures)."""
    parts = []
    for t, k, v in c:
        ks = k if t in ("int", "float", "bool") else "'%s'" % k
        if t not in ("int", "str"):
            ks = t + ":" + ks
        parts.append("%s:%s" % (ks, "'%s'" % v if isinstance(v, str) else "<non-str>"))
    return "{" + ",".join(parts) + "}"


def diff_kind(view, ref):
    """What differs between two canon() maps: 'keys' | 'key-type' | 'value-ws-lost' | 'value-ws-kept' | 'value-ws' |
    'value-shape' | 'value-content' | None."""
    if view == ref:
        return None
    kv = {k for _t, k, _v in view}
    kr = {k for _t, k, _v in ref}
    if kv != kr or len(view) != len(ref):
        return "keys"
    tv = {(t, k) for t, k, _v in view}
    tr = {(t, k) for t, k, _v in ref}
    if tv != tr:
        return "key-type"
    dv = {(t, k): v for t, k, v in view}
    kinds = set()
    for t, k, v in ref:
        w = dv[(t, k)]
        if w == v:
            continue
        if not isinstance(w, str):
            kinds.add("value-shape")
        elif "".join(w.split()) == "".join(v.split()):
            # same text, only blanks / newlines differ (at the edges or inside)
            kinds.add("value-ws-lost" if len(w) < len(v) else "value-ws-kept")
        else:
            kinds.add("value-content")
    for k in ("value-shape", "value-content"):
        if k in kinds:
            return k
    if len(kinds) == 2:
        return "value-ws"
    return kinds.pop()


SEVERITY = ["value-ws-lost", "value-ws-kept", "value-ws", "value-content", "value-shape", "key-type", "keys"]


# ---------------------------------------------------------------- structure of one raw argument

_PADS = re.compile(r"(?s)^(\s*)(.*?)(\s*)$")


def pads(s):
    m = _PADS.match(s)
    return m.group(1), m.group(2), m.group(3)


def destructure(raw):
    """raw -> dict(kind='pos'|'named'|'num', fields...)."""
    n, v = split_arg(raw)
    vl, vc, vr = pads(v)
    if n is None:
        return {"kind": "pos", "vl": vl, "v": vc, "vr": vr}
    nl, nc, nr = pads(n)
    kind = "num" if _numeric(nc, "U") is not None else "named"
    return {"kind": kind, "nl": nl, "n": nc, "nr": nr, "vl": vl, "v": vc, "vr": vr}


def render(s):
    if s["kind"] == "pos":
        return s["vl"] + s["v"] + s["vr"]
    return s["nl"] + s["n"] + s["nr"] + "=" + s["vl"] + s["v"] + s["vr"]


def ws_classes(p):
    out = []
    for ch in p:
        c = {" ": "ws", "\n": "nl", "\t": "tab", "\r": "cr", "\f": "ff", "\v": "vt", "\xa0": "nbsp"}.get(ch, "uws")
        if c not in out:
            out.append(c)
    return out


WS_REP = {"ws": " ", "nl": "\n", "tab": "\t", "cr": "\r", "ff": "\f", "vt": "\v", "nbsp": "\xa0", "uws": "　"}


def text_classes(s, name):
    """character classes of a name / value core that could matter to one of the three implementations."""
    out = []

    def add(c):
        if c not in out:
            out.append(c)
    if "=" in s:
        add("eq")
    if "'" in s:
        add("apos")
    if '"' in s:
        add("dquote")
    if "&" in s:
        add("amp")
    if re.search(r"\n[*#:;=]", s):
        add("nl-marker")
    if re.search(r"\n[ \t]+\n", s) or re.search(r"^[ \t]+\n", s) or re.search(r"\n[ \t]+$", s):
        add("blankline")
    if "\n\n" in s:
        add("nl-nl")
    if "\n" in s:
        add("nl")
    if "\t" in s or "\r" in s:
        add("tab")
    if re.search(r"[ \t\n\r]{2}", s) or re.search(r"\s\s", s):
        add("ws-run")
    if re.search(r"\s", s) and " " in s:
        add("sp")
    if re.search(r"[^\x00-\x7f]", s):
        if any(ch.isdigit() and not ch.isascii() for ch in s):
            add("udigit")
        if any(ch.isspace() and not ch.isascii() for ch in s):
            add("uspace")
        add("nonascii")
    if name:
        if s.isdigit():
            add("digits")
        elif re.match(r"^[-+]?\d", s):
            add("digit-lead")
    if re.search(r"[^\w\s=\"'&]", s):
        add("punct")
    return out


def features(args):
    """observation tags of one list (evidence counters, non-triviality)."""
    f = set()
    kinds = set()
    for raw in args:
        s = destructure(raw)
        kinds.add(s["kind"])
        f.add("kind." + s["kind"])
        for fld in ("nl", "nr", "vl", "vr"):
            if s.get(fld):
                for c in ws_classes(s[fld]):
                    f.add("%s.%s.%s" % (s["kind"], fld, c))
        for c in text_classes(s["v"], False):
            f.add("%s.v.%s" % (s["kind"], c))
        if s["kind"] != "pos":
            for c in text_classes(s["n"], True):
                f.add("%s.n.%s" % (s["kind"], c))
        if s["kind"] == "num":
            if s["n"].startswith("0"):
                f.add("num.lead0")
            try:
                if int(s["n"]) > 1000:
                    f.add("num.gt1000")
            except ValueError:
                pass
    if len(kinds) >= 2:
        f.add("mixed-kinds")
    if kinds == {"pos", "named", "num"}:
        f.add("all-three-kinds")
    # a positional that follows a numeric name (numbering interplay)
    seen_num = False
    for raw in args:
        k = destructure(raw)["kind"]
        if k == "num":
            seen_num = True
        elif k == "pos" and seen_num:
            f.add("pos-after-num")
    return f
