"""C14 reference: the argument-map rule of the property statement.

Written from the statement only (nothing imported from the package):

    * an argument that contains '=' is *named*: name = text before the first
      '=', trimmed; value = text after it, trimmed;
    * a name that is a positive decimal number is the integer key, every other
      name is a string key;
    * every other argument is *positional*: key = 1, 2, 3 ... counted over the
      positional arguments only; value verbatim.

The statement does not say what "trimmed" / "numeric" mean outside ASCII
(NBSP, U+3000, full-width or Arabic-Indic digits ...).  Two readings are kept:
``rule(args, "A")`` (ASCII blanks, ASCII digits) and ``rule(args, "U")``
(Unicode blanks, Unicode decimal digits that int() accepts).  Where they
coincide the rule is asserted; where they differ either reading is accepted
but the three views must still coincide with each other.
"""
from __future__ import annotations

import re

ASCII_WS = " \t\n\r\f\v"
FORBIDDEN = set("|{}")              # never plain text inside a template argument
BRACKETS = set("[]")               # a lone bracket / angle is plain text, a pair would be a link / tag:
ANGLES = set("<>")                 # at most one of each family in a whole argument list
NAME_HEURISTIC = set("][&<>\"'")    # characters for which the statement does not say whether 'x=..' is still a name


def _trim(s, mode):
    return s.strip(ASCII_WS) if mode == "A" else s.strip()


def _numeric(name, mode):
    """int key for a positive numeric name, else None."""
    if not name:
        return None
    if mode == "A":
        if name.isascii() and name.isdigit() and int(name) > 0:
            return int(name)
        return None
    if name.isdigit():
        try:
            v = int(name)
        except ValueError:
            return None
        return v if v > 0 else None
    return None


def split_arg(raw):
    """(name | None, value) -- untrimmed."""
    if "=" in raw:
        n, v = raw.split("=", 1)
        return n, v
    return None, raw


def rule(args, mode="A", positional=()):
    """The argument map of the statement.  positional: indices of arguments that contain '=' but are read as
    positional (only used for the 'either reading' arguments of heuristic_args())."""
    d = {}
    num = 1
    for i, raw in enumerate(args):
        n, v = split_arg(raw)
        if n is None or i in positional:
            d[num] = raw
            num += 1
        else:
            n = _trim(n, mode)
            k = _numeric(n, mode)
            d[n if k is None else k] = _trim(v, mode)
    return d


def keys_of(args, mode, positional=()):
    ks = []
    num = 1
    for i, raw in enumerate(args):
        n, _v = split_arg(raw)
        if n is None or i in positional:
            ks.append(num)
            num += 1
        else:
            n = _trim(n, mode)
            k = _numeric(n, mode)
            ks.append(n if k is None else k)
    return ks


def heuristic_args(args):
    """Indices of arguments 'x=v' whose x has no character at all or contains one of ] [ & < > \" ' : the statement
    does not define what a name may consist of, so 'named x' and 'positional x=v' are both accepted for them --
    but the three views must still give the same map."""
    out = []
    for i, raw in enumerate(args):
        n, _v = split_arg(raw)
        if n is not None and (n == "" or NAME_HEURISTIC & set(n)):
            out.append(i)
    return out


def _subsets(idx):
    if len(idx) > 3:
        return [tuple(idx)]
    out = []
    for m in range(1, 1 << len(idx)):
        out.append(tuple(x for j, x in enumerate(idx) if m >> j & 1))
    return out


def family(args, sub=()):
    """The accepted maps when the arguments with indices sub (a subset of heuristic_args()) are read as positional:
    [ASCII blanks/digits] or [ASCII, Unicode] if those differ.  sub=() is the plain reading (split at the first '=')."""
    ra = rule(args, "A", sub)
    ru = rule(args, "U", sub)
    return [ra] if ra == ru else [ra, ru]


def candidate_subsets(args):
    return [()] + _subsets(heuristic_args(args))


def admissible(args):
    """Precondition of the statement + domain of the quantifier.

    distinct effective names (under every accepted reading), non-blank values, plain text only (a lone [ ] < > is
    plain text, two of a family could pair up), no positional value that ENDS in a newline (the quantifier speaks
    of leading / inner newlines only)."""
    if not args:
        return False
    nb = na = 0
    for raw in args:
        cs = set(raw)
        if FORBIDDEN & cs:
            return False
        nb += sum(raw.count(c) for c in BRACKETS)
        na += sum(raw.count(c) for c in ANGLES)
        n, v = split_arg(raw)
        if not v.strip():
            return False
        if n is None:
            if v.endswith("\n"):
                return False
        elif n.strip() == "" and n.strip(ASCII_WS) != "":
            return False                 # 'name' made of non-ASCII blanks only: a name in one reading, none in the other
    if nb > 1 or na > 1:
        return False
    h = heuristic_args(args)
    for i in h:
        if args[i].endswith("\n"):      # as a positional it would end in a newline
            return False
    for sub in [()] + _subsets(h):
        for mode in ("A", "U"):
            ks = keys_of(args, mode, sub)
            if len(set(map(_typed, ks))) != len(ks):
                return False
            # '1' vs 1 would be distinct typed keys but are one name to a reader
            if len(set(map(str, ks))) != len(ks):
                return False
            # Lua numbers are doubles: numeric names that are the same double are not distinct names there
            nums = [k for k in ks if isinstance(k, int)]
            if len({float(k) for k in nums}) != len(nums):
                return False
    return True


def _typed(k):
    return (type(k).__name__, k)


def canon(d):
    """typed, order-free form of an argument map (1, 1.0, True, '1' all differ)."""
    out = []
    for k, v in d.items():
        out.append((type(k).__name__, str(k), v if isinstance(v, str) else ("<%s>" % type(v).__name__, repr(v)[:120])))
    return tuple(sorted(out, key=lambda t: (t[0], t[1], str(t[2]))))


def show(c):
    """compact literal of a canon() value (used in messages and, for canonical witnesses, in signatures)."""
    parts = []
    for t, k, v in c:
        ks = k if t in ("int", "float", "bool") else "'%s'" % k
        if t not in ("int", "str"):
            ks = t + ":" + ks
        parts.append("%s:%s" % (ks, "'%s'" % v if isinstance(v, str) else "<non-str>"))
    return "{" + ",".join(parts) + "}"


def diff_kind(view, ref):
    """What differs between two canon() maps: 'keys' | 'key-type' | 'value-ws-lost' | 'value-ws-kept' | 'value-ws' |
    'value-shape' | 'value-content' | None."""
    if view == ref:
        return None
    kv = {k for _t, k, _v in view}
    kr = {k for _t, k, _v in ref}
    if kv != kr or len(view) != len(ref):
        return "keys"
    tv = {(t, k) for t, k, _v in view}
    tr = {(t, k) for t, k, _v in ref}
    if tv != tr:
        return "key-type"
    dv = {(t, k): v for t, k, v in view}
    kinds = set()
    for t, k, v in ref:
        w = dv[(t, k)]
        if w == v:
            continue
        if not isinstance(w, str):
            kinds.add("value-shape")
        elif "".join(w.split()) == "".join(v.split()):
            # same text, only blanks / newlines differ (at the edges or inside)
            kinds.add("value-ws-lost" if len(w) < len(v) else "value-ws-kept")
        else:
            kinds.add("value-content")
    for k in ("value-shape", "value-content"):
        if k in kinds:
            return k
    if len(kinds) == 2:
        return "value-ws"
    return kinds.pop()


SEVERITY = ["value-ws-lost", "value-ws-kept", "value-ws", "value-content", "value-shape", "key-type", "keys"]


# ---------------------------------------------------------------- structure of one raw argument

_PADS = re.compile(r"(?s)^(\s*)(.*?)(\s*)$")


def pads(s):
    m = _PADS.match(s)
    return m.group(1), m.group(2), m.group(3)


def destructure(raw):
    """raw -> dict(kind='pos'|'named'|'num', fields...)."""
    n, v = split_arg(raw)
    vl, vc, vr = pads(v)
    if n is None:
        return {"kind": "pos", "vl": vl, "v": vc, "vr": vr}
    nl, nc, nr = pads(n)
    kind = "num" if _numeric(nc, "U") is not None else "named"
    return {"kind": kind, "nl": nl, "n": nc, "nr": nr, "vl": vl, "v": vc, "vr": vr}


def render(s):
    if s["kind"] == "pos":
        return s["vl"] + s["v"] + s["vr"]
    return s["nl"] + s["n"] + s["nr"] + "=" + s["vl"] + s["v"] + s["vr"]


def ws_classes(p):
    out = []
    for ch in p:
        c = {" ": "ws", "\n": "nl", "\t": "tab", "\r": "cr", "\f": "ff", "\v": "vt", "\xa0": "nbsp"}.get(ch, "uws")
        if c not in out:
            out.append(c)
    return out


WS_REP = {"ws": " ", "nl": "\n", "tab": "\t", "cr": "\r", "ff": "\f", "vt": "\v", "nbsp": "\xa0", "uws": "　"}


def text_classes(s, name):
    """character classes of a name / value core that could matter to one of the three implementations."""
    out = []

    def add(c):
        if c not in out:
            out.append(c)
    if "=" in s:
        add("eq")
    if "'" in s:
        add("apos")
    if '"' in s:
        add("dquote")
    if "&" in s:
        add("amp")
    for ch, c in (("[", "lbracket"), ("]", "rbracket"), ("<", "lt"), (">", "gt")):
        if ch in s:
            add(c)
    if re.search(r"\n[*#:;=]", s):
        add("nl-marker")
    if re.search(r"\n[ \t]+\n", s) or re.search(r"^[ \t]+\n", s) or re.search(r"\n[ \t]+$", s):
        add("blankline")
    if "\n\n" in s:
        add("nl-nl")
    if "\n" in s:
        add("nl")
    if "\t" in s or "\r" in s:
        add("tab")
    if re.search(r"[ \t\n\r]{2}", s) or re.search(r"\s\s", s):
        add("ws-run")
    if re.search(r"\s", s) and " " in s:
        add("sp")
    if re.search(r"[^\x00-\x7f]", s):
        if any(ch.isdigit() and not ch.isascii() for ch in s):
            add("udigit")
        if any(ch.isspace() and not ch.isascii() for ch in s):
            add("uspace")
        add("nonascii")
    if name:
        if s.isdigit():
            add("digits")
        elif re.match(r"^[-+]?\d", s):
            add("digit-lead")
    if re.search(r"[^\w\s=\"'&\[\]<>]", s):
        add("punct")
    return out


def features(args):
    """observation tags of one list (evidence counters, non-triviality)."""
    f = set()
    kinds = set()
    for raw in args:
        s = destructure(raw)
        kinds.add(s["kind"])
        f.add("kind." + s["kind"])
        for fld in ("nl", "nr", "vl", "vr"):
            if s.get(fld):
                for c in ws_classes(s[fld]):
                    f.add("%s.%s.%s" % (s["kind"], fld, c))
        for c in text_classes(s["v"], False):
            f.add("%s.v.%s" % (s["kind"], c))
        if s["kind"] != "pos":
            for c in text_classes(s["n"], True):
                f.add("%s.n.%s" % (s["kind"], c))
        if s["kind"] == "named" and s["n"] == "":
            f.add("named.n.empty")
        if s["kind"] == "num":
            if s["n"].startswith("0"):
                f.add("num.lead0")
            try:
                if int(s["n"]) > 1000:
                    f.add("num.gt1000")
                if int(s["n"]) > 2 ** 53:
                    f.add("num.gt2p53")
            except ValueError:
                pass
    if len(kinds) >= 2:
        f.add("mixed-kinds")
    if kinds == {"pos", "named", "num"}:
        f.add("all-three-kinds")
    # a positional that follows a numeric name (numbering interplay)
    seen_num = False
    for raw in args:
        k = destructure(raw)["kind"]
        if k == "num":
            seen_num = True
        elif k == "pos" and seen_num:
            f.add("pos-after-num")
    return f
