"""C15 reference model, written from the property statement (nothing imported from the package).

* Q / unQ: the documented nowiki quoting map (15 characters -> entities) and its inverse.
* scan / strip_comments: left-to-right reading of "closed HTML comments outside nowiki": at each
  position the construct that STARTS first wins (a comment that starts before a <nowiki> opener is
  outside nowiki; a "<!--" inside a closed nowiki span is nowiki content).  A closed comment is deleted
  together with the line break directly before it.
* junction_safe: the deletion relation is only well defined when gluing the kept parts together does
  not create (or destroy) a comment / nowiki delimiter; such inputs are outside the relation.
* ddmin / shape: witness minimisation and the character-class shape used in mechanism signatures.
"""
from __future__ import annotations

import re

# the documented list (statement anchor "nowiki_quote entity map"): 15 characters
MAP = {
    "=": "&equals;", "<": "&lt;", ">": "&gt;", "*": "&ast;", "#": "&num;", ":": "&colon;", "!": "&excl;",
    "|": "&vert;", "[": "&lsqb;", "]": "&rsqb;", "{": "&lbrace;", "}": "&rbrace;", '"': "&quot;",
    "'": "&apos;", "_": "&#95;",
}
assert len(MAP) == 15
_UNMAP = {v: k for k, v in MAP.items()}
_UNQ_RE = re.compile("|".join(re.escape(v) for v in sorted(_UNMAP, key=len, reverse=True)))
ENTITY_RE = re.compile(r"&#?\w+;")
# "the closing tag" of the statement: the letters n-o-w-i-k-i in either ASCII case, optional ASCII blanks, ">".
# re.ASCII on purpose: under Python's Unicode case folding "(?i)nowiki" also matches U+212A KELVIN SIGN,
# U+0131 DOTLESS I, U+0130 and "\s" matches U+00A0 / U+2003 ...; those spellings are NOT the tag.
CLOSE_RE = re.compile(r"(?ai)</nowiki\s*>")
OPEN_RE = re.compile(r"(?ai)<nowiki\s*>")
DELIM_RE = re.compile(r"(?ai)<nowiki\s*/?>|</nowiki\s*>|<!--|-->")
# near-miss spellings: matched by the Unicode-insensitive pattern but not the tag (see above)
NEAR_CLOSE_RE = re.compile(r"(?i)</nowiki\s*>")
NEAR_CLOSERS = ["</now\u0131k\u0131>", "</nowi\u212ai>", "</NOW\u0130KI>", "</nowiki\u00a0>", "</nowiki\u2003>", "</nowiki\u0085>",
                "</now\u0131ki >", "</nowiKi\u3000>".replace("K", "\u212a")]
PLACEHOLDER_RE = re.compile("[\U0010203D-\U0010FFF0]")


def Q(c: str) -> str:
    return "".join(MAP.get(ch, ch) for ch in c)


def unQ(s: str) -> str:
    """Decode exactly the 15 documented entities (nothing else)."""
    return _UNQ_RE.sub(lambda m: _UNMAP[m.group(0)], s)


def scan(text: str):
    """Left-to-right scan -> (nowiki_spans, comment_spans); comment spans include the '\n' directly before."""
    nowikis, comments = [], []
    i, n = 0, len(text)
    while i < n:
        if text[i] == "<":
            m = OPEN_RE.match(text, i)
            if m is not None:
                cl = CLOSE_RE.search(text, m.end())
                if cl is not None:
                    nowikis.append((i, cl.end()))
                    i = cl.end()
                    continue
            if text.startswith("<!--", i):
                j = text.find("-->", i + 4)
                if j >= 0:
                    st = i - 1 if (i > 0 and text[i - 1] == "\n" and not (comments and comments[-1][1] > i - 1)
                                   and not (nowikis and nowikis[-1][1] > i - 1)) else i
                    comments.append((st, j + 3))
                    i = j + 3
                    continue
        i += 1
    return nowikis, comments


def strip_comments(text: str):
    """-> (text with every closed comment outside nowiki (+ the newline directly before) deleted, n_comments, safe)"""
    _, comments = scan(text)
    if not comments:
        return text, 0, True
    kept = []
    pos = 0
    for a, b in comments:
        kept.append(text[pos:a])
        pos = b
    kept.append(text[pos:])
    out = "".join(kept)
    # junction precondition: the delimiter sequence of the result is that of the kept parts
    dk = []
    for k in kept:
        dk += [d.lower() for d in DELIM_RE.findall(k)]
    safe = dk == [d.lower() for d in DELIM_RE.findall(out)]
    if safe:
        # and the deletion is complete (no closed comment is left / formed)
        safe = not scan(out)[1]
    return out, len(comments), safe


def comment_features(text: str):
    """Feature tags of the comments of an input (for observation counters)."""
    nw, cm = scan(text)
    f = set()
    for a, b in cm:
        body = text[a:b]
        if body.startswith("\n"):
            f.add("nl-before")
            if a == 0 or text[a - 1] == "\n":
                f.add("own-line")
        elif a == 0:
            f.add("at-start")
        if "\n" in body[1:]:
            f.add("multiline")
        if OPEN_RE.search(body):
            f.add("nowiki-open-inside")
        if CLOSE_RE.search(body):
            f.add("nowiki-close-inside")
        if b == len(text):
            f.add("at-end")
        elif text[b] == "\n":
            f.add("nl-after")
        if text.startswith("<!--", b) or text.startswith("\n<!--", b):
            f.add("adjacent")
        if body.lstrip("\n") == "<!---->":
            f.add("empty")
        if "{{" in body or "[[" in body:
            f.add("markup-inside")
    if nw:
        f.add("nowiki-span-present")
        for a, b in nw:
            if "<!--" in text[a:b]:
                f.add("comment-open-inside-nowiki")
    return f


def ddmin(seq, failing, max_evals=1500):
    """Delta-debugging to a 1-minimal failing subsequence of seq (list); failing(list)->bool."""
    evals = [0]

    def test(s):
        evals[0] += 1
        return failing(s)

    n = 2
    seq = list(seq)
    while len(seq) >= 2 and evals[0] < max_evals:
        chunk = max(1, len(seq) // n)
        reduced = False
        i = 0
        while i < len(seq) and evals[0] < max_evals:
            cand = seq[:i] + seq[i + chunk:]
            if cand and test(cand):
                seq = cand
                n = max(n - 1, 2)
                reduced = True
            else:
                i += chunk
        if not reduced:
            if chunk == 1:
                break
            n = min(len(seq), n * 2)
    if len(seq) == 1 and evals[0] < max_evals:
        pass
    return seq


_SHAPE_TOK = re.compile(r"(?a:(?i:(<nowiki\s*/>)|(<nowiki\s*>)|(</nowiki\s*>)))|(<!--)|(-->)|(\n)|([\U0010203D-\U0010FFF0])|"
                        r"((?i:</nowiki\s*>))|((?i:<nowiki\s*/?>))|"
                        r"([={}\[\]|*#:;!<>'\"_&/-])|([ \t\r]+)|(.)", re.S)
_NAMES = ["ns", "no", "nc", "co", "cc", "nl", "PH", "nc-nonascii-spelling", "no-nonascii-spelling"]


def shape(s: str, limit=14) -> str:
    """Character-class shape of a (minimised) witness: delimiters by name, markup characters as themselves,
    whitespace -> sp, anything else -> x (runs collapsed).  Stable across seeds by construction."""
    out = []
    for m in _SHAPE_TOK.finditer(s):
        g = m.lastindex
        if g <= 9:
            t = _NAMES[g - 1]
        elif g == 10:
            t = m.group(10)
        elif g == 11:
            t = "sp"
        else:
            t = "x"
        if t in ("x", "sp") and out and out[-1] == t:
            continue
        out.append(t)
    if len(out) > limit:
        out = out[:limit] + ["..."]
    return ",".join(out) if out else "empty"
