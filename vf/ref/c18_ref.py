"""C18 reference definitions, written from the MediaWiki manual (Help:Magic words,
Help:Extension:ParserFunctions ##String functions) -- never from the code under test.

Every function takes the arguments as they appear in the wikitext (strings; a missing
optional argument is None) and returns the documented value, or OUT when the argument
combination is outside the documented domain on which this reference is asserted
(see DESIGN.md C18 / section 2: a reference is only asserted where the manual and the
examples pinned in tests/ coincide).
"""
from __future__ import annotations

OUT = object()   # "not asserted here"

WS = " \t\n\r"


def trim(s):
    return s.strip(WS)


def _int(s, default=0):
    """PHP (int) cast of a trimmed plain decimal argument; None/'' -> default."""
    if s is None:
        return default
    s = trim(s)
    if s == "":
        return default
    neg = s.startswith("-")
    body = s[1:] if neg else s
    if not body or any(c not in "0123456789" for c in body):
        return OUT
    v = 0
    for c in body:
        v = v * 10 + (ord(c) - 48)
    return -v if neg else v


def _plain_arg(s):
    """Later arguments are asserted only without leading/trailing blanks (MediaWiki trims
    them, the package keeps them: not part of the documented behaviour either way)."""
    return s is None or s == trim(s)


def _needle(s):
    """Search term / delimiter. Help:Extension:ParserFunctions, "Stripping whitespace": blanks are stripped from the
    beginning and end of ALL parameters of these functions; an empty search term means one blank."""
    if s is None:
        return " "
    s = trim(s)
    return s if s else " "


# ---------------------------------------------------------------- string functions
def f_len(s):
    return str(len(trim(s)))


def _find(hay, needle, start):
    n, m = len(hay), len(needle)
    i = start
    while i + m <= n:
        if hay[i:i + m] == needle:
            return i
        i += 1
    return -1


def f_pos(s, needle=None, offset=None):
    needle = _needle(needle)
    if needle is OUT:
        return OUT
    s = trim(s)
    off = _int(offset)
    if off is OUT or off < 0:
        return OUT
    i = _find(s, needle, off)
    return "" if i < 0 else str(i)


def f_rpos(s, needle=None):
    needle = _needle(needle)
    if needle is OUT:
        return OUT
    s = trim(s)
    last = -1
    i = _find(s, needle, 0)
    while i >= 0:
        last = i
        i = _find(s, needle, i + 1)
    return str(last)


def f_sub(s, start=None, length=None):
    s = trim(s)
    st, ln = _int(start), _int(length)
    if st is OUT or ln is OUT:
        return OUT
    chars = list(s)
    n = len(chars)
    if st < 0:
        st = n + st
        if st < 0:
            st = 0
    if st >= n:
        return ""
    if ln == 0:
        return "".join(chars[st:])
    if ln > 0:
        out = []
        k = st
        while k < n and len(out) < ln:
            out.append(chars[k])
            k += 1
        return "".join(out)
    end = n + ln          # that many characters omitted from the end
    if end <= st:
        return ""
    return "".join(chars[st:end])


def f_replace(s, needle=None, repl=None):
    needle = _needle(needle)
    s = trim(s)
    repl = trim(repl or "")
    out = []
    i = 0
    m = len(needle)
    while i < len(s):
        if s[i:i + m] == needle:
            out.append(repl)
            i += m
        else:
            out.append(s[i])
            i += 1
    return "".join(out)


def _split(s, delim):
    parts = []
    cur = []
    i = 0
    m = len(delim)
    while i < len(s):
        if s[i:i + m] == delim:
            parts.append("".join(cur))
            cur = []
            i += m
        else:
            cur.append(s[i])
            i += 1
    parts.append("".join(cur))
    return parts


def f_explode(s, delim=None, pos=None, limit=None):
    delim = _needle(delim)
    s = trim(s)
    p = _int(pos)
    lim = _int(limit, None)
    if p is OUT or lim is OUT:
        return OUT
    if lim is not None and lim < 0:
        return OUT                      # the manual only defines a maximum number of pieces
    parts = _split(s, delim)
    if lim is not None and lim > 0 and len(parts) > lim:
        head = parts[:lim - 1]
        rest = parts[lim - 1:]
        parts = head + [delim.join(rest)]
    if p < 0:
        p = len(parts) + p
        if p < 0:
            return ""
    if p >= len(parts):
        return ""
    return parts[p]


def _pad(s, cnt, pad, left):
    if pad is not None:
        pad = trim(pad)                 # every parameter is stripped
    n = _int(cnt)
    if n is OUT:
        return OUT
    s = trim(s)
    if pad is None:
        pad = "0"
    if pad == "":
        return s
    if n > 500:
        return OUT
    need = n - len(s)
    if need <= 0:
        return s
    fill = []
    while len(fill) < need:
        for c in pad:
            if len(fill) < need:
                fill.append(c)
    fill = "".join(fill)
    return fill + s if left else s + fill


def f_padleft(s, cnt=None, pad=None):
    return _pad(s, cnt, pad, True)


def f_padright(s, cnt=None, pad=None):
    return _pad(s, cnt, pad, False)


TP_NAMESPACES = ("Help:", "Talk:")


def f_titleparts(title, num=None, first=None):
    """Help:Extension:ParserFunctions ##titleparts: the page name is normalised as a title (first letter upper case),
    split at "/" only (a namespace prefix belongs to the first segment), `first` counts segments from 1 (0 = 1),
    negative values count from the end. Asserted for [Help:|Talk:] + letters, digits and "/"."""
    t = trim(title)
    k, f = _int(num), _int(first)
    if k is OUT or f is OUT:
        return OUT
    if t == "":
        return ""
    ns = ""
    for p in TP_NAMESPACES:
        if t.startswith(p):
            ns, t = p, t[len(p):]
    if t == "" or any(not (c.isalnum() or c == "/") for c in t):
        return OUT
    t = ns + t[:1].upper() + t[1:]
    bits = _split(t, "/")
    n = len(bits)
    start = f - 1 if f > 0 else f
    if start > n:
        start = n
    if start < 0:
        start = n + start
        if start < 0:
            start = 0
    if k == 0:
        end = n
    elif k > 0:
        end = start + k
    else:
        end = n + k           # "strips segments from the end of the string"
    if end > n:
        end = n
    if end <= start:
        return ""
    return "/".join(bits[start:end])


def f_lc(s):
    return trim(s).lower()


def f_uc(s):
    return trim(s).upper()


def f_lcfirst(s):
    s = trim(s)
    return s[:1].lower() + s[1:]


def f_ucfirst(s):
    s = trim(s)
    return s[:1].upper() + s[1:]


# QUERY = PHP urlencode (everything but alphanumerics and -_. is encoded, "~" too), PATH = rawurlencode (RFC 3986:
# "~" stays), WIKI = wfUrlencode
_UNRESERVED = set("ABCDEFGHIJKLMNOPQRSTUVWXYZabcdefghijklmnopqrstuvwxyz0123456789-_.")


def _pct(s, keep, space):
    out = []
    for ch in s:
        if ch == " ":
            out.append(space)
        elif ch in _UNRESERVED or ch in keep:
            out.append(ch)
        else:
            out.append("".join("%%%02X" % b for b in ch.encode("utf-8")))
    return "".join(out)


def f_urlencode(s, mode=None):
    s = trim(s)
    if mode is not None:
        mode = trim(mode)
        if mode == "":
            return OUT
    if mode is None or mode == "QUERY":
        return _pct(s, "", "+")
    if mode == "PATH":
        return _pct(s, "~", "%20")
    if mode == "WIKI":
        if "  " in s:
            return OUT
        return _pct(s, ";@$!*(),/~:", "_")      # wfUrlencode: "included as literal characters for prettiness"
    return OUT


def f_urldecode(s):
    s = trim(s)
    out = bytearray()
    i = 0
    hexd = "0123456789abcdefABCDEF"
    while i < len(s):
        c = s[i]
        if c == "+":
            out += b" "
            i += 1
        elif c == "%" and i + 2 < len(s) and s[i + 1] in hexd and s[i + 2] in hexd:
            out.append(int(s[i + 1:i + 3], 16))
            i += 3
        else:
            out += c.encode("utf-8")
            i += 1
    try:
        return out.decode("utf-8")
    except UnicodeDecodeError:
        return OUT


STRING_FNS = {
    "#len": f_len, "#pos": f_pos, "#rpos": f_rpos, "#sub": f_sub, "#replace": f_replace,
    "#explode": f_explode, "padleft": f_padleft, "padright": f_padright, "#titleparts": f_titleparts,
    "lc": f_lc, "uc": f_uc, "lcfirst": f_lcfirst, "ucfirst": f_ucfirst,
    "urlencode": f_urlencode, "#urldecode": f_urldecode,
}


def string_fn(fn, args):
    """args: list of str (trailing optional arguments simply absent)."""
    a = list(args)
    return STRING_FNS[fn](*a)


# ---------------------------------------------------------------- plural
def f_plural(n, one, other):
    """English (the default language of a context): 1 selects the first form."""
    v = _int(n)
    if v is OUT or v < 0:
        return OUT
    return trim(one) if v == 1 else trim(other)


# ---------------------------------------------------------------- formatnum
def is_plain_numeral(s):
    if s.count(".") > 1 or s == "":
        return False
    ip, _, fp = s.partition(".")
    if not ip or any(c not in "0123456789" for c in ip):
        return False
    if "." in s and (not fp or any(c not in "0123456789" for c in fp)):
        return False
    return True


def group_int(digits, method, sep):
    """Group `digits` from the right; method e.g. [3,0] (threes), [3,2,0] (three then twos),
    [] (no grouping). A trailing 0 repeats the previous size."""
    if not method:
        return digits
    sizes = [m for m in method]
    groups = []
    rest = digits
    idx = 0
    size = sizes[0]
    while rest:
        if size <= 0:
            break
        groups.append(rest[-size:])
        rest = rest[:-size]
        if idx + 1 < len(sizes):
            idx += 1
            if sizes[idx] > 0:
                size = sizes[idx]
    if rest:
        groups.append(rest)
    groups.reverse()
    return sep.join(groups)


def f_formatnum(n, loc):
    """loc: dict with decimal_point, grouping_separator, grouping_method."""
    n = trim(n)
    if not is_plain_numeral(n):
        return OUT
    ip, dot, fp = n.partition(".")
    out = group_int(ip, list(loc["grouping_method"]), loc["grouping_separator"])
    if dot:
        out += loc["decimal_point"] + fp
    return out


def f_formatnum_nosep(n):
    n = trim(n)
    if not is_plain_numeral(n):
        return OUT
    return n


# ---------------------------------------------------------------- #expr operators with a documented value rule
# Help:Extension:ParserFunctions ##expr, operator table and "Rounding" (independent of the code under test).
# They return a number, the string "Division by zero" (the expression has no value), or raise ValueError where
# the documentation does not settle the result (the monitor skips such an expression).
def expr_mod(x, y):
    """'mod: remainder of division after truncating both operands to an integer'; PHP %: sign of the dividend.
    Documented: 30 mod 7 = 2, -8 mod -3 = -2, -8 mod 3 = -2, 8 mod -3 = 2, 8 mod 2.7 = 0, 8 mod 3.2 = 2, 8.9 mod 3 = 2."""
    if abs(x) >= 2 ** 62 or abs(y) >= 2 ** 62:
        raise ValueError("beyond the integer range")
    a, b = int(x), int(y)               # int() truncates toward zero
    if b == 0:
        return "Division by zero"
    r = abs(a) % abs(b)
    return -r if a < 0 else r


def expr_fmod(x, y):
    """'fmod: floating-point modulo', same rung as * / div mod: the remainder x - n*y with n = trunc(x/y)
    (sign of the dividend): 5 fmod 2 = 1, 7.5 fmod 2 = 1.5, -8 fmod 3 = -2."""
    import math
    if y == 0:
        return "Division by zero"
    if isinstance(x, float) and (x != x or x in (float("inf"), float("-inf"))):
        raise ValueError("non-finite")
    return math.fmod(x, y)


def expr_round(x, y):
    """'round: rounds the number on the left to a multiple of 1/10 raised to the truncated value of the number on the
    right'; halves go away from zero (documented: 1/2 round 0 = 1, -1/2 round 0 = -1, 1234.5678 round -2 = 1200,
    1234.5678 round 2.3 = 1234.57). Only exact halves and values clearly off a half are decided here: PHP pre-rounds
    the scaled value, so a value within 1e-9 (relative) of a half, but not exactly on it, is left open (ValueError).
    An integer stays an integer, a decimal stays a decimal (the printed value is the same)."""
    from decimal import Decimal, ROUND_HALF_UP, ROUND_FLOOR, localcontext
    if isinstance(y, float) and (y != y or abs(y) > 30):
        raise ValueError("digit count out of range")
    digits = int(y)
    if abs(digits) > 30:
        raise ValueError("digit count out of range")
    if isinstance(x, float) and (x != x or x in (float("inf"), float("-inf"))):
        raise ValueError("non-finite")
    if abs(x) >= 2 ** 53:
        raise ValueError("beyond exact range")
    if isinstance(x, int) and digits >= 0:
        return x
    with localcontext() as c:
        c.prec = 400
        scaled = Decimal(x).scaleb(digits)             # exact: x * 10**digits
        fl = scaled.to_integral_value(rounding=ROUND_FLOOR)
        frac = scaled - fl                             # in [0, 1)
        half = Decimal("0.5")
        if frac != half and abs(frac - half) <= Decimal("1e-9") * max(Decimal(1), abs(scaled)):
            raise ValueError("too close to a half: not settled by the documentation")
        q = abs(scaled).to_integral_value(rounding=ROUND_HALF_UP)      # half away from zero
        if scaled < 0:
            q = -q
        res = q.scaleb(-digits)
    if isinstance(x, int):
        return int(res)
    return float(res)
