"""Reference model for C12: which pages a dump ingestion must leave in the store.

Derived from the property statement (and DESIGN.md C12), not from dumpparser.py:

  a page of the dump is stored iff
    - its namespace id is one of the selected ids, and
    - its title does not end in "/documentation" and does not contain "/testcases", and
    - its content model is wikitext, Scribunto or json (redirect pages included: no exception in the statement);
  it is stored under its own title and namespace id, with its model, its redirect target,
  and its exact text -- for wikitext pages of the Template namespace the includable part of the text;
  when a (title, namespace) occurs more than once the last stored occurrence wins;
  the four helper templates  !  =  ((  ))  exist afterwards (added when the dump did not
  provide them).

A page is a dict {"uid", "title", "ns", "model", "text", "redirect"} (redirect None or target); "phase": 0 marks a
page of an EARLIER dump that the same context ingested into the same database before the dump under test.
"""
from __future__ import annotations

from vf.ref.c12_includable import includable

KEPT_MODELS = ("wikitext", "Scribunto", "json")
# name -> accepted bodies (what {{!}} {{=}} {{((}} {{))}} stand for; literal or as character entities)
DEFAULTS = {
    "!": ("|", "&vert;", "&#124;"),
    "=": ("=", "&equals;", "&#61;"),
    "((": ("{{", "&lbrace;&lbrace;", "&#123;&#123;", "&lcub;&lcub;"),
    "))": ("}}", "&rbrace;&rbrace;", "&#125;&#125;", "&rcub;&rcub;"),
}
TEMPLATE_NS = 10


def exclusion_reason(page, selected):
    if page["ns"] not in selected:
        return "ns-not-selected"
    t = page["title"]
    if t.endswith("/documentation"):
        return "documentation"
    if "/testcases" in t:
        return "testcases"
    # "excluding ... non-wikitext/Scribunto/json content models": the statement makes no exception for redirect pages
    # (a css/javascript redirect, e.g. MediaWiki:Gadget-old.css -> MediaWiki:Gadget-a.css, IS a page with an excluded model)
    if page["model"] not in KEPT_MODELS:
        return "model"
    return None


def expected_table(pages, selected, template_prefix, base=None, defaults=True):
    """-> (table, reasons): table[(title, ns)] = {"body", "body_alt", "model", "redirect", "uid", "default"}

    base: the table the store already holds (an earlier ingestion into the same database): its rows stay unless a
    page of this dump has the same (title, ns) -- last wins.  defaults=False: helper templates are not added
    (parse_dump_xml() alone).  Reading pages never changes the table."""
    selected = set(selected)
    table = dict(base) if base else {}
    reasons = {}
    for p in pages:
        r = exclusion_reason(p, selected)
        reasons[p["uid"]] = r
        if r is not None:
            continue
        if p.get("redirect") is not None:
            # the text of a redirect page is "#REDIRECT [[target]]"; the store keeps the target in
            # redirect_to -- the statement does not say whether the text is kept too: both accepted
            body, alt = None, p["text"]
        elif p["ns"] == TEMPLATE_NS and p["model"] == "wikitext":
            # "templates reduced to their includable part": a wikitext notion (comments, <noinclude>, <onlyinclude>,
            # <includeonly>); a json / Scribunto page that lives in the Template namespace is data or code, not a
            # template text, and keeps its exact text like every other page ("No page is ... altered")
            body = alt = includable(p["text"])
        else:
            body = alt = p["text"]
        table[(p["title"], p["ns"])] = {"body": body, "body_alt": alt, "model": p["model"],
                                        "redirect": p.get("redirect"), "uid": p["uid"], "default": None}
    for name in DEFAULTS if defaults else ():
        key = (template_prefix + ":" + name, TEMPLATE_NS)
        if key not in table:
            table[key] = {"body": DEFAULTS[name][0], "body_alt": None, "model": "wikitext", "redirect": None,
                          "uid": None, "default": name}
    return table, reasons


def _body_ok(exp, got_body):
    if exp["default"] is not None:
        return got_body in DEFAULTS[exp["default"]]
    return got_body == exp["body"] or got_body == exp["body_alt"]


def _same_content(exp, got):
    return _body_ok(exp, got["body"]) and exp["model"] == got["model"] and exp["redirect"] == got["redirect"]


def first_diff(a, b):
    if a is None or b is None:
        return 0
    n = min(len(a), len(b))
    for i in range(n):
        if a[i] != b[i]:
            return i
    return n


def diff(pages, table, reasons, stored):
    """Compare expected table with stored {(title, ns): {"body","model","redirect"}}.

    -> list of {"rule", "key", "uids" (pages of the dump involved), "detail"}; rules:
    stored-under-other-title(<relation>), merged-into-other-title, lost, excluded-page-stored(<reason>),
    unexpected-page, altered:body|model|redirect, default-template-missing, default-template-altered,
    default-template-replaced-dump-page
    """
    out = []
    lost = [k for k in table if k not in stored]
    extra = [k for k in stored if k not in table]
    altered = []
    for k, e in table.items():
        if k in stored and not _same_content(e, stored[k]):
            altered.append(k)
    by_key_last = {}
    for p in pages:
        by_key_last[(p["title"], p["ns"])] = p

    used_extra, used_alt = set(), set()
    for m in lost:
        e = table[m]
        if e["default"] is not None:
            out.append({"rule": "default-template-missing", "key": m, "uids": [], "detail": "default %r absent" % (m,)})
            continue
        # stored under another title?
        cand = [x for x in extra if x not in used_extra and x[1] == m[1] and _same_content(e, stored[x])]
        if not cand:
            cand = [x for x in extra if x not in used_extra and _same_content(e, stored[x])]
        if cand:
            # prefer the one whose title is most closely related
            cand.sort(key=lambda x: (not (m[0].endswith(x[0]) or x[0].endswith(m[0])), abs(len(x[0]) - len(m[0])), x[0]))
            x = cand[0]
            used_extra.add(x)
            if m[0].endswith(x[0]):
                rel = "prefix-dropped"
            elif x[0].endswith(m[0]):
                rel = "prefix-added"
            elif m[0].startswith(x[0]):
                rel = "suffix-dropped"
            elif x[0].startswith(m[0]):
                rel = "suffix-added"
            elif m[0] == x[0]:
                rel = "other-namespace"
            else:
                rel = "other"
            affix = m[0][:len(m[0]) - len(x[0])] if rel == "prefix-dropped" else x[0][:len(x[0]) - len(m[0])] if rel == "prefix-added" else ""
            out.append({"rule": "stored-under-other-title(%s)" % rel, "key": m, "uids": [e["uid"]], "hint": affix,
                        "detail": "page %r is stored as %r" % (m, x)})
            continue
        cand = [k for k in altered if k not in used_alt and _same_content(e, stored[k])]
        if cand:
            cand.sort(key=lambda x: (not (m[0].endswith(x[0]) or x[0].endswith(m[0])), x[0]))
            k = cand[0]
            used_alt.add(k)
            out.append({"rule": "merged-into-other-title", "key": m, "uids": [e["uid"], table[k]["uid"]],
                        "detail": "page %r is missing and its content is stored under %r" % (m, k)})
            continue
        # stored under a related title AND with other content (two things wrong at once)
        cand = [x for x in extra if x not in used_extra and x not in by_key_last and x[1] == m[1] and x[0] != "" and
                (m[0].endswith(x[0]) or x[0].endswith(m[0]))]
        if cand:
            cand.sort(key=lambda x: (abs(len(x[0]) - len(m[0])), x[0]))
            x = cand[0]
            used_extra.add(x)
            rel = "prefix-dropped" if m[0].endswith(x[0]) else "prefix-added"
            out.append({"rule": "stored-under-other-title(%s)+altered" % rel, "key": m, "uids": [e["uid"]],
                        "detail": "page %r is stored as %r and with other content: %r" % (m, x, _short(stored[x]))})
            continue
        out.append({"rule": "lost", "key": m, "uids": [e["uid"]], "detail": "page %r is not in the store" % (m,)})
    for x in extra:
        if x in used_extra:
            continue
        p = by_key_last.get(x)
        if p is not None:
            out.append({"rule": "excluded-page-stored(%s)" % reasons.get(p["uid"]), "key": x, "uids": [p["uid"]],
                        "detail": "page %r must not be stored (%s) but is" % (x, reasons.get(p["uid"]))})
        else:
            out.append({"rule": "unexpected-page", "key": x, "uids": [],
                        "detail": "stored page %r corresponds to no page of the dump: %r" % (x, _short(stored[x]))})
    for k in altered:
        if k in used_alt:
            continue
        e, g = table[k], stored[k]
        if e["default"] is not None:
            p = by_key_last.get(k)
            if p is not None and reasons.get(p["uid"]) is not None:
                # a page of the dump with the helper's title must not be stored (excluded), yet the row under that
                # title is not the default helper: the excluded page was stored and took the helper's place
                out.append({"rule": "excluded-page-stored(%s)" % reasons.get(p["uid"]), "key": k, "uids": [p["uid"]],
                            "detail": "page %r must not be stored (%s) but is (in place of the default helper template): %r" % (
                                k, reasons.get(p["uid"]), _short(g))})
                continue
            out.append({"rule": "default-template-altered", "key": k, "uids": [],
                        "detail": "default %r stored as %r" % (k, _short(g))})
            continue
        fields = []
        if not _body_ok(e, g["body"]):
            fields.append("body")
        if e["model"] != g["model"]:
            fields.append("model")
        if e["redirect"] != g["redirect"]:
            fields.append("redirect")
        if e["redirect"] is None and k[1] == TEMPLATE_NS and g["redirect"] is None and g["model"] == "wikitext" and \
                DEFAULTS.get(k[0].split(":", 1)[-1]) and g["body"] in DEFAULTS[k[0].split(":", 1)[-1]] and "body" in fields:
            rule = "default-template-replaced-dump-page"
        else:
            rule = "altered:" + "+".join(fields)
        if "body" in fields and e["body"] is not None and g["body"] is not None:
            i = first_diff(e["body"], g["body"])
            det = "page %r body differs at %d: expected %r... stored %r... (len %d vs %d)" % (
                k, i, e["body"][max(0, i - 10):i + 20], g["body"][max(0, i - 10):i + 20], len(e["body"]), len(g["body"]))
        else:
            det = "page %r: expected %r stored %r" % (k, _short({"body": e["body"], "model": e["model"], "redirect": e["redirect"]}), _short(g))
        # pages whose expected key equals this key (duplicates) are all involved
        uids = [e["uid"]] + [p["uid"] for p in pages if (p["title"], p["ns"]) == k and p["uid"] != e["uid"]]
        hint = ""
        if "body" in fields:
            eb, gb = e["body"], g["body"]
            if eb is None or gb is None:
                hint = "none"
            elif gb == eb.strip():
                hint = "stripped"
            elif len(gb) != len(eb):
                hint = "shorter" if len(gb) < len(eb) else "longer"
            else:
                hint = "same-length"
        out.append({"rule": rule, "key": k, "uids": uids, "detail": det, "hint": hint})
    return out


def _short(rec):
    r = dict(rec)
    b = r.get("body")
    if isinstance(b, str) and len(b) > 60:
        r["body"] = b[:60] + "...(%d)" % len(b)
    return r
