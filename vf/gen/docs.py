"""Block/inline document grammar (C19, C01-G2).  gen_doc -> AST, render(AST) -> wikitext,
features(AST) -> set of feature tags used for mechanism signatures."""
from __future__ import annotations

import random

W = ["foo", "bar", "baz qux", "x1", "é語", "Zed"]
TNAMES = ["t", "u", "tmpl name"]
ATTRV = ["c1", "i-2", "a.b", "x_y~z", "A9"]


def inline(rng, d, feats, brackets=True):
    r = rng.random()
    if d <= 0 or r < 0.38:
        return rng.choice(W)
    if r < 0.47:
        feats.add("bold")
        return "'''" + inline(rng, d - 1, feats, brackets) + "'''"
    if r < 0.56:
        feats.add("italic")
        return "''" + inline(rng, d - 1, feats, brackets) + "''"
    if r < 0.66:
        feats.add("link")
        tr = rng.choice(["", "s", " "])
        if tr == "s":
            feats.add("linktrail")
        return "[[" + rng.choice(W) + ("|" + inline(rng, 0, feats) if rng.random() < 0.5 else "") + "]]" + tr
    if r < 0.72:
        feats.add("extlink")
        return "[http://x.org/a " + rng.choice(W) + "]"
    if r < 0.75:
        feats.add("bareurl")
        return "https://x.org/p_q"
    if r < 0.85:
        feats.add("template")
        args = []
        for _ in range(rng.randint(0, 3)):
            if rng.random() < 0.5:
                args.append("|" + inline(rng, d - 1, feats, brackets))
            else:
                feats.add("named-arg")
                args.append("|" + rng.choice(["k", "n 1", "2"]) + "=" + inline(rng, d - 1, feats, brackets))
        return "{{" + rng.choice(TNAMES) + "".join(args) + "}}"
    if r < 0.90:
        feats.add("parserfn")
        return rng.choice(["{{#if:" + inline(rng, 0, feats) + "|" + inline(rng, d - 1, feats, brackets) + "}}",
                           "{{PAGENAME}}", "{{lc:" + rng.choice(W) + "}}"])
    if r < 0.93:
        feats.add("tmplarg")
        return "{{{" + rng.choice(["1", "x"]) + rng.choice(["", "|d"]) + "}}}"
    if r < 0.97:
        feats.add("html-inline")
        tag = rng.choice(["span", "b", "sup", "code", "small"])
        attrs = ""
        if rng.random() < 0.6:
            feats.add("html-attrs")
            attrs = "".join(' %s="%s"' % (k, rng.choice(ATTRV)) for k in rng.sample(["class", "id", "lang"], rng.randint(1, 2)))
        return "<%s%s>%s</%s>" % (tag, attrs, inline(rng, d - 1, feats, brackets), tag)
    if brackets:
        feats.add("literal-brackets")
        return rng.choice(["a [[ b", "c ]] d", "[x]", "q ] r [ s", "[[", "]]"])
    feats.add("br")
    return "<br>"


def line(rng, d, feats, brackets=True):
    return " ".join(inline(rng, d, feats, brackets) for _ in range(rng.randint(1, 3)))


def block(rng, d, feats):
    r = rng.random()
    if r < 0.28:
        feats.add("para")
        return line(rng, d, feats) + "\n"
    if r < 0.46:
        feats.add("list")
        out = []
        m = rng.choice(["*", "#"])
        for _ in range(rng.randint(1, 4)):
            mm = m + "".join(rng.choice("*#") for _ in range(rng.randint(0, 2)))
            if len(mm) > 1:
                feats.add("nested-list")
            out.append(mm + " " + line(rng, d - 1, feats))
        return "\n".join(out) + "\n"
    if r < 0.66:
        feats.add("table")
        rows = []
        sp = rng.choice(["", " "])
        if sp:
            feats.add("cell-leading-blank")
        for _ in range(rng.randint(1, 3)):
            cells = []
            for _ in range(rng.randint(1, 3)):
                k = rng.choice(["|", "!"])
                if k == "!":
                    feats.add("header-cell")
                at = ""
                if rng.random() < 0.3:
                    feats.add("cell-attrs")
                    at = 'style="%s" | ' % rng.choice(ATTRV)
                cells.append(k + sp + at + line(rng, min(d - 1, 1), feats, brackets=False))
            ra = ""
            if rng.random() < 0.2:
                feats.add("row-attrs")
                ra = ' class="%s"' % rng.choice(ATTRV)
            rows.append("|-" + ra + "\n" + "\n".join(cells))
        ta = ""
        if rng.random() < 0.4:
            feats.add("table-attrs")
            ta = ' class="%s"' % rng.choice(ATTRV)
        cap = ""
        if rng.random() < 0.3:
            feats.add("caption")
            cap = "|+" + sp + "cap\n"
        return "{|" + ta + "\n" + cap + "\n".join(rows) + "\n|}\n"
    if r < 0.74:
        feats.add("hline")
        return "----\n"
    if r < 0.86:
        feats.add("html-block")
        attrs = ""
        if rng.random() < 0.6:
            feats.add("html-attrs")
            attrs = ' class="%s"' % rng.choice(ATTRV)
        return "<div%s>%s</div>\n" % (attrs, line(rng, d - 1, feats))
    if r < 0.93:
        feats.add("deflist")
        return "; term %s : defn %s\n" % (rng.choice(W), rng.choice(W))
    feats.add("colon-list")
    return ": " + line(rng, d - 1, feats) + "\n"


def gen_doc(rng: random.Random, depth=3, deflist=True):
    """Returns (text, features)."""
    feats = set()
    out = []
    for _ in range(rng.randint(1, 4)):
        if rng.random() < 0.6:
            lv = rng.randint(2, 5)
            feats.add("section")
            out.append("=" * lv + " " + rng.choice(W) + " " + "=" * lv + "\n")
        for _ in range(rng.randint(1, 3)):
            b = block(rng, depth, feats)
            out.append(b)
    return ("".join(out), feats)


def render(doc):
    return doc[0]


def features(doc):
    return doc[1]
