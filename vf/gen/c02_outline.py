"""C02 workload: outlines (headings / list lines / rules / balanced fillers) with unique ids, and their rendering."""
from __future__ import annotations

import itertools

# ---------------------------------------------------------------- catalogues
# heading decorations: {e} = the '=' run, {i} = unique id
H_DECO = {
    "plain": "{e} {i} {e}",
    "tight": "{e}{i}{e}",
    "trailws": "{e} {i} {e}  ",
    "tab": "{e}\t{i}\t{e}",
    "bold": "{e} '''{i}''' ti {e}",
    "ital": "{e} ti ''{i}'' {e}",
    "link": "{e} [[Tg|{i}]] {e}",
    "tmpl": "{e} {{{{tf|{i}}}}} {e}",
    "span": "{e} <span class=\"c\">{i}</span> {e}",
    "comment": "{e} {i} {e}<!-- c -->",
    "nowiki": "{e} {i} <nowiki>''</nowiki> {e}",
    "eqin": "{e} {i} a=b {e}",
    "pf_if": "{e} {{{{#if:c|{i}|n}}}} {e}",
    "pf_uc": "{e} {{{{uc:{i}}}}} t{{{{lc:X}}}} {e}",
}
# list item decorations: {m} marker
L_DECO = {
    "plain": "{m} {i} it",
    "tight": "{m}{i}",
    "bold": "{m} '''{i}''' it",
    "ital": "{m} it ''{i}''",
    "link": "{m} [[Tg|{i}]] it",
    "tmpl": "{m} {{{{tf|{i}}}}}",
    "span": "{m} <span class=\"c\">{i}</span>",
    "url": "{m} {i} http://e.x/p",
    "extlink": "{m} [http://e.x/p {i}]",
    "colon": "{m} {i}: it",
    "br": "{m} {i}<br>it",
    "nowiki": "{m} <nowiki>*</nowiki> {i}",
    "pf_if": "{m} {{{{#if:c|{i}|n}}}} it",
    "pf_nest": "{m} {{{{#ifeq:{{{{lc:A}}}}|a|{{{{uc:{i}}}}}|{{{{#expr:1+1}}}}}}}}",
}
# balanced filler blocks (each is one or more complete non-list lines)
F_KIND = {
    "para": "{i} text",
    "para2": "{i} text\nmore text",
    "bi": "'''b''' ''{i}'' t",
    "link": "[[Tg|{i}]] t",
    "tmpl": "{{{{tf|{i}}}}}",
    "tmplml": "{{{{tf|{i}\n|k=v\n}}}}",
    "span": "<span class=\"c\">{i}</span> t",
    "div": "<div class=\"d\">\n{i} t\n</div>",
    "divinl": "<div>{i}</div>",
    "table": "{{| class=\"w\"\n|-\n| {i} || t\n|}}",
    "br": "{i}<br>t",
    "ref": "t<ref>{i}</ref>",
    "comment": "{i} <!-- c\nc --> t<!-- d -->",
    "nowiki": "<nowiki>* == </nowiki>{i}",
    "entity": "&amp; {i}",
    "blank": "",
    # parser-function calls written with a colon (the open TEMPLATE node is retagged PARSER_FN by colon_fn)
    "pf_if": "{{{{#if:c|{i}|n}}}}",
    "pf_ifeq": "{{{{#ifeq:a|a|{i}|n}}}} t",
    "pf_switch": "{{{{#switch:b|a=x|b={i}|#default=z}}}}",
    "pf_uc": "t {{{{uc:{i}}}}}",
    "pf_lc": "{{{{lc:ABC}}}} {i}",
    "pf_expr": "{i} {{{{#expr:1+2*3}}}}",
    "pf_pad": "{{{{padleft:{i}|6|.}}}} t",
    "pf_nest": "{{{{#if:{{{{lc:X}}}}|{{{{uc:{i}}}}}|{{{{#expr:1}}}}}}}}",
    "pf_tmplarg": "{{{{#if:c|{{{{tf|{i}}}}}|[[Tg|n]]}}}}",
    "pf_linkarg": "{{{{#ifeq:a|a|[[Tg|{i}]]|{{{{tf|n}}}}}}}} t",
    "pf_intmpl": "{{{{tf|{{{{#if:c|{i}}}}}}}}}",
    "pf_ml": "{{{{#if:c\n|{i}\n|{{{{lc:N}}}}\n}}}}",
    # NOT in the catalogue: quote markup spanning lines ("''a\nb''").  Quote markup is line-scoped in wikitext (the
    # tokenizer resets its state per line), so each line of such a block carries an unclosed '' -- not balanced.
    # space-indented (preformatted) lines: complete lines, nothing left open.  Only generated where the previous
    # line is not a list line (the parser treats a leading-blank line after a list item as its continuation).
    "ind_line": " {i} indented line",
    "ind_two": " {i} indented\n  second indented line",
    "ind_mark": " '''b''' {i} [[Tg|x]]",
    # balanced HTML blocks whose end tag has white space before its '>' (legal; '</x\s*>' is the parser's own token)
    "et_div_nl": "<div>{i}</div\n>",
    "et_div_sp": "<div>{i}</div >",
    "et_divml_nl": "<div class=\"d\">\n{i} t\n</div\n>",
    "et_span_nl": "<span>{i}</span\n> t",
    "et_b_tab": "<b>{i}</b\t> t",
}
F_KINDS = sorted(F_KIND)
F_KINDS_AFTER_LIST = [k for k in F_KINDS if not k.startswith("ind_")]


def admissible(lines):
    """outlines the generator may produce: no space-indented filler directly after a list line"""
    prev = None
    for ln in lines:
        if ln["k"] == "f" and ln["fk"] == "none":
            continue
        if prev == "l" and ln["k"] == "f" and ln["fk"].startswith("ind_"):
            return False
        prev = ln["k"]
    return True
H_DECOS = sorted(H_DECO)
L_DECOS = sorted(L_DECO)
MARKERS = ["".join(p) for d in range(1, 5) for p in itertools.product("*#", repeat=d)]  # 30
TEMPLATES = {"tf": "{{{1}}}"}


def render_line(ln):
    k = ln["k"]
    if k == "h":
        return H_DECO[ln.get("deco", "plain")].format(e="=" * ln["lv"], i=ln["id"])
    if k == "hr":
        return "-" * ln.get("n", 4)
    if k == "l":
        return L_DECO[ln.get("deco", "plain")].format(m=ln["m"], i=ln["id"])
    if k == "f":
        if ln["fk"] == "none":
            return None
        return F_KIND[ln["fk"]].format(i=ln.get("id"))
    if k == "wo":
        return "<div class=\"w\">"
    if k == "wc":
        return "</div>"
    raise ValueError(k)


def render(lines, eof_nl=True):
    out = [s for s in (render_line(ln) for ln in lines) if s is not None]
    return "\n".join(out) + ("\n" if eof_nl else "")


def with_ids(lines):
    """assign the unique ids (line index based)"""
    out = []
    for n, ln in enumerate(lines):
        ln = dict(ln)
        if ln["k"] == "h":
            ln["id"] = "H%d" % n
        elif ln["k"] == "l":
            ln["id"] = "I%d" % n
        elif ln["k"] == "f":
            ln["id"] = None if ln["fk"] in ("blank", "none") else "F%d" % n
        out.append(ln)
    return out


# ---------------------------------------------------------------- bounded-exhaustive parts
def heading_outlines(maxlen, fillers):
    """every level sequence over 1..6 up to maxlen x rule position (none / before the first heading / after the
    content of heading j) x filler kind used in every gap."""
    for L in range(1, maxlen + 1):
        for seq in itertools.product(range(1, 7), repeat=L):
            for hrpos in [None] + list(range(-1, L)):
                for fk in fillers:
                    lines = []
                    if hrpos == -1:
                        lines.append({"k": "hr"})
                        lines.append({"k": "f", "fk": fk})
                    for j, lv in enumerate(seq):
                        lines.append({"k": "h", "lv": lv})
                        lines.append({"k": "f", "fk": fk})
                        if hrpos == j:
                            lines.append({"k": "hr"})
                            lines.append({"k": "f", "fk": fk})
                    yield ("xh", L), with_ids(lines)


def n_heading_outlines(maxlen, nf):
    return sum(6 ** L * (L + 2) * nf for L in range(1, maxlen + 1))


def list_outlines(maxlen, fillers):
    """every marker sequence over the 30 markers up to maxlen lines, consecutive; and, per filler kind, the same
    sequence with that filler between the last two lines (a non-list line closes all lists)."""
    for L in range(1, maxlen + 1):
        for seq in itertools.product(MARKERS, repeat=L):
            yield ("xl", L), with_ids([{"k": "l", "m": m} for m in seq])
            if L >= 2:
                for fk in fillers:
                    lines = [{"k": "l", "m": m} for m in seq]
                    lines.insert(L - 1, {"k": "f", "fk": fk})
                    yield ("xlf", L), with_ids(lines)


def n_list_outlines(maxlen, nf):
    return sum(30 ** L * (1 + (nf if L >= 2 else 0)) for L in range(1, maxlen + 1))


# ---------------------------------------------------------------- sampled part
def next_marker(rng, prev):
    """markers related to the previous one are the interesting ones"""
    r = rng.random()
    if prev is None or r < 0.15:
        return rng.choice(MARKERS)
    if r < 0.35:
        return prev
    if r < 0.60 and len(prev) < 4:
        return prev + rng.choice("*#")
    if r < 0.68 and len(prev) < 3:
        return prev + rng.choice("*#") + rng.choice("*#")
    if r < 0.85 and len(prev) > 1:
        return prev[:rng.randint(1, len(prev) - 1)]
    # sibling that diverges at some position
    p = rng.randrange(len(prev))
    return prev[:p] + ("#" if prev[p] == "*" else "*") + prev[p + 1:]


def sample_outline(rng):
    prof = rng.choice(["heads", "lists", "mixed", "mixed", "wrapped"])
    lines = []
    nh = nl = 0
    prev_m = None
    prev_lv = None
    target = rng.randint(2, 22)
    inwrap = False
    while len(lines) < target:
        r = rng.random()
        if prof == "heads":
            kind = "h" if r < 0.5 else ("hr" if r < 0.62 else "f")
        elif prof == "lists":
            kind = "l" if r < 0.8 else ("f" if r < 0.93 else ("hr" if r < 0.96 else "h"))
        else:
            kind = "h" if r < 0.25 else ("l" if r < 0.68 else ("hr" if r < 0.76 else "f"))
        if prof == "wrapped" and not inwrap and r > 0.9 and len(lines) + 3 < target:
            lines.append({"k": "wo"})
            inwrap = True
            prev_m = None
            continue
        if inwrap and (kind in ("h", "hr") or r > 0.93):
            lines.append({"k": "wc"})
            inwrap = False
            prev_m = None
            continue
        if kind == "h":
            if nh >= 10:
                continue
            q = rng.random()
            if prev_lv is None or q < 0.4:
                lv = rng.randint(1, 6)
            elif q < 0.6:
                lv = min(6, prev_lv + 1)
            elif q < 0.75:
                lv = prev_lv
            else:
                lv = rng.randint(1, prev_lv)
            prev_lv = lv
            nh += 1
            prev_m = None
            lines.append({"k": "h", "lv": lv, "deco": "plain" if rng.random() < 0.5 else rng.choice(H_DECOS)})
        elif kind == "hr":
            prev_m = None
            lines.append({"k": "hr", "n": rng.choice([4, 4, 4, 5, 9])})
        elif kind == "l":
            if nl >= 12:
                if prof == "lists":
                    break
                continue
            m = next_marker(rng, prev_m)
            prev_m = m
            nl += 1
            lines.append({"k": "l", "m": m, "deco": "plain" if rng.random() < 0.5 else rng.choice(L_DECOS)})
        else:
            prev_m = None
            after_list = bool(lines) and lines[-1]["k"] == "l"
            lines.append({"k": "f", "fk": rng.choice(F_KINDS_AFTER_LIST if after_list else F_KINDS)})
    if inwrap:
        lines.append({"k": "wc"})
    return with_ids(lines)
