"""C18 #expr: AST generator, renderers (minimal / full / redundant parentheses, spacing, case)
and a bottom-up evaluator over primitive operator tables that are passed in.

The precedence ladder below is the DOCUMENTED one (Help:Extension:ParserFunctions ##expr),
highest first; every binary operator is left-associative:

   9  unary + -, binary e        8  not ceil trunc floor abs exp ln sin cos tan acos asin atan sqrt
   7  ^     6  * / div mod fmod  5  + -      4  round      3  = != <> > < >= <=     2  and     1  or

AST:  ("n", literal) | ("c", "pi"|"e") | ("neg", x) | ("pos", x) | ("u", fname, x) | ("b", op, l, r)
"""
from __future__ import annotations

import math

BIN_RUNG = {"e": 9, "^": 7, "*": 6, "/": 6, "div": 6, "mod": 6, "fmod": 6, "+": 5, "-": 5, "round": 4,
            "=": 3, "!=": 3, "<>": 3, ">": 3, "<": 3, ">=": 3, "<=": 3, "and": 2, "or": 1}
RUNG_NAME = {9: "e", 8: "fn", 7: "pow", 6: "mul", 5: "add", 4: "round", 3: "cmp", 2: "and", 1: "or"}
BIN_OPS = list(BIN_RUNG)
UNARY_FNS = ["not", "ceil", "trunc", "floor", "abs", "sqrt", "exp", "ln", "sin", "cos", "tan", "acos", "asin", "atan"]
INT_LITS = ["0", "1", "2", "3", "4", "5", "7", "10", "12"]
FLOAT_LITS = ["0.5", "2.5", "1.25", "0.1", "3.75"]
ATOM = 100


class PrimitiveError(Exception):
    """The primitive returned an error string (e.g. 'Divide by zero')."""


class MissingOperator(Exception):
    """The primitive table has no entry for a documented operator."""


class Skip(Exception):
    """The primitive itself raised / the value is outside what the statement covers."""


def prec(a):
    k = a[0]
    if k in ("n", "c"):
        return ATOM
    if k in ("neg", "pos"):
        return 9
    if k == "u":
        return 8
    return BIN_RUNG[a[1]]


def nops(a):
    k = a[0]
    if k in ("n", "c"):
        return 0
    if k in ("neg", "pos"):
        return 1 + nops(a[1])
    if k == "u":
        return 1 + nops(a[2])
    return 1 + nops(a[2]) + nops(a[3])


def depth(a):
    k = a[0]
    if k in ("n", "c"):
        return 0
    if k in ("neg", "pos"):
        return 1 + depth(a[1])
    if k == "u":
        return 1 + depth(a[2])
    return 1 + max(depth(a[2]), depth(a[3]))


def children(a):
    k = a[0]
    if k in ("n", "c"):
        return []
    if k in ("neg", "pos"):
        return [(1, a[1])]
    if k == "u":
        return [(2, a[2])]
    return [(2, a[2]), (3, a[3])]


def replace_child(a, idx, new):
    lst = list(a)
    lst[idx] = new
    return tuple(lst)


def to_tuple(a):
    """JSON round trip gives lists; normalise to nested tuples."""
    if isinstance(a, (list, tuple)):
        return tuple(to_tuple(x) for x in a)
    return a


# ------------------------------------------------------------------ evaluation
def literal_value(s):
    if all(c in "0123456789" for c in s):
        return int(s)
    return float(s)


def evaluate(a, prims):
    """prims: {"unary": {...}, "binary": {...}} -- the primitive operator tables."""
    k = a[0]
    if k == "n":
        return literal_value(a[1])
    if k == "c":
        return math.pi if a[1] == "pi" else math.e
    if k == "neg":
        return -evaluate(a[1], prims)
    if k == "pos":
        return evaluate(a[1], prims)
    if k == "u":
        v = evaluate(a[2], prims)
        try:
            r = prims["unary"][a[1]](v)
        except (ValueError, OverflowError, ZeroDivisionError, TypeError) as e:
            raise Skip("primitive %s raised %s" % (a[1], type(e).__name__))
        if isinstance(r, str):
            raise PrimitiveError(r, a[1])
        return r
    x = evaluate(a[2], prims)
    y = evaluate(a[3], prims)
    if a[1] == "e" and abs(y) > (60 if isinstance(y, int) else 300):
        raise Skip("exponent of e out of range")      # the integer primitive loops |y| times
    if a[1] not in prims["binary"]:
        raise MissingOperator(a[1])
    try:
        r = prims["binary"][a[1]](x, y)
    except (ValueError, OverflowError, ZeroDivisionError, TypeError) as e:
        raise Skip("primitive %s raised %s" % (a[1], type(e).__name__))
    if isinstance(r, str):
        raise PrimitiveError(r, a[1])
    if isinstance(r, int) and not isinstance(r, bool) and abs(r) > 10 ** 400:
        raise Skip("integer too large")
    return r


def fmt(v):
    """How a number is printed: integral floats without a fraction."""
    if isinstance(v, bool):
        v = int(v)
    if isinstance(v, float):
        if v != v or v in (float("inf"), float("-inf")):
            raise Skip("non-finite result")
        if v == math.floor(v):
            return str(int(v))
    return str(v)


def expected(a, prims):
    """Documented value of the AST as the string #expr prints; raises Skip."""
    try:
        return fmt(evaluate(a, prims))
    except PrimitiveError as e:
        return str(e.args[0])
    except RecursionError:
        raise Skip("recursion")


# ------------------------------------------------------------------ rendering
def needs_parens(child, parent, side):
    """Parentheses required by the documented ladder (conservative for prefix operators)."""
    pc = prec(child)
    if pc == ATOM:
        return False
    pk = parent[0]
    if pk in ("neg", "pos"):
        # operand of a sign: another sign binds as tightly (prefix chain); everything else is lower or ambiguous
        return child[0] not in ("neg", "pos")
    if pk == "u":
        if child[0] in ("u", "neg", "pos"):
            return False            # prefix chain
        return pc <= 8              # binary e binds tighter than a function, everything else is lower
    pp = BIN_RUNG[parent[1]]
    if pc < pp:
        return True
    if pc > pp:
        return False
    # same rung
    if child[0] == "b":
        return side == "r"          # left-associative
    # sign under binary e: "(-2) e 3" vs "-(2 e 3)" is not settled by the ladder -> parenthesise on the left
    return side == "l"


def tokens(a, style, rng=None, parent=None, side=None):
    """Token list. style: 'min' | 'full' | 'red' (minimal + random redundant parentheses)."""
    k = a[0]
    if k == "n" or k == "c":
        toks = [a[1]]
    elif k in ("neg", "pos"):
        toks = ["-" if k == "neg" else "+"] + tokens(a[1], style, rng, a, "u")
    elif k == "u":
        toks = [a[1]] + tokens(a[2], style, rng, a, "u")
    else:
        toks = tokens(a[2], style, rng, a, "l") + [a[1]] + tokens(a[3], style, rng, a, "r")
    atom = k in ("n", "c")
    if style == "full":
        wrap = not atom
    else:
        wrap = parent is not None and needs_parens(a, parent, side)
        if style == "red" and rng is not None and rng.random() < (0.15 if atom else 0.35):
            toks = ["("] + toks + [")"]
    if wrap:
        toks = ["("] + toks + [")"]
    return toks


BLANKS = ["", " ", " ", "  ", "\t", "\n", " \n "]


def _alpha(t):
    return t[:1].isalpha()


def join(toks, rng=None, spacing=False, case=False):
    """Canonical: single blanks between tokens. spacing: random blanks (none where safe)."""
    out = []
    prev = None
    for t in toks:
        if case and rng is not None and t[:1].isalpha():
            r = rng.random()
            if r < 0.4:
                t = t.upper()
            elif r < 0.7:
                t = "".join(c.upper() if rng.random() < 0.5 else c for c in t)
        if prev is not None:
            if spacing and rng is not None:
                b = rng.choice(BLANKS)
                # two words must stay separate tokens; a number must not swallow a following '.'
                if b == "" and ((prev[-1:].isalpha() and t[:1].isalpha()) or
                                (prev[-1:].isdigit() and (t[:1].isdigit() or t[:1] == ".")) or
                                (prev[-1:] in "<>!=" and t[:1] in "<>=")):
                    b = " "
                out.append(b)
            else:
                out.append(" ")
        out.append(t)
        prev = t
    s = "".join(out)
    if spacing and rng is not None:
        s = rng.choice(["", " ", "\n", "  "]) + s + rng.choice(["", " ", "\n"])
    return s


def render(a, style="min", rng=None, spacing=False, case=False):
    return join(tokens(a, style, rng), rng, spacing, case)


# ------------------------------------------------------------------ literal spelling
# A numeral keeps its value (and its kind: integer / decimal) under leading zeros, trailing zeros of the
# fraction, a dropped "0" before the point and an explicit "+" -- another rendering dimension next to
# parentheses, blanks and letter case. Spellings that turn an integer into a decimal ("5.", "5.0") are only
# used where a whole expression is one literal (props.c18.literal_cases): the kind matters to `round`.
SPELL_MODES = ["leading-zero", "trailing-zero", "bare-point", "explicit-plus"]


def respell(lit, mode, rng=None):
    k = rng.randint(1, 3) if rng is not None else 1
    if mode == "leading-zero":
        return "0" * k + lit
    if mode == "trailing-zero":
        return lit + "0" * k if "." in lit else lit
    if mode == "bare-point":
        return lit[1:] if lit.startswith("0.") else lit
    return lit


def spell_ast(a, mode, rng=None, parent=None):
    """AST whose literals are respelled. mode: one of SPELL_MODES (every literal, deterministic when rng is
    None) or 'mixed' (each literal gets a random mode or none)."""
    k = a[0]
    if k == "c":
        return a
    if k == "n":
        m = mode
        if mode == "mixed":
            m = rng.choice(SPELL_MODES + ["leading-zero", None, None])
        if m is None:
            return a
        if m == "explicit-plus":
            # stacked signs with + are not generated (ambiguous in the manual)
            if parent is not None and parent[0] in ("neg", "pos"):
                return a
            return ("pos", a)
        return ("n", respell(a[1], m, rng if mode == "mixed" else None))
    if k in ("neg", "pos"):
        return (k, spell_ast(a[1], mode, rng, a))
    if k == "u":
        return (k, a[1], spell_ast(a[2], mode, rng, a))
    return (k, a[1], spell_ast(a[2], mode, rng, a), spell_ast(a[3], mode, rng, a))


# ------------------------------------------------------------------ generation
def gen_atom(rng):
    r = rng.random()
    if r < 0.7:
        return ("n", rng.choice(INT_LITS))
    if r < 0.93:
        return ("n", rng.choice(FLOAT_LITS))
    return ("c", rng.choice(["pi", "e"]))


def gen_ast(rng, d):
    r = rng.random()
    if d == 0 or r < 0.18:
        return gen_atom(rng)
    if r < 0.33:
        return ("u", rng.choice(UNARY_FNS), gen_ast(rng, d - 1))
    if r < 0.43:
        x = gen_ast(rng, d - 1)
        if rng.random() < 0.2 and x[0] not in ("neg", "pos"):
            return ("pos", x)            # stacked unary + is not generated (ambiguous in the manual)
        if x[0] == "pos":
            return x
        return ("neg", x)
    op = rng.choice(BIN_OPS)
    l, r_ = gen_ast(rng, d - 1), gen_ast(rng, d - 1)
    if op == "e":
        # the constant e next to the operator e is not generated
        if l == ("c", "e"):
            l = ("n", "2")
        if r_ == ("c", "e"):
            r_ = ("n", "3")
    if op == "round" and rng.random() < 0.8:
        r_ = ("n", rng.choice(["0", "1", "2", "3"]))
    return ("b", op, l, r_)


TRIPLES = [("2", "3", "5"), ("7", "2", "3"), ("10", "4", "3"), ("1", "0", "2"), ("5", "1", "0"),
           ("0.5", "2", "7"), ("12", "5", "2.5"), ("3", "3", "1"), ("0", "1", "1"), ("4", "2", "1")]


# operand pairs that keep most unary functions inside their domain (acos/asin need |x|<=1, ln x>0)
UPAIRS = [("0.5", "0.25"), ("1", "0.5"), ("2", "3"), ("0.1", "1"), ("1", "1")]


def pair_asts(n_triples, rot=0):
    """Bounded-exhaustive part: every ordered (parent, child, side) of the 18 binary operators,
    every unary function / sign against every binary operator in the three possible shapes."""
    out = []
    tr = [TRIPLES[(rot + i) % len(TRIPLES)] for i in range(n_triples)]
    for p in BIN_OPS:
        for c in BIN_OPS:
            # same rung (associativity) pairs get every literal triple: only some triples tell (x-y)-z from x-(y-z)
            for (x, y, z) in (TRIPLES if BIN_RUNG[p] == BIN_RUNG[c] else tr):
                out.append(("b", p, ("b", c, ("n", x), ("n", y)), ("n", z)))
                out.append(("b", p, ("n", x), ("b", c, ("n", y), ("n", z))))
    unaries = [("u", f) for f in UNARY_FNS] + [("neg",), ("pos",)]
    for u in unaries:
        def U(x):
            return u + (x,)
        for b in BIN_OPS:
            for (x, y) in UPAIRS:
                out.append(U(("b", b, ("n", x), ("n", y))))
                out.append(("b", b, U(("n", x)), ("n", y)))
                out.append(("b", b, ("n", x), U(("n", y))))
    for u in unaries:
        for v in unaries:
            if v[0] == "pos" and u[0] in ("neg", "pos"):
                continue                 # stacked signs with + are not generated
            for (x, y, z) in tr[:2]:
                out.append(u + (v + (("n", x),),))
    return out


# ------------------------------------------------------------------ shape classification
def rung_of(a):
    k = a[0]
    if k in ("neg", "pos"):
        return "sign"
    if k == "u":
        return "fn"
    if k == "b":
        return RUNG_NAME[BIN_RUNG[a[1]]]
    return "atom"


def shape(a):
    """Mechanism tag of a (minimised) failing AST."""
    n = nops(a)
    if n == 0:
        return "atom:" + ("const" if a[0] == "c" else ("float" if "." in a[1] else "int"))
    if n == 1:
        if a[0] == "b":
            return "single-op:%s(%s)" % (rung_of(a), a[1])
        if a[0] == "u":
            return "single-op:fn"
        return "single-op:sign"
    if n == 2:
        ch = [c for _, c in children(a) if nops(c) == 1]
        if ch:
            ch = ch[0]
            rp, rc = rung_of(a), rung_of(ch)
            if a[0] == "b" and ch[0] == "b":
                if rp == rc:
                    return "associativity:" + rp
                num = {v: k for k, v in RUNG_NAME.items()}
                lo, hi = sorted([rp, rc], key=lambda r: num[r])
                return "precedence:%s~%s" % (lo, hi)
            un = [x for x in (rp, rc) if x in ("fn", "sign")]
            bi = [x for x in (rp, rc) if x not in ("fn", "sign")]
            if len(un) == 2:
                return "prefix-chain:%s,%s" % (rp, rc)
            return "unary-binding:%s~%s" % (un[0], bi[0])
    rs = set()

    def walk(x):
        if x[0] not in ("n", "c"):
            rs.add(rung_of(x))
            for _, c in children(x):
                walk(c)
    walk(a)
    return "complex:" + "+".join(sorted(rs))


def minimise(a, fails, prims, max_tests=400):
    """Shrink a failing AST: descend into failing subtrees, then replace operand subtrees by
    literals while the disagreement persists. fails(ast) -> bool (must not raise)."""
    tests = [0]

    def F(x):
        tests[0] += 1
        if tests[0] > max_tests:
            return False
        return fails(x)

    changed = True
    while changed and tests[0] <= max_tests:
        changed = False
        # 1. a failing proper subtree
        stack = [c for _, c in children(a)]
        subs = []
        while stack:
            x = stack.pop()
            if x[0] not in ("n", "c"):
                subs.append(x)
                stack.extend(c for _, c in children(x))
        subs.sort(key=nops)
        for s in subs:
            if F(s):
                a = s
                changed = True
                break
        if changed:
            continue
        # 2. hoist: replace an inner node by one of its children; 3. replace a subtree by a literal
        def positions(x, path=()):
            for i, c in children(x):
                yield path + (i,), c
                yield from positions(c, path + (i,))

        def put(x, path, new):
            if not path:
                return new
            return replace_child(x, path[0], put(x[path[0]], path[1:], new))
        for path, sub in sorted(positions(a), key=lambda t: -nops(t[1])):
            if sub[0] in ("n", "c"):
                continue
            cands = [c for _, c in children(sub)]
            try:                                   # the subtree's own value, when it is a short plain numeral
                v = fmt(evaluate(sub, prims))
                if len(v) <= 6 and all(ch in "0123456789." for ch in v):
                    cands.append(("n", v))
            except (Skip, PrimitiveError, RecursionError):
                pass
            cands += [("n", l) for l in ("2", "3", "5", "7", "1", "0", "0.5")]
            for cand in cands:
                b = put(a, path, cand)
                if nops(b) < nops(a) and F(b):
                    a = b
                    changed = True
                    break
            if changed:
                break
    return a
