"""C14 workload: argument lists of a template call.

E1  bounded-exhaustive lists over the 13-atom alphabet of the design (length <= 2 quick, <= 3 thorough)
E2  bounded-exhaustive padding: one argument of each kind x every combination of blank classes in every pad slot,
    alone and next to one argument of each other kind
R   seeded random lists of length 1..6: positional / named / numeric-named arguments, blanks / tabs / newlines
    (rarely CR, NBSP, U+3000) around names and values, inner newlines, values containing '=', hostile but plain
    names (apostrophe, ampersand, double quote, a lone < > [ ], no name at all, blank runs, signs, decimals, zero,
    non-ASCII letters and digits), numeric names with leading zeros, > 1000, around 2**53, 20 digits.
Every list is filtered by vf.ref.c14_argviews.admissible (precondition of the statement).
"""
from __future__ import annotations

import itertools

import re

from vf.ref.c14_argviews import admissible

_BLANKLINE = re.compile(r"\n[ \t]+\n|^[ \t]+\n|\n[ \t]+$")

ATOMS = ["a", " b ", "\nc", "d\ne",
         "k=v", " m = w ", "n=\nz", "p =q=r",
         "1=A", "2=B", "01=C", "0=D", "7=E"]


def exhaustive_lists(maxlen):
    for n in range(1, maxlen + 1):
        for lst in itertools.product(ATOMS, repeat=n):
            if admissible(lst):
                yield list(lst)


PADSET = ["", " ", "\n", "\t", " \n  "]


def padding_lists():
    """E2: every pad-slot combination for one argument, alone / after / before a companion of another kind."""
    singles = []
    for l, r in itertools.product(PADSET, repeat=2):
        singles.append(("pos", l + "x" + r))
    for nl, nr, vl, vr in itertools.product(PADSET, repeat=4):
        singles.append(("named", nl + "key" + nr + "=" + vl + "val" + vr))
        singles.append(("num", nl + "3" + nr + "=" + vl + "val" + vr))
    comp = {"pos": "p", "named": "q=r", "num": "5=s"}
    for kind, raw in singles:
        if admissible([raw]):
            yield [raw]
        for ck, c in comp.items():
            if ck == kind and kind != "pos":
                continue
            for lst in ([c, raw], [raw, c]):
                if admissible(lst):
                    yield lst


def n_exhaustive(maxlen):
    return sum(1 for _ in exhaustive_lists(maxlen)), sum(1 for _ in padding_lists())


# ------------------------------------------------------------------ random lists

WORDS = ["a", "b", "x", "foo", "Bar", "x1", "long word", "é", "жук", "中文", "z9", "A.B", "a-b", "a_b", "a:b", "a/b",
         "q?", "w!", "50%", "a,b", "(c)", "a+b", "n°5", "#1", "*s", ";t", ":u", "~", "@h", "$5", "^", "`", "\\",
         "3<4", "x>y", "a]", "[b"]
NAME_SIMPLE = ["k", "key", "name", "lang", "t", "tr", "alt", "pos", "g", "Key", "nocat", "sc", "id", "x1", "a b", "first name",
               "a-b", "a.b", "a_b", "a:b", "é", "жук", "中", "#", "*", "!", "~", "%", "a(b"]
NAME_ODD = ["0", "00", "-1", "+2", "1.5", "1e3", "0x10", "1a", "a1", "1 2", "٣", "１２", "²", "①", "٠", "१",
            # names that were once the private fields / sentinel of the Lua argument table, and Lua-ish words
            "_orig", "_frame", "_next_key", "_preprocessed", "***nil***", "__index", "args", "nil", "n"]
NAME_HOSTILE = ["it's", "o'k", "a&b", "AT&T", 'a"b', '"q"', "a  b", "a\nb", "a\tb", "a \n b", "x'y&z", "a 'b' c",
                "R&D", 'say "hi"', "a<b", "a>b", "x[y", "x]y", "<", "]", "n>0", "", "", ""]
NUMS = ["1", "2", "3", "4", "5", "6", "7", "8", "9", "10", "12", "20", "99", "100", "999", "1000", "1001", "1002", "2024", "5000", "65536",
        "9007199254740992", "9007199254740993", "99999999999999999999"]


def _ws(rng, allow_trailing_nl=True, p_empty=0.5):
    if rng.random() < p_empty:
        return ""
    out = ""
    for _ in range(rng.choice((1, 1, 1, 2, 2, 3))):
        r = rng.random()
        if r < 0.5:
            out += " "
        elif r < 0.8:
            out += "\n"
        elif r < 0.93:
            out += "\t"
        elif r < 0.96:
            out += "\r"
        elif r < 0.98:
            out += "\xa0"
        else:
            out += "　"
    if not allow_trailing_nl:
        while out.endswith("\n"):
            out = out[:-1] + rng.choice((" ", "\t", ""))
    return out


def _text(rng, eq_ok):
    n = rng.choice((1, 1, 1, 2, 2, 3))
    parts = [rng.choice(WORDS) for _ in range(n)]
    seps = [" ", " ", "\n", "\n\n", "  ", " \n", "\n ", "\t", "'", '"', "&", ", ", "\n*", "\n#", "\n:", "\n;", "\n ", "\n \n", "\n\t\n"]
    if eq_ok:
        seps += ["=", "=", " = ", "=="]
    s = parts[0]
    for p in parts[1:]:
        s += rng.choice(seps) + p
    if eq_ok and rng.random() < 0.05:
        s = "=" + s
    return s


def _name(rng):
    r = rng.random()
    if r < 0.80:
        n = rng.choice(NAME_SIMPLE)
        if rng.random() < 0.3:
            n += str(rng.randrange(1, 30)) if rng.random() < 0.5 else rng.choice("abcxyz")
        return n
    if r < 0.91:
        return rng.choice(NAME_ODD)
    return rng.choice(NAME_HOSTILE)


def _num(rng):
    r = rng.random()
    if r < 0.8:
        n = str(rng.randrange(1, 9))
    else:
        n = rng.choice(NUMS)
    if rng.random() < 0.15:
        n = "0" * rng.choice((1, 1, 2, 5)) + n
    return n


def _arg(rng):
    r = rng.random()
    if r < 0.4:
        return _ws(rng) + _text(rng, False) + _ws(rng, allow_trailing_nl=False)
    if r < 0.75:
        name = _name(rng)
    else:
        name = _num(rng)
    return (_ws(rng, p_empty=0.6) + name + _ws(rng, p_empty=0.6) + "=" + _ws(rng, p_empty=0.6)
            + _text(rng, True) + _ws(rng, p_empty=0.6))


def random_list(rng):
    """One admissible list of length 1..6 (arguments are re-drawn until the precondition holds)."""
    n = rng.choice((1, 2, 2, 3, 3, 3, 4, 4, 5, 6))
    for _ in range(200):
        lst = []
        for _i in range(n):
            for _try in range(20):
                a = _arg(rng)
                if admissible(lst + [a]):
                    lst.append(a)
                    break
        if lst and admissible(lst):
            # blank-only line segments inside positional values hit one known tokenizer behaviour every time;
            # keep them present but rare so that they do not drown the parser view
            if any(_BLANKLINE.search(a.split("=", 1)[1].strip() if "=" in a else a) for a in lst) and rng.random() < 0.85:
                continue
            return lst
    return ["a"]
