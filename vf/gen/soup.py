"""Token-soup generator over the full wikitext token alphabet (C01, C09, C15)."""
from __future__ import annotations

import random


def alphabet():
    from wikitextprocessor.common import URL_STARTS, MAGIC_FIRST, MAGIC_LAST, MAGIC_NOWIKI_CHAR
    from wikitextprocessor.parser import MAGIC_WORDS
    from wikitextprocessor.wikihtml import ALLOWED_HTML_TAGS
    tags = sorted(ALLOWED_HTML_TAGS)
    fixed = [
        "'''''", "'''", "''", "'", "\n", "\n\n", "|}", "{||", "{|", "|+", "|-", "!!", "!", "\n!", "\n|", "||", "|",
        "\n----", "----", "\n-----x", "\n*", "\n#", "\n:", "\n;", "\n**", "\n*#", "\n#:", "\n;:", "\n*:;#", ":", ";",
        " ", "  ", "\t", " \n", "\n ", "<<x>>", "<<>>", "<</a>>", "=", "==", "\n==", "==\n", "\n===", "===\n",
        "\n= ", " =\n", "\n====== ", " ======\n", "\n=======", "{{", "}}", "{{{", "}}}", "{{{{", "}}}}", "[[", "]]",
        "[", "]", "[[[", "]]]", "{{#if:", "{{#switch:", "{{#invoke:", "{{PAGENAME}}", "{{!}}", "{{=}}", "{{ta|", "{{tb}}",
        "{{tc|x={{{1}}}}}", "{{td}}", "{{te}}", "{{tf|", "{{tg}}", "{{th}}", "{{ti}}", "{{tj}}", "{{tk}}", "{{tl}}",
        "{{{1|", "{{{x}}}", "-{", "}-", "-{zh-hans:a;zh-hant:b}-", "&amp;", "&lt;", "&#91;", "&nbsp;", "&",
        "<nowiki>", "</nowiki>", "<nowiki/>", "<nowiki />", "<NoWiki>", "</NOWIKI>", "<pre>", "</pre>", "<PRE>", "</Pre >",
        "<pre style='x'>", "<noinclude>", "</noinclude>", "<includeonly>", "</includeonly>", "<onlyinclude>",
        "</onlyinclude>", "<!--", "-->", "<!-- c -->", "<!---->", "<", ">", "</", "/>", "<>", "</>", "< div>",
        "<foo>", "</foo>", "<foo/>", "<math>", "</math>", "<math>x_1 < 2</math>", "<ref name=a>", "</ref>", "<ref name='b' />",
        "<references/>", "<gu>", "<e>", "<br>", "<br/>", "<br />", "</br>", "<hr>", "<wbr>", "<img src=x>",
        "word", "Word2", "é", "語", "ß", "á", "‏", "‮", " ", "﻿", "\x00", "\x7f", "\r", "\r\n", " ",
        "File:x.png", "Category:", "Image:", "#", "/", "\\", "\"", "`", "~~~~", "$1", "%", "_", "__", "1", "0", "=x", "x=",
        "https://example.org/a_b?c=d&e", "http://x", " https://a.b/c", "https://", "//example.org", "mailto:a@b",
        MAGIC_NOWIKI_CHAR,
    ]
    magic = sorted(MAGIC_WORDS)
    urls = [u + "h.example/p" for u in URL_STARTS]
    tagtok = []
    for t in tags:
        tagtok += ["<%s>" % t, "</%s>" % t, "<%s/>" % t, "<%s />" % t.upper(),
                   "<%s class=\"a b\" id='c' x=y>" % t, "<%s style=\"color:'red'\">" % t,
                   "<%s a=\"b>" % t, "<%s a=>" % t, "<%s a b c>" % t, "</%s >" % t, "<%s\n>" % t,
                   # constructs that the preprocessor turns into magic characters, INSIDE the tag
                   "<%s class=\"a{{ta|x}}\">" % t, "<%s id=<nowiki/>>" % t, "<%s title=\"[[x]]\" x='{{{1}}}'>" % t,
                   "<%s class=\"a<nowiki>b</nowiki>\">" % t, "<%s data-x=\"[http://x y]\" />" % t,
                   "<%s class=\"<!-- c -->{{PAGENAME}}\">" % t, "<%s {{ta}}>" % t]
    placeholders = [chr(MAGIC_FIRST), chr(MAGIC_FIRST + 1), chr(MAGIC_FIRST + 7), chr(MAGIC_LAST), chr(0x10203E),
                    chr(0x10203F), chr(0x102040)]
    return {"fixed": fixed, "magic": magic, "urls": urls, "tags": tagtok, "placeholders": placeholders}


_ALPHA = None

# characters that are not ASCII letters but are mapped onto ASCII letters by str.lower()/upper()/casefold() or by
# case-insensitive regular expressions (KELVIN SIGN, LONG S, DOTLESS I, I WITH DOT ABOVE), plus fullwidth letters:
# tag names, magic words and URL schemes spelled with them look like tokens to some layers and not to others
CONFUSABLE = {"k": "\u212a", "K": "\u212a", "s": "\u017f", "S": "\u017f", "i": "\u0131", "I": "\u0130",
              "a": "\uff41", "d": "\uff44", "p": "\uff50", "h": "\uff48", "t": "\uff54", "b": "\uff42"}


def confuse(t, rng):
    idx = [i for i, c in enumerate(t) if c in CONFUSABLE]
    if not idx:
        return t
    for i in rng.sample(idx, min(len(idx), rng.randint(1, 2))):
        t = t[:i] + CONFUSABLE[t[i]] + t[i + 1:]
    return t


def soup(rng: random.Random, maxlen=60, placeholders=False, exclude=()):
    """Return (text, used_placeholder)."""
    global _ALPHA
    if _ALPHA is None:
        _ALPHA = alphabet()
    A = _ALPHA
    n = rng.randint(1, maxlen)
    out = []
    usedp = False
    for _ in range(n):
        r = rng.random()
        if r < 0.55:
            t = rng.choice(A["fixed"])
        elif r < 0.80:
            t = rng.choice(A["tags"])
        elif r < 0.86:
            t = rng.choice(A["magic"])
        elif r < 0.92:
            t = rng.choice(A["urls"])
            if rng.random() < 0.5:
                t = "[" + t + " txt]"
        elif r < 0.94 and placeholders:
            t = rng.choice(A["placeholders"])
            usedp = True
        else:
            t = rng.choice(["a", "b c", "Xy", "12", "foo bar", "q"])
        if 0.55 <= r < 0.92 and rng.random() < 0.06:
            t = confuse(t, rng)
        if exclude and any(x in t for x in exclude):
            continue
        out.append(t)
    return "".join(out), usedp


# 12-template library incl. templates that emit unbalanced markup (DESIGN C01)
LIBRARY = {
    "ta": "A{{{1|}}}B", "tb": "", "tc": "{{{x|dx}}}{{ta|{{{1|}}}}}", "td": "{|", "te": "|-\n| c", "tf": "|}",
    "tg": "* it", "th": "</div>", "ti": "'''", "tj": "<div>", "tk": "\n== H ==\n", "tl": "{{tb}}[[x|{{{1|y}}}]]",
}


# ---- repeated-unit runs (C01): prefix + opener + unit*n + tail --------------------------------------------------
# A short unit repeated many times after an opener that is never (or wrongly) closed.  The interesting quantity is how
# the processing time grows with n, so the generator returns the FAMILY and the caller instantiates it for a ladder of
# n (never parse a large n first: a regular expression that backtracks is not interruptible by a signal).
RUN_PREFIXES = ["", "", "", "", "x ", "x\n", "\n* ", "{|\n| ", "== ", "{{ta|", "[[a|", "<div>", "''", "<ref>", "{{#if:x|"]
RUN_OPENERS = [
    "", "<a", "<a ", "<a.", "<a-", "<i ", "<b x", "<div ", "<div class=", "<span x=", "<span x=\"a\" ", "<ref name=",
    "<ref name=a ", "<br", "<pre ", "<nowiki ", "<math ", "<a x='", "<a x=\"", "</a", "</div ", "<<", "<!--", "<", "< a ",
    "{{", "{{a|", "{{a|b=", "{{{", "{{{a|", "{{#if:", "{{#switch:a|", "{{#invoke:m|f|", "{{a|{{{", "{{a|[[",
    "[[", "[[a|", "[[File:x.png|", "[[:a", "[", "[http://x ", "[//x", "[[a]]", "[[a|b]]x",
    "{|", "{| class=", "{|\n|", "{|\n!", "{|\n|+", "{|\n|-", "|", "||", "!",
    "=", "==", "== a", "======", "''", "'''", "'''''", "-{", "-{zh:", "~~~", ";", ":", "*", "#", "----", " ",
    "http://x", "https://a.b/", "http://", "//a", "mailto:", "RFC ", "ISBN ", "PMID ", "&", "&#", "&#x", "__", "__TOC",
]
RUN_UNITS = [
    ".c", "x-", "x:", "-a", "_a", "a.", "a b", " a", "a ", "a=", "a= ", "a=b ", "a=b-", "a-b=", "a=\"b\" ", "a='b'", "=",
    "= ", " = ", "x=\r ", "\r", "\t", " ", "\n", "\n\n", " \n", "\n ", "-{}-", "-{", "}-", "{}", "{", "}", "}{", "{{", "}}", "{{{",
    "}}}", "{{}}", "{{a", "a}}", "|", "||", "|a", "a|", "|=", "=|", "|a=", "[", "]", "[[", "]]", "[]", "[[a", "a]]", "][", "[[]]",
    "'", "''", "'''", "''a", "a''", "<", ">", "<a", "a>", "</", "/>", "<>", "<a>", "</a>", "<!", "<!--", "-->", "--", "-", "!-",
    "!", "!!", "\n|", "\n!", "\n|-", "\n*", "\n#", "\n:", "\n;", "\n=", "=\n", "\n==", "==", "= =", ":", ";", ";:", "*", "#",
    "/", "//", "/a", ":/", "http://", "x.y", ".", "..", "a/", "?a=", "&a=", "%20", "&", "&a;", "&#", ";&", "~", "~~", "_", "__",
    "a", "ab", "1", "é", " ", "‏", "\\", "\"", "\"\"", "\"a", "`", "$1", "0 ",
]
RUN_CHARS = ".-:_= \t\n|{}[]'<>/!acx1&;#*~\"\r"
RUN_TAILS = ["", "", "", "", "\n", " x", "\nx\n", ">", "/>", "}}", "]]", "]", "|}", "-->", "\"", "=", "==", "''", "</a>", "}-"]


def run_family(rng: random.Random) -> dict:
    """One family of the input class 'opener + short unit repeated n times'."""
    global _ALPHA
    if _ALPHA is None:
        _ALPHA = alphabet()
    op = rng.choice(RUN_OPENERS)
    if op.startswith("<a") and rng.random() < 0.3:
        # any allowed tag name instead of <a
        from wikitextprocessor.wikihtml import ALLOWED_HTML_TAGS
        op = "<" + rng.choice(sorted(ALLOWED_HTML_TAGS)) + op[2:]
    if rng.random() < 0.55:
        unit = rng.choice(RUN_UNITS)
    else:
        unit = "".join(rng.choice(RUN_CHARS) for _ in range(rng.randint(1, 3)))
    return {"pre": rng.choice(RUN_PREFIXES), "open": op, "unit": unit, "tail": rng.choice(RUN_TAILS)}


def run_text(fam: dict, n: int) -> str:
    return fam["pre"] + fam["open"] + fam["unit"] * n + fam["tail"]
