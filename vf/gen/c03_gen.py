"""C03 workload generators: specification objects (see vf.ref.c03_model) for tables, HTML elements,
links, external links and template calls.  Everything is derived from the rng that is passed in."""
from __future__ import annotations

import itertools

ATTR_NAMES = ["class", "id", "style", "lang", "title", "dir", "align", "width", "colspan", "rowspan", "data-x",
              "data-sort-value", "scope", "valign", "bgcolor", "x1", "colSpan", "viewBox", "DATA-X", "aB"]
ODD_NAMES = ["data_x", "a.b", "xml:lang", "x_"]          # URL-safe, but outside [-a-zA-Z0-9]: own input class
VALCH = "abcdefghijklmnopqrstuvwxyzABCDEFGHIJKLMNOPQRSTUVWXYZ0123456789"
VALX = "_.~-"
QUOTES = ['"', "'", ""]


def word(rng):
    return rng.choice("abcdefghkmnpqrsuvwyz") + str(rng.randrange(100))


def value(rng):
    n = rng.randint(1, 8)
    s = "".join(rng.choice(VALCH) for _ in range(n))
    if rng.random() < 0.4:
        i = rng.randrange(len(s) + 1)
        s = s[:i] + rng.choice(VALX) + s[i:]
    return s


def attrs(rng, n=None, odd=False, eqsp=0.04, sq_empty=0.0):
    if n is None:
        n = rng.choice([1, 1, 1, 2, 2, 3])
    names = rng.sample(ATTR_NAMES, n)
    if odd and n:
        names[rng.randrange(n)] = rng.choice(ODD_NAMES)
    out = []
    for nm in names:
        q = rng.choice(QUOTES)
        v = value(rng)
        if q == '"' and rng.random() < 0.05:
            v = ""
        elif q == "'" and rng.random() < sq_empty:
            v = ""          # a='' : the same empty value in the second quoting style (own tagged input class:
            #                 outside HTML tags the two apostrophes are also the italic token)
        out.append([nm, v, q, " = " if rng.random() < eqsp else "="])
    return out


# ---------------------------------------------------------------- inline content

def text(rng, cls=None):
    cls = cls or rng.choice(["w", "w", "w", "ww", "eq", "bang", "colon", "num", "punct", "uni"])
    w = word(rng)
    if cls == "w":
        return w
    if cls == "ww":
        return w + " " + word(rng)
    if cls == "eq":
        return w + rng.choice(["=", " = ", "=="]) + word(rng)
    if cls == "bang":
        return w + "!" + word(rng)
    if cls == "colon":
        return w + ":" + word(rng)
    if cls == "num":
        return str(rng.randrange(1000))
    if cls == "punct":
        return w + rng.choice([".", ",", ")", "(", "/", "-", ";", "?", "*", "#", "+"]) + word(rng)
    if cls == "bang2":          # only ever placed inside the argument of a call / link (there it is plain text)
        return w + "!!" + word(rng)
    if cls == "nlbang":
        return w + "\n!" + word(rng)
    if cls == "hline":
        return w + "\n----\n" + word(rng)
    return w + rng.choice(["é", "語", "ß", "Ж"]) + word(rng)


PFUNCS = ["#if", "#ifeq", "#switch", "#expr", "#iferror", "lc", "uc", "lcfirst", "ucfirst", "urlencode", "padleft", "#tag"]


def tname(rng):
    r = rng.random()
    n = "zq" + str(rng.randrange(30))
    if r < 0.1:
        n += " " + word(rng)
    return n


def arg_content(rng, depth, in_template, in_link=False):
    """content of one |-separated argument"""
    r = rng.random()
    if r < 0.12:
        return []
    if r < 0.5 or depth <= 0:
        s = text(rng, rng.choice(["w", "ww", "num", "bang", "uni", "colon", "eq", "punct"] * 8 + ["bang2", "nlbang", "hline"]))
        if rng.random() < 0.15:
            s = rng.choice([" ", "\n", "  "]) + s
        if rng.random() < 0.15:
            s = s + rng.choice([" ", "\n", " \n"])
        return [["x", s]]
    out = []
    for i in range(rng.randint(1, 3)):
        if out and out[-1][0] != "x":
            out.append(["x", " " + word(rng) + " "])
        out.append(item(rng, depth - 1, in_template=in_template, allow=(("x", "T", "L", "A", "P") if in_link else ("x", "T", "L", "A", "U", "P")) if in_template
                        else ("x", "T", "L", "I", "B", "H")))
    return out


def template(rng, depth, nargs=None):
    if nargs is None:
        nargs = rng.choice([0, 1, 1, 2, 2, 3, 4, 5])
    args = []
    for _ in range(nargs):
        if rng.random() < 0.35:
            key = rng.choice([word(rng), str(rng.randint(1, 5)), word(rng) + " " + word(rng), " " + word(rng) + " "])
            args.append(["n", key, arg_content(rng, depth, True)])
        else:
            args.append(["p", arg_content(rng, depth, True)])
    nm = [["x", tname(rng)]]
    if rng.random() < 0.08:
        nm = [["x", nm[0][1] + rng.choice(["\n", " "])]]
    return ["T", nm, args]


def parserfn(rng, depth, nargs=None):
    """{{name:arg|arg...}} -- a call whose name is one of the parser-function names"""
    if nargs is None:
        nargs = rng.choice([1, 1, 2, 2, 3, 4])
    args = [arg_content(rng, depth, True) for _ in range(max(1, nargs))]
    return ["P", rng.choice(PFUNCS), args]


def link(rng, depth, nargs=None, in_template=False):
    if nargs is None:
        nargs = rng.choice([0, 0, 1, 1, 1, 2, 3, 4, 5])
    tgt = rng.choice([word(rng), word(rng) + " " + word(rng), "Category:" + word(rng), "File:" + word(rng) + ".png",
                      ":" + word(rng), "w:" + word(rng), word(rng) + "/" + word(rng)])
    args = [[["x", tgt]]]
    for _ in range(nargs):
        args.append(arg_content(rng, depth, in_template, in_link=True))
    # a link whose every further argument is blank is not a link with the written arguments in any
    # reading ("pipe trick"); keep the last argument non-empty
    if nargs and not args[-1]:
        args[-1] = [["x", word(rng)]]
    return ["L", args]


def url_starts():
    """protocols the package declares for bracketed external links (domain table, like the tag table)"""
    from wikitextprocessor.common import URL_STARTS
    return list(URL_STARTS)


def url(rng, punct=False, scheme=None):
    if scheme is None:
        scheme = rng.choice(["http://", "https://", "//", "http://", "https://"]) if rng.random() < 0.88 else rng.choice(url_starts())
    if not scheme.endswith("//"):           # mailto:
        u = scheme + word(rng) + "@" + word(rng) + ".org"
        return u + (rng.choice([".", "!", "?", ","]) if punct else "")
    u = scheme + word(rng) + "." + rng.choice(["org", "example", "x1"])
    if rng.random() < 0.7:
        u += "/" + word(rng)
        if rng.random() < 0.3:
            u += rng.choice(["/", "?q=1", "#frag", ".html", "/a_b", "/~u", "?a=1&b=2"])
    if punct:
        u += rng.choice([".", "!", "?", ","])
    return u


def extlink(rng, depth, punct=False, scheme=None, rich=True):
    u = url(rng, punct, scheme)
    r = rng.random()
    if r < 0.25:
        return ["U", u, None]
    c = [["x", text(rng, rng.choice(["w", "ww", "ww", "bang", "num"]))]]
    if depth > 0 and rng.random() < 0.3:
        c.append(["x", " "])
        it = item(rng, 0, allow=("I", "B", "H", "T", "br") if rich else ("I", "B", "T"))
        if it[0] == "H" and len(it) > 5 and "\n" in it[5]:
            it[5] = "\t"         # a bracketed external link is written on one line
        c.append(it)
        c.append(["x", " " + word(rng)])
    return ["U", u, c]


def element(rng, depth, tag=None, nattrs=None, odd=False, content=None):
    tag = tag or rng.choice(["span", "span", "b", "i", "sup", "sub", "small", "code", "u", "s", "em", "strong", "cite", "q"])
    at = attrs(rng, nattrs if nattrs is not None else rng.choice([0, 0, 1, 1, 2, 3]), odd=odd)
    if content is None:
        content = inline(rng, depth - 1, n=rng.randint(1, 2)) if depth > 0 else [["x", word(rng)]]
    r = rng.random()
    if r < 0.06:
        tag = tag.upper()
    elif r < 0.1:
        tag = tag[0].upper() + tag[1:]
    it = ["H", tag, at, content, " " if rng.random() < 0.05 else ""]
    if at and rng.random() < 0.06:
        it.append(rng.choice(["\n", "\t", "  ", " \n", "\n "]))      # white space between tag name / attributes
    return it


def void(rng):
    """<br>, <br/>, <br />, <wbr>, sometimes with attributes"""
    at = attrs(rng, 1) if rng.random() < 0.2 else []
    sl = rng.choice(["", "", "/", " /"])
    if at and at[-1][2] == "" and sl == "/":
        sl = " /"           # value/ would be a different bare value
    return ["H", rng.choice(["br", "br", "br", "wbr", "BR"]), at, None, sl]


def item(rng, depth, in_template=False, allow=("x", "T", "L", "U", "B", "I", "H", "br")):
    k = rng.choice(allow)
    if k == "x":
        return ["x", text(rng)]
    if k == "T":
        return template(rng, depth)
    if k == "A":
        n = rng.randint(1, 2)
        return ["A", [[["x", rng.choice([word(rng), str(rng.randint(1, 9))])]]] + [arg_content(rng, 0, True) for _ in range(n - 1)]]
    if k == "P":
        return parserfn(rng, depth)
    if k == "L":
        return link(rng, depth, in_template=in_template)
    if k == "U":
        return extlink(rng, 0 if in_template else depth, rich=not in_template)
    if k in ("B", "I"):
        c = [["x", text(rng, rng.choice(["w", "ww", "eq", "bang"]))]]
        if depth > 0 and rng.random() < 0.3:
            c += [["x", " "], item(rng, depth - 1, allow=("T", "L", "H")), ["x", " " + word(rng)]]
        return [k, c]
    if k == "H":
        return element(rng, depth)
    if k == "br":
        return void(rng)
    raise ValueError(k)


def glue(items):
    """separate neighbours so that no token is created by juxtaposition (link trail, ''''' runs,
    [[ ]] next to [ ]) -- each written construct stays the construct that was written"""
    out = []
    for it in items:
        if out:
            p = out[-1]
            need = False
            if p[0] == "L" and (it[0] != "x" or it[1][:1].isalnum() or it[1][:1] in "_éß語Ж"):
                need = True
            if p[0] in ("B", "I") and it[0] in ("B", "I"):
                need = True
            if p[0] in ("B", "I") and it[0] == "x" and it[1].startswith("'"):
                need = True
            if p[0] != "x" and it[0] != "x":
                need = True
            if need:
                out.append(["x", " "])
        out.append(it)
    return out


def inline(rng, depth, n=None, allow=("x", "T", "L", "U", "B", "I", "H", "br", "P", "A")):
    n = n or rng.randint(1, 4)
    items = []
    nb = 0
    for _ in range(n):
        it = item(rng, depth, allow=allow)
        if it[0] in ("B", "I"):
            nb += 1
            if nb > 1:      # one bold/italic run per line: ''' grouping across runs is a different property
                it = ["x", word(rng)]
        items.append(it)
    return glue(items)


# ---------------------------------------------------------------- cell catalogue

CELL_CLASSES = ["text", "text2", "eq", "bang", "colon", "num", "punct", "T0", "Tpos", "Tnamed", "Tmix", "L", "Lpipe", "Lns",
                "U", "B", "I", "BI", "span", "spanattr", "br", "empty", "mix", "Pfn", "callbang2", "Aref"]


def cell_content(rng, cls):
    w = word(rng)
    if cls == "text":
        return [["x", w]]
    if cls == "text2":
        return [["x", w + " " + word(rng)]]
    if cls == "eq":
        return [["x", text(rng, "eq")]]
    if cls == "bang":
        return [["x", text(rng, "bang")]]
    if cls == "colon":
        return [["x", text(rng, "colon")]]
    if cls == "num":
        return [["x", str(rng.randrange(1000))]]
    if cls == "punct":
        return [["x", w + rng.choice([".", ",", ")", "(", "/", ";", "?"]) + word(rng)]]
    if cls == "T0":
        return [["T", [["x", tname(rng)]], []]]
    if cls == "Tpos":
        return [["T", [["x", tname(rng)]], [["p", [["x", w]]]]]]
    if cls == "Tnamed":
        return [["T", [["x", tname(rng)]], [["n", word(rng), [["x", w]]]]]]
    if cls == "Tmix":
        return [template(rng, 1, nargs=rng.randint(2, 4))]
    if cls == "L":
        return [["L", [[["x", w]]]]]
    if cls == "Lpipe":
        return [["L", [[["x", w]], [["x", word(rng)]]]]]
    if cls == "Lns":
        return [["L", [[["x", "Category:" + w]]]], ["x", " " + word(rng)]]
    if cls == "U":
        return [extlink(rng, 0)]
    if cls == "B":
        return [["B", [["x", w]]]]
    if cls == "I":
        return [["I", [["x", w]]]]
    if cls == "BI":
        return [["B", [["x", w + " "], ["I", [["x", word(rng)]]], ["x", " " + word(rng)]]]]
    if cls == "span":
        return [["H", "span", [], [["x", w]], ""]]
    if cls == "spanattr":
        return [["H", "span", attrs(rng, 1), [["x", w]], ""]]
    if cls == "br":
        return [["x", w], void(rng), ["x", word(rng)]]
    if cls == "empty":
        return []
    if cls == "Pfn":
        return [["P", rng.choice(PFUNCS), [[["x", w]]] + [[["x", word(rng)]] for _ in range(rng.randint(0, 2))]]]
    if cls == "callbang2":
        # "!!" / a line starting with "!" inside the argument of a call or link: part of that argument
        cls = rng.choice(["Pbang2", "Pbang2", "Tbang2", "Lbang2", "Abang2"])
        b = [["x", text(rng, rng.choice(["bang2", "bang2", "nlbang"]))]]
        if cls == "Abang2":
            return [["A", [[["x", str(rng.randint(1, 9))]], b]]]
        if cls == "Pbang2":
            return [["P", rng.choice(PFUNCS), rng.choice([[b], [[["x", w]], b], [[["x", w]], b, [["x", word(rng)]]]])]]
        if cls == "Tbang2":
            return [["T", [["x", tname(rng)]], [rng.choice([["p", b], ["n", word(rng), b]])] + ([["p", [["x", w]]]] if rng.random() < 0.5 else [])]]
        return [["L", [[["x", w]], b]]]
    if cls == "Aref":
        d = [["x", text(rng, rng.choice(["w", "ww", "eq", "num"]))]]
        return [["A", [[["x", str(rng.randint(1, 9))]]] + ([d] if rng.random() < 0.8 else [])]]
    if cls == "mix":
        c = inline(rng, 1, n=rng.randint(2, 3))
        if c and c[0][0] == "x" and c[0][1][:1] in "-+}*#:; ":
            c[0] = ["x", "w" + c[0][1]]
        return c
    raise ValueError(cls)


def cell(rng, h, cls=None, pattr=0.35, empty_ok=True):
    if cls is None:
        cls = rng.choice(CELL_CLASSES)
        if cls == "empty" and (not empty_ok or rng.random() < 0.5):
            cls = "text"
        if cls == "callbang2" and rng.random() < 0.5:
            cls = "Pfn"
    c = {"h": h, "attr": attrs(rng, sq_empty=0.02) if rng.random() < pattr else [], "pad": rng.choice(["", " ", " "]),
         "content": cell_content(rng, cls), "nl": True, "sep": "||", "cls": cls}
    if not c["content"] and c["attr"]:
        c["pad"] = " "      # "| attrs |" + "||" would fuse into the ||| run (ambiguous in every reading)
    return c


def layout(rng, cells, style):
    """assign nl/sep; a cell that continues a line has the kind of the first cell of that line"""
    for i, c in enumerate(cells):
        if i == 0 or style == "line" or (style == "mixed" and rng.random() < 0.5):
            c["nl"] = True
        else:
            c["nl"] = False
            c["h"] = cells[i - 1]["h"]
            c["sep"] = "!!" if (c["h"] and rng.random() < 0.6) else "||"
    return cells


def table(rng, r=None, c=None, style=None, cap=None, maxdim=4, classes=None):
    r = r or rng.randint(1, maxdim)
    c = c or rng.randint(1, maxdim)
    style = style or rng.choice(["line", "dbl", "dbl", "mixed"])
    rows = []
    for _ in range(r):
        hrow = rng.random() < 0.3
        cells = []
        for j in range(c):
            h = hrow if style == "dbl" else (rng.random() < 0.35)
            cells.append(cell(rng, h, cls=(rng.choice(classes) if classes else None)))
        rows.append({"attr": attrs(rng, sq_empty=0.02) if rng.random() < 0.3 else [], "cells": layout(rng, cells, style)})
    if cap is None:
        cap = rng.random() < 0.4
    sp = {"kind": "table", "style": style, "tattr": attrs(rng, sq_empty=0.02) if rng.random() < 0.5 else [],
          "cap": None, "capattr": [], "rows": rows, "marker": rng.random() < 0.85,
          "indent": "",     # leading blanks before the markers are not part of the statement (kept for replay only)
          "pre": rng.choice(["", "", word(rng) + " intro\n", word(rng) + "\n\n"]),
          "post": rng.choice(["", "\n", "\n" + word(rng) + " outro", "\n\n" + word(rng)])}
    if cap:
        sp["cap"] = cell_content(rng, rng.choice(["text", "text2", "B", "I", "L", "Lpipe", "Tpos", "Tnamed", "span", "eq", "bang"]))
        if rng.random() < 0.2:
            sp["capattr"] = attrs(rng, 1, sq_empty=0.02)
    return sp


# ---------------------------------------------------------------- HTML tag table (domain of the quantifier)

def tag_table():
    from wikitextprocessor.wikihtml import ALLOWED_HTML_TAGS
    return ALLOWED_HTML_TAGS


def paired_tags():
    return sorted(t for t, d in tag_table().items() if not d.get("no-end-tag"))


def parents_of(tag):
    """tags the table allows as parent of `tag` (explicit names, or a representative container for the
    content categories flow / phrasing / *)"""
    T = tag_table()
    out = []
    for p in T[tag].get("parents", []):
        if p in T:
            out.append(p)
        elif p == "phrasing":
            out += ["span", "div"]
        elif p in ("flow", "*"):
            out += ["div", "blockquote"]
    # the representative must itself accept that category as content
    ok = []
    for p in out:
        cont = T[p].get("content", [])
        if tag in cont or "*" in cont or "flow" in cont or ("phrasing" in cont and "phrasing" in T[tag].get("parents", [])) \
                or p in T[tag].get("parents", []):
            ok.append(p)
    return ok or out


def accepts_phrasing(tag):
    cont = tag_table()[tag].get("content", [])
    return "phrasing" in cont or "flow" in cont or "*" in cont


def html_case(rng, tag, nattrs, quote=None, content_cls=None, parent=None, odd=False):
    cc = content_cls or rng.choice(["text", "ww", "T", "L", "B", "nested", "empty"])
    if cc == "nested" and not accepts_phrasing(tag):
        cc = "text"
    w = word(rng)
    if cc == "text":
        content = [["x", w]]
    elif cc == "ww":
        content = [["x", w + " " + word(rng) + "=" + word(rng)]]
    elif cc == "T":
        content = [template(rng, 0, nargs=rng.randint(0, 2))]
    elif cc == "L":
        content = [["x", w + " "], link(rng, 0, nargs=rng.randint(0, 1))]
    elif cc == "B":
        content = [["x", w + " "], [rng.choice("BI"), [["x", word(rng)]]], ["x", " " + word(rng)]]
    elif cc == "nested":
        content = [["x", w + " "], element(rng, 0), ["x", " " + word(rng)]]
    else:
        content = []
    el = element(rng, 0, tag=tag, nattrs=nattrs, odd=odd, content=content)
    if quote is not None:
        for a in el[2]:
            a[2] = quote
            if quote == "" and a[1] == "":
                a[1] = "v"
    if parent:
        ptag = parent
        el = ["H", ptag, attrs(rng, rng.choice([0, 0, 1])), [el], ""]
    pre = rng.choice(["", word(rng) + " ", word(rng) + " "])
    post = rng.choice(["", " " + word(rng)])
    items = ([["x", pre]] if pre else []) + [el] + ([["x", post]] if post else [])
    return {"kind": "inline", "focus": "html", "items": items, "tag": tag, "nattrs": nattrs, "parent": parent, "cc": cc}


def call_case(rng, focus, depth=2, nargs=None, punct=False, scheme=None):
    if focus == "template":
        it = template(rng, depth, nargs)
    elif focus == "parserfn":
        it = parserfn(rng, depth, nargs)
    elif focus == "targ":
        it = item(rng, depth, allow=("A",))
    elif focus == "link":
        it = link(rng, depth, nargs)
    elif focus == "extlink":
        it = extlink(rng, 1, punct=punct, scheme=scheme)
    else:
        raise ValueError(focus)
    pre = rng.choice(["", word(rng) + " ", word(rng) + " ("])
    post = rng.choice(["", " " + word(rng), ") " + word(rng), ", " + word(rng)])
    items = ([["x", pre]] if pre else []) + [it] + ([["x", post]] if post else [])
    return {"kind": "inline", "focus": focus, "items": items}


ARGK = ["empty", "text", "named", "tmpl", "link", "ws"]


def arg_of_kind(rng, k, in_template):
    w = word(rng)
    if k == "empty":
        c = []
    elif k == "text":
        c = [["x", w]]
    elif k == "named":
        return ["n", word(rng), [["x", w]]] if in_template else [["x", word(rng) + "=" + w]]
    elif k == "tmpl":
        c = [["T", [["x", tname(rng)]], [["p", [["x", w]]]]]]
    elif k == "link":
        c = [["L", [[["x", w]], [["x", word(rng)]]]]]
    else:
        c = [["x", " " + w + " "]]
    return ["p", c] if in_template else c


def call_sweep(maxlen):
    """all sequences of argument kinds up to maxlen, for templates and links"""
    for n in range(maxlen + 1):
        for seq in itertools.product(ARGK, repeat=n):
            for focus in ("template", "link"):
                yield focus, seq


def call_from_seq(rng, focus, seq):
    if focus == "template":
        it = ["T", [["x", tname(rng)]], [arg_of_kind(rng, k, True) for k in seq]]
    else:
        args = [[["x", word(rng)]]] + [arg_of_kind(rng, k, False) for k in seq]
        if len(args) > 1 and (not args[-1] or (args[-1][0][0] == "x" and not args[-1][0][1].strip())):
            args[-1] = [["x", word(rng)]]
        it = ["L", args]
    return {"kind": "inline", "focus": focus, "items": [["x", word(rng) + " "], it, ["x", " " + word(rng)]]}
