"""C11 scenarios: generation (seeded) and execution of scenario scripts against the real package.

A scenario is a chain of processes working on one database path:
    setup processes (each runs its script to the end, then closes cleanly or just exits)
    + one victim process in which every kill point is enumerated.
A script is a list of ops:
    ["open"]                                   ctx = Wtp(db_path=...)
    ["add", row]                               ctx.add_page(...)             row = [title, ns, body, redirect_to, model]
    ["commit"]                                 ctx.db_conn.commit()
    ["backup"]                                 ctx.backup_db()
    ["override", input, how, rows]             how = "analyze": analyze_and_overwrite_pages(ctx, [input], True, None)
                                               how = "process_dump": process_dump(ctx, <unused>, None, [input], True)
                                               how = "overwrite_pages": overwrite_pages(ctx, [input], True)  (no backup)
                                               rows = the writes the input asks for (read by the reference model only)
    ["read"]                                   list(ctx.get_all_pages())
    ["reader-start"] / ["reader-stop"]         a forked process takes / releases a read snapshot (BEGIN + SELECT) on the db
    ["close"]                                  ctx.close_db_conn()
A script that does not end with "close" ends with os._exit(0) (no cleanup).

While a script runs, observation hooks write marks (one JSON array per line, os.writev on an O_APPEND
file, so that they survive the kill and are not `write`/`pwrite64` syscalls):
    ["proc"], ["op", j, "b"|"e"], ["w", title, ns] (add_page called), ["cb"]/["ce"] (commit begin/end on the
    page-db connection), ["bb"]/["be"] (backup_db begin/end), ["kill", k, function, line], ["seen", digest] (all rows read right after Wtp() returned).

`python -m vf.gen.c11_scn <casedir>` runs casedir/victim.json (used under strace).
"""
from __future__ import annotations

import json
import os
import sys

DBNAME = "pages.db"
# (file name, class): names that are legal on every POSIX file system but hostile to glob / shell / URI style handling
DBNAMES = [("pages.db", "ordinary"), ("pages[en].db", "glob-metachar"), ("p*g?s.db", "glob-metachar"), ("a b.db", "space"),
           ("\u00fcn\u00ef.db", "non-ascii"), ("-pages.db", "leading-dash"), ("100%.db", "percent")]
SIDE = ["pages.db", "pages.db-wal", "pages.db-shm", "pages_backup.db", "pages_backup.db-journal",
        "pages_backup.db-wal", "pages_backup.db-shm"]

KINDS = ["override-json", "plain-backup", "restore-killed", "process-dump", "double-backup",
         "no-backup", "override-dir", "rerun-override", "backup-with-reader"]

# large pages, ONE big uncommitted overwrite transaction (bigger than SQLite's page cache); kill points sampled
BULK_KINDS = ["bulk-overwrite", "bulk-overwrite-backup"]

NS_PREFIX = {10: "Template:", 0: "", 828: "Module:", 14: "Category:", 100: "Appendix:"}
ALPHA = "abcdefghijklmnopqrstuvwxyz" * 3 + "ABCDEXYZ" + "     \n\n" + "{}[]|='*#:;&\"%" + "äßéю語字🙂"
NAMECH = "abcdefghijklmnopqrstuvwxyz" * 2 + " '-/." + "äé語"


def rand_body(rng):
    r = rng.random()
    if r < 0.7:
        n = rng.randint(0, 400)
    elif r < 0.9:
        n = rng.randint(1000, 4500)
    else:
        n = rng.randint(5000, 30000)
    if n > 600:
        chunk = "".join(rng.choice(ALPHA) for _ in range(97))
        s = (chunk * (n // 97 + 1))[:n]
    else:
        s = "".join(rng.choice(ALPHA) for _ in range(n))
    return s


def rand_name(rng, i):
    n = rng.randint(1, 12)
    s = "".join(rng.choice(NAMECH) for _ in range(n)).strip()
    s = " ".join(s.split())
    return (s or "p") + "%d" % i


def gen_pages(rng, n, start=0, defaults=True):
    rows = []
    for i in range(start, start + n):
        ns = rng.choice([10, 10, 10, 0, 0, 828, 14, 100])
        title = NS_PREFIX[ns] + rand_name(rng, i)
        model = "Scribunto" if ns == 828 else ("json" if rng.random() < 0.05 else "wikitext")
        if rows and rng.random() < 0.1:
            rows.append([title, ns, None, rng.choice(rows)[0], model])
        else:
            rows.append([title, ns, rand_body(rng), None, model])
    if defaults:
        # some of the default templates may already be there (with another body)
        for t in ("Template:!", "Template:=", "Template:((", "Template:))"):
            if rng.random() < 0.3:
                rows.append([t, 10, rand_body(rng)[:50] + "d", None, "wikitext"])
    return rows


def gen_writes(rng, pages, n, tag, dirfmt=False, new_start=1000, want_template=None):
    """n writes: mostly new versions of existing pages, some new pages."""
    out = []
    cand = list(pages)
    if dirfmt:
        cand = [p for p in cand if p[1] in (0, 10) and p[3] is None and p[4] == "wikitext"]
    if want_template is True:
        cand.sort(key=lambda p: p[1] != 10)          # templates first
    elif want_template is False:
        cand = [p for p in cand if p[1] != 10]
    else:
        rng.shuffle(cand)
    used = set()
    for i in range(n):
        if cand and (rng.random() < 0.8 or want_template is True and i == 0):
            p = cand.pop(0) if want_template is True and i == 0 else cand.pop(rng.randrange(len(cand)))
            title, ns, model = p[0], p[1], p[4]
        else:
            ns = rng.choice([0, 10] if (dirfmt and want_template is not False) else ([0, 14, 828] if want_template is False else [0, 10, 828]))
            if dirfmt and want_template is False:
                ns = 0
            title = NS_PREFIX[ns] + rand_name(rng, new_start + i)
            model = "Scribunto" if ns == 828 else "wikitext"
        if title in used:
            continue
        used.add(title)
        if not dirfmt and rng.random() < 0.08 and pages:
            out.append([title, ns, None, rng.choice(pages)[0], model])
        else:
            body = tag + " " + rand_body(rng)
            if dirfmt:
                body = body.replace("\r", "")
            out.append([title, ns, body, None, model])
    return out


def make_input(name, rows, dirfmt):
    if dirfmt:
        return {"type": "dir", "files": [["f%03d.txt" % i, "TITLE: " + r[0] + "\n" + r[2]] for i, r in enumerate(rows)]}
    data = {}
    for r in rows:
        data[r[0]] = {"namespace_id": r[1], "body": r[2], "redirect_to": r[3], "model": r[4]}
    return {"type": "json", "data": data}


def adds(rows):
    return [["add", r] for r in rows]


def big_body(rng, tag, lo, hi):
    n = rng.randint(lo, hi)
    chunk = "".join(rng.choice(ALPHA) for _ in range(211))
    return (tag + " " + chunk * (n // 211 + 1))[:n]


def gen_bulk_scenario(rng, kind):
    """200-260 pages of 12-20 kB; every page overwritten (14-24 kB) by ONE overwrite_pages() call = one
    transaction of 3-6 MB that is committed only by the last line of overwrite_pages()."""
    n = rng.randint(200, 260)
    init = []
    for i in range(n):
        ns = rng.choice([0, 0, 10, 828, 100])
        model = "Scribunto" if ns == 828 else "wikitext"
        init.append([NS_PREFIX[ns] + rand_name(rng, i), ns, big_body(rng, "V1 %d" % i, 12000, 20000), None, model])
    start = rng.choice(["closed", "killed"])
    s0 = [["open"]] + adds(init) + [["commit"]]
    if start == "closed":
        s0.append(["close"])
    order = list(init)
    rng.shuffle(order)
    rows = [[p[0], p[1], big_body(rng, "V2", 14000, 24000), None, p[4]] for p in order]
    for i in range(rng.randint(0, 5)):
        rows.insert(rng.randrange(len(rows) + 1), ["bulknew %d" % i, 0, big_body(rng, "N", 100, 20000), None, "wikitext"])
    inputs = {"ov1": make_input("ov1", rows, False)}
    close = rng.random() < 0.5
    tags = {"kind": kind, "start": start, "close": close, "bulk_pages": n,
            "bulk_bytes_MB": round(sum(len(r[2]) for r in rows) / 1e6, 1)}
    v = [["open"]]
    if kind == "bulk-overwrite-backup":
        if rng.random() < 0.5:
            v += [["backup"], ["override", "ov1", "overwrite_pages", rows]]
            tags["how"] = "backup_db+overwrite_pages"
        else:
            v.append(["override", "ov1", "analyze", rows])
            tags["how"] = "analyze"
    else:
        v.append(["override", "ov1", "overwrite_pages", rows])
        tags["how"] = "overwrite_pages"
    if close:
        v.append(["close"])
    return {"kind": kind, "tags": tags, "setup": [s0], "victim": v, "inputs": inputs, "npages": n}


def gen_scenario(rng, kind, scale, dbname=("pages.db", "ordinary")):
    """scale: rough number of pages (small in quick, larger in thorough)."""
    scn = gen_bulk_scenario(rng, kind) if kind in BULK_KINDS else _gen_scenario(rng, kind, scale)
    scn["dbname"] = dbname[0]
    scn["tags"]["dbname"] = dbname[1]
    return scn


def _gen_scenario(rng, kind, scale):
    n = rng.randint(max(3, scale // 2), scale)
    init = gen_pages(rng, n)
    start = rng.choice(["closed", "killed", "mixed"])
    setup = []
    if start == "mixed" and len(init) >= 2:
        h = rng.randint(1, len(init) - 1)
        setup.append([["open"]] + adds(init[:h]) + [["commit"], ["close"]])
        setup.append([["open"]] + adds(init[h:]) + [["commit"]])
    else:
        s0 = [["open"]] + adds(init) + [["commit"]]
        if rng.random() < 0.3 and len(init) > 2:
            s0.insert(1 + len(init) // 2, ["commit"])
        if start != "killed":
            s0.append(["close"])
            start = "closed"
        setup.append(s0)
    nw = max(1, min(len(init), rng.randint(max(1, scale // 6), max(2, scale // 3))))
    inputs = {}
    close = rng.random() < 0.5
    tags = {"kind": kind, "start": start, "close": close}
    v = [["open"]]
    if kind in ("override-json", "override-dir", "process-dump"):
        dirfmt = kind == "override-dir"
        how = "process_dump" if kind == "process-dump" else rng.choice(["analyze", "analyze", "process_dump"])
        want_t = rng.choice([True, False])
        rows = gen_writes(rng, init, nw, "OV1", dirfmt=dirfmt, want_template=want_t)
        inputs["ov1"] = make_input("ov1", rows, dirfmt)
        if rng.random() < 0.4:
            v += adds(gen_writes(rng, init, rng.randint(1, 2), "PRE", new_start=2000))
            tags["pending_before"] = True
        v.append(["override", "ov1", how, rows])
        tags["how"] = how
        tags["has_template"] = any(r[1] == 10 for r in rows)
        if rng.random() < 0.5:
            v += adds(gen_writes(rng, init, rng.randint(1, 2), "LATE", new_start=3000))
            if rng.random() < 0.4:
                v.append(["commit"])
    elif kind == "plain-backup":
        if rng.random() < 0.6:
            v += adds(gen_writes(rng, init, rng.randint(1, 3), "PRE", new_start=2000))
            tags["pending_before"] = True
            if rng.random() < 0.3:
                v.append(["commit"])
        v.append(["backup"])
        v += adds(gen_writes(rng, init, nw, "NEW1")) + [["commit"]]
        v += adds(gen_writes(rng, init, max(1, nw // 2), "NEW2", new_start=3000))
        if rng.random() < 0.5:
            v.append(["commit"])
    elif kind == "restore-killed":
        p1 = [["open"]]
        if rng.random() < 0.4:
            p1 += adds(gen_writes(rng, init, 1, "PRE", new_start=2000))
        p1.append(["backup"])
        p1 += adds(gen_writes(rng, init, nw, "NEW1")) + [["commit"]]
        if rng.random() < 0.5:
            p1 += adds(gen_writes(rng, init, 1, "UNC", new_start=3000))
        p1close = rng.random() < 0.35
        if p1close:
            p1.append(["close"])
        tags["prev_run_closed"] = p1close
        setup.append(p1)
        v.append(["read"])
        if rng.random() < 0.5:
            v += adds(gen_writes(rng, init, rng.randint(1, 2), "AFT", new_start=4000)) + [["commit"]]
    elif kind == "double-backup":
        v.append(["backup"])
        v += adds(gen_writes(rng, init, nw, "NEW1")) + [["commit"]]
        if rng.random() < 0.6:
            v += adds(gen_writes(rng, init, 1, "PEND", new_start=2000))
            tags["pending_before"] = True
        v.append(["backup"])
        v += adds(gen_writes(rng, init, max(1, nw // 2), "NEW2", new_start=3000)) + [["commit"]]
    elif kind == "no-backup":
        v += adds(gen_writes(rng, init, nw, "NEW1")) + [["commit"]]
        v += adds(gen_writes(rng, init, max(1, nw // 2), "NEW2", new_start=2000)) + [["commit"]]
        v += adds(gen_writes(rng, init, 1, "UNC", new_start=3000))
        if rng.random() < 0.5:
            v.append(["read"])
    elif kind == "backup-with-reader":
        # another process holds a read snapshot (BEGIN + SELECT) from before the victim's commits until after
        # backup_db(): the completed backup must still contain everything committed before backup_db() was called
        v = [["reader-start"], ["open"]]
        v += adds(gen_writes(rng, init, nw, "R1", new_start=2000)) + [["commit"]]
        if rng.random() < 0.5:
            v += adds(gen_writes(rng, init, rng.randint(1, 2), "R2", new_start=2500))
            tags["pending_before"] = True
        if rng.random() < 0.6:
            v.append(["backup"])
            tags["how"] = "backup_db"
        else:
            rows = gen_writes(rng, init, nw, "OV1", want_template=rng.choice([True, False]))
            inputs["ov1"] = make_input("ov1", rows, False)
            v.append(["override", "ov1", "analyze", rows])
            tags["how"] = "analyze"
        v += adds(gen_writes(rng, init, max(1, nw // 2), "NEW", new_start=3000)) + [["commit"]]
        if rng.random() < 0.5:
            v.append(["reader-stop"])
            tags["reader_stopped_before_end"] = True
    elif kind == "rerun-override":
        rows1 = gen_writes(rng, init, nw, "OV1", want_template=rng.choice([True, False]))
        inputs["ov1"] = make_input("ov1", rows1, False)
        p1 = [["open"], ["override", "ov1", "process_dump", rows1]]
        p1close = rng.random() < 0.7
        if p1close:
            p1.append(["close"])
        tags["prev_run_closed"] = p1close
        setup.append(p1)
        rows2 = gen_writes(rng, init, nw, "OV2", new_start=5000, want_template=rng.choice([True, False]))
        inputs["ov2"] = make_input("ov2", rows2, False)
        v.append(["override", "ov2", "process_dump", rows2])
        tags["how"] = "process_dump"
    else:
        raise ValueError(kind)
    if close:
        v.append(["close"])
    return {"kind": kind, "tags": tags, "setup": setup, "victim": v, "inputs": inputs, "npages": len(init)}


# ---------------------------------------------------------------------------
# execution

def write_inputs(scn, indir):
    os.makedirs(indir, exist_ok=True)
    for name, inp in scn["inputs"].items():
        if inp["type"] == "json":
            with open(os.path.join(indir, name + ".json"), "w", encoding="utf-8") as f:
                json.dump(inp["data"], f, ensure_ascii=False)
        else:
            d = os.path.join(indir, name)
            os.makedirs(d, exist_ok=True)
            for fn, text in inp["files"]:
                with open(os.path.join(d, fn), "w", encoding="utf-8", newline="") as f:
                    f.write(text)


def input_path(scn_inputs_type, indir, name):
    from pathlib import Path
    return Path(os.path.join(indir, name + (".json" if scn_inputs_type == "json" else "")))


class Marker:
    def __init__(self, path):
        self.fd = os.open(path, os.O_WRONLY | os.O_APPEND | os.O_CREAT, 0o644)

    def __call__(self, ev):
        os.writev(self.fd, [(json.dumps(ev, ensure_ascii=True) + "\n").encode()])


def read_marks(path):
    out = []
    try:
        with open(path, "rb") as f:
            for ln in f.read().split(b"\n"):
                if ln.strip():
                    out.append(json.loads(ln))
    except FileNotFoundError:
        pass
    return out


_HOOKED = False


def install_hooks(mark, dbpath):
    """Observation hooks (in the scenario process only): commit / backup_db / add_page begin-end marks."""
    global _HOOKED
    import sqlite3
    import wikitextprocessor.core as core
    assert not _HOOKED
    _HOOKED = True
    dbpath = os.fspath(dbpath)

    class MarkConn(sqlite3.Connection):
        def __init__(self, database, *a, **kw):
            super().__init__(database, *a, **kw)
            self._vf_main = os.fspath(database) == dbpath

        def commit(self):
            if self._vf_main:
                mark(["cb"])
            super().commit()
            if self._vf_main:
                mark(["ce"])

    orig_connect = sqlite3.connect

    def connect(database, *a, **kw):
        kw.setdefault("factory", MarkConn)
        return orig_connect(database, *a, **kw)

    sqlite3.connect = connect
    orig_backup = core.Wtp.backup_db
    orig_add = core.Wtp.add_page

    def backup_db(self):
        mark(["bb"])
        r = orig_backup(self)
        mark(["be"])
        return r

    def add_page(self, title, namespace_id, *a, **kw):
        mark(["w", title, namespace_id])
        return orig_add(self, title, namespace_id, *a, **kw)

    core.Wtp.backup_db = backup_db
    core.Wtp.add_page = add_page


def start_reader(dbpath, mark):
    """Fork a process that takes a read snapshot of the page table (BEGIN + SELECT) and holds it until it is told to stop
    or this process dies (pipe EOF).  -> (pid, fd to write to / close)"""
    import sqlite3
    rr, rw = os.pipe()
    hr, hw = os.pipe()
    pid = os.fork()
    if pid == 0:
        try:
            sys.settrace(None)
            os.close(rr)
            os.close(hw)
            conn = sqlite3.connect(dbpath, isolation_level=None)
            conn.execute("BEGIN")
            conn.execute("SELECT count(*) FROM pages").fetchall()
            os.write(rw, b"r")
            os.read(hr, 1)
            conn.execute("COMMIT")
            conn.close()
        finally:
            os._exit(0)
    os.close(rw)
    os.close(hr)
    os.read(rr, 1)
    os.close(rr)
    mark(["reader", pid])
    return pid, hw


def run_script(script, dbpath, indir, input_types, mark, point=None, skip_reader=False):
    """Run one process' script.  point(name, j) is called at every op boundary (kill point family 'op')."""
    from pathlib import Path
    from wikitextprocessor import Wtp
    import wikitextprocessor.dumpparser as DP
    from vf.ref.c11_restore import digest
    ctx = None
    reader = None
    mark(["proc"])
    for j, op in enumerate(script):
        if point is not None:
            point("op:" + op[0], j)
        mark(["op", j, "b"])
        k = op[0]
        if k == "open":
            ctx = Wtp(db_path=dbpath, quiet_output=True, quiet=True)
            # what this process sees right after opening (digest only; read by the reference model)
            mark(["seen", digest([p.title, p.namespace_id, p.body, p.redirect_to, p.model, bool(p.need_pre_expand)]
                                 for p in ctx.get_all_pages())])
        elif k == "add":
            t, ns, body, redir, model = op[1][:5]
            ctx.add_page(t, ns, body, redir, False, model)
        elif k == "commit":
            ctx.db_conn.commit()
        elif k == "backup":
            ctx.backup_db()
        elif k == "override":
            p = input_path(input_types[op[1]], indir, op[1])
            if op[2] == "analyze":
                DP.analyze_and_overwrite_pages(ctx, [p], True, None)
            elif op[2] == "overwrite_pages":
                DP.overwrite_pages(ctx, [p], True)
            else:
                DP.process_dump(ctx, "/nonexistent/dump.xml.bz2", None, [p], True)
        elif k == "read":
            for _ in ctx.get_all_pages():
                pass
        elif k == "close":
            ctx.close_db_conn()
        elif k == "reader-start":
            if not skip_reader:
                reader = start_reader(dbpath, mark)
        elif k == "reader-stop":
            if reader is not None:
                os.write(reader[1], b"x")
                os.close(reader[1])
                os.waitpid(reader[0], 0)
                reader = None
        else:
            raise ValueError(op)
        mark(["op", j, "e"])
    if point is not None:
        point("op:end", len(script))


def main(argv):
    case = argv[1]
    with open(os.path.join(case, "victim.json"), encoding="utf-8") as f:
        v = json.load(f)
    from vf.core import shard
    shard.prepare()
    mark = Marker(os.path.join(case, "marks"))
    install_hooks(mark, v["db"])
    run_script(v["script"], v["db"], v["in"], v["input_types"], mark, skip_reader=bool(v.get("skip_reader")))
    os._exit(0)


if __name__ == "__main__":
    main(sys.argv)
