"""Generators of template libraries (inclusion graphs) for C17.  See vf/ref/c17_closure.py for the format."""
from __future__ import annotations

NS = "Template:"
EXH_NAMES = ["A", "B b", "E\u0301c"]     # the third title is NOT in Unicode NFC (E + combining acute)

# bare titles as stored; deliberately hostile spellings (blank, unicode, lower-case stored initial and its
# upper-case twin, subpage, quote characters, percent, digit initial, inner colon, double blank)
POOL = ["A", "B b", "c", "C", "Éa", "ж", "中文", "en-noun", "D/doc", "O'Neil", 'x"y', "100%", "1st", "Q:r",
        "Long  name", "Zz top", "é", "Ωmega",
        # titles that are NOT in Unicode normalisation form C, stored verbatim and used with the same code points:
        # base letter + combining mark, wrong combining order, singletons that only exist decomposed/compat
        # (OHM SIGN, ANGSTROM SIGN), conjoining Hangul jamo, a lower-case stored decomposed initial
        "Cafe\u0301 head", "Re\u0301sume\u0301", "\u2126hm", "\u212bngstrom", "\u1112\u1161\u11ab\u1100\u1173\u11af",
        "Da\u0307\u0323t", "e\u0301t"]
ABSENT = ["Nowhere", "Gone away", "zz"]


# ---------------------------------------------------------------- bounded-exhaustive part

def exh_size(n):
    return (n + 1) ** n * 2 ** n * 2 ** (n * n)


def exh_plain_size(n):
    """Indices [0, this) are the graphs without redirect pages."""
    return 2 ** n * 2 ** (n * n)


def exh_decode(n, k):
    """k-th library on n templates: every adjacency matrix x flag set x redirect placement
    (each page plain or redirect to any of the n pages, itself included); canonical names."""
    adj = k % (2 ** (n * n))
    k //= 2 ** (n * n)
    flags = k % (2 ** n)
    k //= 2 ** n
    kinds = []
    for _ in range(n):
        kinds.append(k % (n + 1))
        k //= n + 1
    pages = []
    for i in range(n):
        u = [EXH_NAMES[j] for j in range(n) if adj >> (i * n + j) & 1]
        r = None if kinds[i] == 0 else NS + EXH_NAMES[kinds[i] - 1]
        pages.append({"t": NS + EXH_NAMES[i], "r": r, "u": u, "f": flags >> i & 1})
    return {"pages": pages}


# ---------------------------------------------------------------- random part

def variants(b):
    """Non-canonical spellings of bare title b that the page store resolves to the same page."""
    out = []
    low = b[:1].lower() + b[1:]
    und = b.replace(" ", "_")
    if low != b and low[:1].upper() == b[:1]:
        out += [("lower-initial", low), ("prefix+lower-initial", NS + low), ("alias+lower-initial", "t:" + low)]
    out += [("prefix", NS + b), ("prefix-othercase", "template:" + b), ("prefix-othercase", "TEMPLATE:" + b),
            ("alias", "T:" + b), ("alias", "t:" + b)]
    if und != b:
        out += [("underscore", und), ("prefix+underscore", NS + und)]
        if low != b and low[:1].upper() == b[:1]:
            out.append(("underscore+lower-initial", low.replace(" ", "_")))
    return out


SHAPES = ["random", "random", "random", "chain", "ring", "diamond", "star-in", "star-out", "complete", "two-rings",
          "tree", "ladder"]


def _edges(rng, n, shape):
    e = set()
    idx = list(range(n))
    rng.shuffle(idx)
    if shape == "random":
        p = rng.choice([0.1, 0.2, 0.3, 0.5])
        for i in range(n):
            for j in range(n):
                if rng.random() < p:
                    e.add((i, j))
    elif shape == "chain":          # idx[k+1] includes idx[k]
        for k in range(n - 1):
            e.add((idx[k + 1], idx[k]))
    elif shape == "ring":
        for k in range(n):
            e.add((idx[(k + 1) % n], idx[k]))
    elif shape == "diamond":        # layered: everything in layer k+1 includes everything in layer k
        cut = sorted(rng.sample(range(1, n), min(n - 1, rng.randint(1, 3)))) if n > 1 else []
        layers, a = [], 0
        for c in cut + [n]:
            layers.append(idx[a:c])
            a = c
        for k in range(len(layers) - 1):
            for x in layers[k + 1]:
                for y in layers[k]:
                    e.add((x, y))
    elif shape == "star-in":        # everybody includes the hub
        for k in idx[1:]:
            e.add((k, idx[0]))
    elif shape == "star-out":       # the hub includes everybody
        for k in idx[1:]:
            e.add((idx[0], k))
    elif shape == "complete":
        for i in range(n):
            for j in range(n):
                if i != j or rng.random() < 0.5:
                    e.add((i, j))
    elif shape == "two-rings":
        h = max(1, n // 2)
        for ring in (idx[:h], idx[h:]):
            for k in range(len(ring)):
                e.add((ring[(k + 1) % len(ring)], ring[k]))
        if n > h and rng.random() < 0.7:
            e.add((idx[h], idx[0]))
    elif shape == "tree":
        for k in range(1, n):
            e.add((idx[k], idx[rng.randrange(k)]))
    elif shape == "ladder":         # chain with a second, longer path to every node
        for k in range(n - 1):
            e.add((idx[k + 1], idx[k]))
            if k + 2 < n:
                e.add((idx[k + 2], idx[k]))
    if shape != "random":
        for _ in range(rng.choice([0, 0, 1, 2])):
            e.add((rng.randrange(n), rng.randrange(n)))
    return e, idx


def one_round(rng, names, spelled, feats):
    n = len(names)
    shape = rng.choice(SHAPES)
    feats.add("shape." + shape)
    edges, idx = _edges(rng, n, shape)
    fm = rng.choice(["one", "one", "one", "one-end", "one-end", "random", "random", "two", "none", "all"])
    if fm == "one":
        fl = {rng.randrange(n)}
    elif fm == "one-end":
        fl = {idx[0]}           # the far end of a chain / the hub / the bottom layer
    elif fm == "two":
        fl = {rng.randrange(n), rng.randrange(n)}
    elif fm == "none":
        fl = set()
    elif fm == "all":
        fl = set(range(n))
    else:
        q = rng.choice([0.15, 0.3, 0.5])
        fl = {i for i in range(n) if rng.random() < q}
    feats.add("flags." + fm)
    pr = rng.choice([0, 0, 0.1, 0.25, 0.5])
    pages = []
    for i in range(n):
        u = []
        for (a, b) in sorted(edges):
            if a != i:
                continue
            w = names[b]
            if spelled and rng.random() < 0.5:
                tag, w = rng.choice(variants(names[b]))
                feats.add("spelling." + tag)
            if w not in u:
                u.append(w)
        if rng.random() < 0.15:
            d = rng.choice(ABSENT + [names[rng.randrange(n)].swapcase(), ":" + names[rng.randrange(n)]])
            if d not in u:
                u.append(d)
                feats.add("decoy-name")
        rng.shuffle(u)
        r = None
        if rng.random() < pr:
            x = rng.random()
            if x < 0.65:
                b = names[rng.randrange(n)]
                r = NS + b
                feats.add("redirect.to-page")
                if spelled and rng.random() < 0.3:
                    # the stored target title is not byte-identical to the stored title of its target, but the page
                    # store resolves it to that page (always with a namespace prefix: a bare title would be main space)
                    low = b[:1].lower() + b[1:]
                    alts = [NS + b.replace(" ", "_"), "T:" + b, "template:" + b, "t:" + b.replace(" ", "_")]
                    if low[:1].upper() == b[:1]:
                        alts += [NS + low, "T:" + low.replace(" ", "_")]
                    r2 = rng.choice(alts)
                    if r2 != r:
                        r = r2
                        feats.add("redirect.target-spelled")
            elif x < 0.8:
                r = NS + names[i]
                feats.add("redirect.to-self")
            else:
                r = NS + rng.choice(ABSENT)
                feats.add("redirect.to-absent")
        f = 1 if i in fl else 0
        if r is not None and rng.random() < 0.6:
            u, f = [], 0          # the usual classifier sees no body in a redirect page
        elif r is not None:
            feats.add("redirect.classified")
        pages.append({"t": NS + names[i], "r": r, "u": u, "f": f})
    return {"pages": pages}


def random_case(rng):
    """-> (case, feature tags).  case = {"mode": "readd" | "grow", "rounds": [graph, ...]}.
    readd, rounds > 1: the same titles are stored again (add_page overwrites, need_pre_expand reset) and
    analysed again in the same context.
    grow: ONE library is generated and its pages are dealt out over 2-4 rounds; each round ADDS its pages to the
    long-lived store and analyses again (new includers of marked and of unmarked templates, new flagged templates,
    new redirects, names that only resolve once a later round has added their page).
    Some pages are stored with need_pre_expand=True up front ("p": 1) in every mode."""
    feats = set()
    n = rng.choice([1, 2, 3, 3, 4, 4, 4, 5, 5, 5, 6, 6, 6, 7, 7, 8, 8])
    names = rng.sample(POOL, n)
    if rng.random() < 0.5:
        names.sort()            # insertion order = title order, as in a dump
    spelled = rng.random() < 0.55
    feats.add("names.spelled" if spelled else "names.canonical")
    x = rng.random()
    if x < 0.3 and n >= 2:
        g = one_round(rng, names, spelled, feats)
        pages = g["pages"]
        rng.shuffle(pages)
        if rng.random() < 0.5:
            # the flagged templates come first: later rounds add includers of templates that are already marked
            pages.sort(key=lambda p: -p["f"])
            feats.add("grow.flagged-first")
        k = min(n, rng.randint(2, 4))
        cuts = sorted(rng.sample(range(1, n), k - 1))
        rounds = [{"pages": pages[a:b]} for a, b in zip([0] + cuts, cuts + [n])]
        feats.add("mode.grow")
        case = {"mode": "grow", "rounds": rounds}
    else:
        k = 1
        if x < 0.45:
            k = rng.randint(2, 4)
            feats.add("rounds>1")
        case = {"mode": "readd", "rounds": [one_round(rng, names, spelled, feats) for _ in range(k)]}
    if rng.random() < 0.3:
        q = rng.choice([0.1, 0.25, 0.5])
        for r in case["rounds"]:
            for p in r["pages"]:
                if rng.random() < q:
                    p["p"] = 1
                    feats.add("premarked")
    return case, feats
