"""C19 document grammar as an AST (so witnesses can be delta-minimised).

gen(rng, depth) -> doc (list of block nodes); render(doc) -> wikitext;
features(doc) -> set of feature tags; shrink(doc) -> iterator of strictly
smaller documents (one edit each).  Everything is plain lists/strs/None, so a
doc is JSON-able and can be stored in a replay case.

Inline nodes   ["t", s] ["lit", s] ["plit", s] ["b", I] ["i", I] ["link", target, I|None, trail]
               ["ext", url, I|None] ["url", url] ["tmpl", name, [[key|None, I], ...]]
               ["pf", name, [I, ...]] ["targ", name, I|None] ["html", tag, A, I]
               ["void", tag, A] ["magic", word] ["nowiki", s]
Block nodes    ["h", level, I] ["p", I] ["list", [[marker, I, I|None], ...]]
               ["table", A, cap|None, [[A, [[kind, A, lead, I, sameline], ...]], ...]]   cap = [A, lead, I]
               ["hr"] ["div", tag, A, [block, ...]] ["pre", s] ["spre", I] ["deftwo", I, I]
I = list of inline nodes, A = list of [name, value|None] attributes.
"""
from __future__ import annotations

import copy
import random
import re

WORDS = ["foo", "bar", "baz qux", "x1", "é語", "Zed", "a-b", "n.1", "it's", "100%", "q r s", "A_B", "&amp;", "ünï", "7"]
TNAMES = ["t", "u", "tmpl name", "T:x", "w/sub"]
PFNAMES = ["#if", "lc", "#switch", "PAGENAME", "#ifeq", "ucfirst", "#expr"]
ATTRV = ["c1", "i-2", "a.b", "x_y~z", "A9", "0"]          # URL-safe, as the statement restricts
ATTRN = ["class", "id", "lang", "title", "data-x"]
# literal bracket text: a document uses either the closing or the opening kind (plus the neutral ones), so that
# literal [[ is never followed by ]] and no accidental, overlapping link arises; documents with literal
# openers contain no [[links]] and keep the openers out of brace arguments (an unclosed [[ there changes how
# the parser splits the arguments -- a parser matter)
LITS_NEUTRAL = ["[x]", "q ] r [ s", "[ [ p ] ]"]
LITS_CLOSE = ["c ]] d", "]]", "y]]z", "]] ]"]
LITS_OPEN = ["a [[ b", "[[", "x[[y", "[ [[", "] [["]
MODE = {"lit": "close"}
# protected literal brackets: written with <noinclude/> between the brackets of a pair, so the tree gets a text
# node with ]] but no [[ (or the reverse, or both) in places where an unprotected pair would be markup -- link
# labels and targets, external-link texts, bold/italic/HTML inside a label -- and in cells, items, headings,
# captions.  The general values end in a word character; brackets at the very edge of a text, touching the
# markup next to it, are generated separately (PLITS_EDGE at the end of a label, "glue" nodes around links).
MARKER = "<noinclude/>"
# (external-link texts only get the opening kind: a single ] already ends such a link, so ']<noinclude/>]' there
# leaves a text that starts with ] right behind the link's own ] -- the same string-edge matter)
PLITS_EDGE = ["x]", "y]]", "z ]", "[w]"]       # only used as the last thing in a link label
PLITS_OPEN = ["x [[ y", "[[y", "[[[z", "v[[ [[u"]
PLITS = ["x]]y", "]]y", "c ]] d", "p]]]q", "x [[ y", "[[y", "[[[z", "m]][[n", "]] ]]w", "v[[ [[u"]
MAGICS = ["__NOTOC__", "__TOC__", "__FORCETOC__", "__NOEDITSECTION__"]
INLINE_TAGS = ["span", "b", "sup", "code", "small", "ref", "u", "s", "i", "sub", "big", "cite"]
BLOCK_TAGS = ["div", "blockquote", "center"]
MARKERS = ["*", "#", ":", "**", "*#", "#*", "##", "*:", "#:", "***", "::"]
URLS = ["http://x.org/a", "https://x.org/p_q", "//x.org/z", "ftp://f.org/1"]


def attrs(rng, p=0.5, maxn=2):
    if rng.random() >= p:
        return []
    out = []
    for k in rng.sample(ATTRN, rng.randint(1, maxn)):
        out.append([k, rng.choice(ATTRV)])
    return out


def protect(s):
    """s with every pair of equal brackets kept apart by <noinclude/> (what a careful author -- or the
    serialiser -- writes so that the brackets stay text): the parser drops the tag and yields the text s."""
    return re.sub(r"\](?=\])", "]" + MARKER, re.sub(r"\[(?=\[)", "[" + MARKER, s))


def label_plit(rng, nb, ni, values=None):
    """A protected literal for a link label / external-link text, bare or inside bold / italic / HTML."""
    p = ["plit", rng.choice(values or PLITS)]
    w = rng.random()
    if w < 0.2 and not nb:
        return ["b", [p] + ([["t", rng.choice(WORDS)]] if rng.random() < 0.4 else [])]
    if w < 0.4 and not ni:
        return ["i", [p]]
    if w < 0.55:
        return ["html", rng.choice(INLINE_TAGS), [], [p]]
    return p


def inl(rng, d, lits=True, links=True, nb=False, ni=False, pl=True):
    """One inline node.  nb / ni: already inside bold / italic (quote runs are never nested in themselves:
    '' inside '' has no defined reading).  pl: protected literal brackets allowed (not inside brace
    arguments, where the parser keeps the protecting tag as text; "open": only the opening kind; "cell": inside a
    table -- protected literals as plain cell text, but none inside links)."""
    r = rng.random()
    opening = MODE["lit"] == "open"
    if opening:
        links = False
    alits = lits and not opening       # literal brackets allowed inside brace arguments
    if d <= 0 or r < 0.34:
        return ["t", rng.choice(WORDS)]
    if r < 0.42:
        if nb:
            return ["t", rng.choice(WORDS)]
        return ["b", inls(rng, d - 1, lits, links, 2, True, ni, pl)]
    if r < 0.50:
        if ni:
            return ["t", rng.choice(WORDS)]
        return ["i", inls(rng, d - 1, lits, links, 2, nb, True, pl)]
    if r < 0.60:
        if not links:
            return ["t", rng.choice(WORDS)]
        txt = None
        if rng.random() < 0.5:
            # (no protected literals from the general branch in a label: see below)
            txt = inls(rng, min(d - 1, 1), False, False, 2, nb, ni, False)
        target = rng.choice(WORDS + ["Cat:x", "a#frag", ":en:w"])
        if pl is True and rng.random() < 0.33:
            # Protected bracket text in a link: text with ]] but no [[ (and the reverse) inside the label, a label
            # that ends in bracket text or in an external link right in front of the closing ]], or a protected
            # target.  Conservative shape: ONE bracket-bearing element, everything else plain words, never inside a
            # table (pl == "cell" there): with a template, a second [..] or more protected brackets after a
            # protected pair the parser does not recognise the link at all ('[[a|p]<noinclude/>]q {{u}}]]',
            # '[[a|p]<noinclude/>]q [w]<noinclude/>]]', '[[a]<noinclude/>]b|{{t}} x]]' are text) -- a parser matter
            # that leaves a loose | which, in a table cell, starts a new cell in the middle of bold/italic.
            w = rng.random()
            pre = [["t", rng.choice(WORDS)]] if rng.random() < 0.5 else []
            if w < 0.12:
                target = "a]" + MARKER + "]b"
                txt = [["t", rng.choice(WORDS)]] if rng.random() < 0.5 else None
            elif w < 0.22:
                txt = pre + [["plit", rng.choice(PLITS_EDGE)]]
            elif w < 0.30:
                txt = pre + [["ext", rng.choice(URLS), [["t", rng.choice(WORDS)]] if rng.random() < 0.7 else None]]
            else:
                post = [["t", rng.choice(WORDS)]] if rng.random() < 0.5 else []
                txt = pre + [label_plit(rng, nb, ni)] + post
        elif pl and rng.random() < 0.03:
            target = "File:a.png|thumb"
        return ["link", target, txt, rng.choice(["", "", "s", "ing"])]
    if r < 0.66:
        if not links:
            return ["t", rng.choice(WORDS)]
        txt = inls(rng, min(d - 1, 1), False, False, 2, nb, ni, pl and "open") if rng.random() < 0.7 else None
        if pl and txt is not None and rng.random() < 0.2:
            txt.insert(rng.randrange(len(txt) + 1), label_plit(rng, nb, ni, PLITS_OPEN))
        return ["ext", rng.choice(URLS), txt]
    if r < 0.69:
        return ["url", rng.choice(URLS[:2])]
    if r < 0.79:
        args = []
        for _ in range(rng.randint(0, 3)):
            key = rng.choice(["k", "n 1", "2", "x-y"]) if rng.random() < 0.45 else None
            args.append([key, inls(rng, d - 1, alits, links, 2, nb, ni, False) if rng.random() < 0.9 else []])
        return ["tmpl", rng.choice(TNAMES), args]
    if r < 0.85:
        name = rng.choice(PFNAMES)
        n = 0 if name == "PAGENAME" else rng.randint(1, 3)
        return ["pf", name, [inls(rng, d - 1, alits, links, 2, nb, ni, False) for _ in range(n)]]
    if r < 0.88:
        return ["targ", rng.choice(["1", "x", "n 1"]),
                inls(rng, d - 1, alits, links, 1, nb, ni, False) if rng.random() < 0.5 else None]
    if r < 0.94:
        return ["html", rng.choice(INLINE_TAGS), attrs(rng),
                inls(rng, d - 1, lits, links, 2, nb, ni, pl) if rng.random() < 0.9 else []]
    if r < 0.955:
        return ["void", rng.choice(["br", "wbr"]), attrs(rng, 0.3, 1)]
    if r < 0.965:
        return ["nowiki", rng.choice(["[[x]]", "{{t}}", "a", "<b>"])]
    if r < 0.972:
        return ["magic", rng.choice(MAGICS)]
    if r < 0.983:
        if pl:
            return ["plit", rng.choice(PLITS_OPEN if pl == "open" else PLITS)]
        return ["t", rng.choice(WORDS)]
    if r < 0.988:
        if pl is True and links:
            mid = ["link", rng.choice(WORDS), None, ""] if rng.random() < 0.5 else \
                ["ext", rng.choice(URLS), [["t", rng.choice(WORDS)]]]
            left, right = rng.choice([("x[", ""), ("q [", ""), ("", "]y"), ("", "] z"), ("x[", "]y"), ("[", "]")])
            return ["glue", left, mid, right]
        return ["t", rng.choice(WORDS)]
    if lits:
        return ["lit", rng.choice(LITS_NEUTRAL + (LITS_OPEN if opening else LITS_CLOSE) * 2)]
    return ["t", rng.choice(WORDS)]


def inls(rng, d, lits=True, links=True, maxn=3, nb=False, ni=False, pl=True):
    return [inl(rng, d, lits, links, nb, ni, pl) for _ in range(rng.randint(1, maxn))]


def block(rng, d, bd):
    r = rng.random()
    if r < 0.24:
        return ["p", inls(rng, d)]
    if r < 0.44:
        items = []
        base = rng.choice(["*", "#", ":", "*", "#"])
        for _ in range(rng.randint(1, 4)):
            m = base + "".join(rng.choice("*#:") for _ in range(rng.choice([0, 0, 1, 1, 2])))
            items.append([m, inls(rng, d - 1), None])
        return ["list", items]
    if r < 0.48:
        items = []
        for _ in range(rng.randint(1, 2)):
            items.append([rng.choice([";", ";", "*;", ":;"]), inls(rng, min(d - 1, 1), False, False, 2),
                          inls(rng, min(d - 1, 1), False, True, 2) if rng.random() < 0.7 else None])
        return ["list", items]
    if r < 0.50:
        return ["deftwo", inls(rng, 0, False, False, 2), inls(rng, d - 1, False, True, 2)]
    if r < 0.72:
        lead = rng.choice(["", " "])
        rows = []
        for _ in range(rng.randint(1, 3)):
            cells = []
            for ci in range(rng.randint(1, 3)):
                cells.append([rng.choice(["|", "|", "!"]), attrs(rng, 0.3), rng.choice([lead, lead, " ", ""]),
                              inls(rng, min(d - 1, 2), MODE["lit"] == "close", True, 2, False, False, "cell") if rng.random() < 0.93 else [],
                              bool(ci > 0 and rng.random() < 0.35)])
            for ci in range(1, len(cells)):
                # (parser matter, C03: a first ||-style cell containing '=' is read as row attributes)
                if cells[ci][4] and "=" in r_inls(cells[ci - 1][3]) + r_attrs(cells[ci - 1][1]):
                    cells[ci][4] = False
            rows.append([attrs(rng, 0.25), cells])
        cap = None
        if rng.random() < 0.25:
            cap = [attrs(rng, 0.25, 1), rng.choice(["", "", " "]), inls(rng, min(d - 1, 1), False, True, 2, False, False, "cell")]
        return ["table", attrs(rng, 0.45), cap, rows]
    if r < 0.79:
        return ["hr"]
    if r < 0.90:
        if bd > 0 and rng.random() < 0.45:
            return ["div", rng.choice(BLOCK_TAGS[:2]), attrs(rng, 0.6), [block(rng, d - 1, bd - 1) for _ in range(rng.randint(1, 2))]]
        return ["div", rng.choice(BLOCK_TAGS), attrs(rng, 0.6), [["p", inls(rng, d - 1)]]]
    if r < 0.93:
        return ["pre", rng.choice(["pre text", "a\n b", "x ''y''", "a [[b]] c", "{{t}}"])]
    if r < 0.97:
        return ["spre", inls(rng, min(d - 1, 1), False, True, 2)]
    if r < 0.985:
        return ["p", [["magic", rng.choice(MAGICS)]] + (inls(rng, 0, False, False, 1) if rng.random() < 0.6 else [])]
    return ["p", inls(rng, d)]


def tidy(blocks):
    """A leading-blank line is always followed by a block that ends the preformatted run (list, rule,
    heading) or by nothing: otherwise the parser keeps later lines -- and a later table with everything
    after it -- inside the PREFORMATTED node (a parser matter, not a serialiser one).  It never directly
    follows a heading either (there the parser does not see it as preformatted, but does after the empty
    line that the heading emitter adds).
    Returns a new list when something had to be inserted (never mutates its argument)."""
    out = None
    for i, b in enumerate(blocks):
        nb = b
        if b[0] == "div":
            inner = tidy(b[3])
            if inner is not b[3]:
                nb = [b[0], b[1], b[2], inner]
        need_hr = (b[0] == "spre" and i + 1 < len(blocks) and blocks[i + 1][0] not in ("list", "hr", "h", "deftwo")) or \
            (b[0] == "h" and i + 1 < len(blocks) and blocks[i + 1][0] == "spre")
        if (nb is not b or need_hr) and out is None:
            out = list(blocks[:i])
        if out is not None:
            out.append(nb)
            if need_hr:
                out.append(["hr"])
    return blocks if out is None else out


def gen(rng: random.Random, depth=3):
    MODE["lit"] = "open" if rng.random() < 0.2 else "close"
    doc = []
    for _ in range(rng.randint(1, 4)):
        if rng.random() < 0.6:
            doc.append(["h", rng.choice([1, 2, 2, 3, 3, 4, 5, 6]), inls(rng, min(depth - 1, 1), False, True, 2)])
        for _ in range(rng.randint(1, 3)):
            doc.append(block(rng, depth, 2))
    return tidy(doc)


# ---------------------------------------------------------------- rendering

def r_attrs(a):
    return "".join(" %s" % k if v is None else ' %s="%s"' % (k, v) for k, v in a)


def r_inl(n):
    k = n[0]
    if k in ("t", "lit"):
        return n[1]
    if k == "plit":
        return protect(n[1])
    if k == "b":
        return "'''" + r_inls(n[1]) + "'''"
    if k == "i":
        return "''" + r_inls(n[1]) + "''"
    if k == "link":
        lab = "" if n[2] is None else "|" + r_inls(n[2])
        if lab.endswith("]"):
            lab += MARKER          # label ending in ] (text, or an external link): kept apart from the closing ]]
        return "[[" + n[1] + lab + "]]" + n[3]
    if k == "glue":
        # text touching a link / external link: "x[" directly in front of it, "]y" directly behind it
        mid = r_inl(n[2])
        return protect(n[1]) + (MARKER if n[1].endswith("[") and mid.startswith("[") else "") + mid + \
            (MARKER if n[3].startswith("]") and mid.endswith("]") else "") + protect(n[3])
    if k == "ext":
        return "[" + n[1] + ("" if n[2] is None else " " + r_inls(n[2])) + "]"
    if k == "url":
        return n[1]
    if k == "tmpl":
        return "{{" + n[1] + "".join("|" + ("" if a[0] is None else a[0] + "=") + r_inls(a[1]) for a in n[2]) + "}}"
    if k == "pf":
        return "{{" + n[1] + (":" + "|".join(r_inls(a) for a in n[2]) if n[2] else "") + "}}"
    if k == "targ":
        return "{{{" + n[1] + ("" if n[2] is None else "|" + r_inls(n[2])) + "}}}"
    if k == "html":
        return "<%s%s>%s</%s>" % (n[1], r_attrs(n[2]), r_inls(n[3]), n[1])
    if k == "void":
        return "<%s%s>" % (n[1], r_attrs(n[2]))
    if k == "magic":
        return n[1]
    if k == "nowiki":
        return "<nowiki>" + n[1] + "</nowiki>"
    raise ValueError(k)


def r_inls(lst):
    return " ".join(r_inl(x) for x in lst)


def r_block(b):
    k = b[0]
    if k == "h":
        return "=" * b[1] + " " + r_inls(b[2]) + " " + "=" * b[1] + "\n"
    if k == "p":
        return r_inls(b[1]) + "\n"
    if k == "list":
        return "".join(m + " " + r_inls(i) + ("" if d is None else " : " + r_inls(d)) + "\n" for m, i, d in b[1])
    if k == "deftwo":
        return "; " + r_inls(b[1]) + "\n: " + r_inls(b[2]) + "\n"
    if k == "table":
        out = ["{|" + r_attrs(b[1]) + "\n"]
        if b[2] is not None:
            a, lead, i = b[2]
            out.append("|+" + (r_attrs(a) + " |" if a else "") + lead + r_inls(i) + "\n")
        for ra, cells in b[3]:
            out.append("|-" + r_attrs(ra) + "\n")
            line = ""
            for ck, ca, lead, i, same in cells:
                c = (r_attrs(ca).lstrip() + " |" if ca else "") + lead + r_inls(i)
                if same and line:
                    line += " " + ck * 2 + c
                else:
                    if line:
                        out.append(line + "\n")
                    line = ck + c
            if line:
                out.append(line + "\n")
        out.append("|}\n")
        return "".join(out)
    if k == "hr":
        return "----\n"
    if k == "div":
        inner = b[3]
        if len(inner) == 1 and inner[0][0] == "p":
            return "<%s%s>%s</%s>\n" % (b[1], r_attrs(b[2]), r_inls(inner[0][1]), b[1])
        return "<%s%s>\n%s</%s>\n" % (b[1], r_attrs(b[2]), "".join(r_block(x) for x in inner), b[1])
    if k == "pre":
        return "<pre>" + b[1] + "</pre>\n"
    if k == "spre":
        return " " + r_inls(b[1]) + "\n"
    raise ValueError(k)


def render(doc):
    return "".join(r_block(b) for b in doc)


# ---------------------------------------------------------------- features

def features(doc):
    f = set()

    def fa(a, what):
        if a:
            f.add(what + "-attrs")

    def fi(lst, ctx):
        for n in lst:
            k = n[0]
            if k == "t":
                continue
            f.add({"b": "bold", "i": "italic", "lit": "literal-brackets", "ext": "extlink", "url": "bareurl",
                   "tmpl": "template", "pf": "parserfn", "targ": "tmplarg", "html": "html-inline", "void": "html-void",
                   "magic": "magic-word", "nowiki": "nowiki", "link": "link", "plit": "protected-literal",
                   "glue": "text-bracket-touching-link"}[k])
            if ctx:
                f.add(k + "-in-" + ctx)
            if k in ("b", "i"):
                fi(n[1], ctx)
            elif k == "glue":
                f.add("glue-%s%s-%s" % ("L" if n[1] else "", "R" if n[3] else "", n[2][0]))
                fi([n[2]], ctx)
            elif k == "link":
                if n[2] and n[2][-1][0] == "plit" and n[2][-1][1].endswith("]"):
                    f.add("label-ends-in-bracket-text")
                if n[2] and n[2][-1][0] == "ext":
                    f.add("label-ends-in-extlink")
                if MARKER in n[1]:
                    f.add("protected-literal-in-link-target")
                if "|" in n[1]:
                    f.add("link-with-3-args")
                if n[3]:
                    f.add("linktrail")
                if n[2] is not None:
                    f.add("link-text")
                    fi(n[2], "link")
            elif k == "ext" and n[2] is not None:
                fi(n[2], "extlink")
            elif k == "tmpl":
                for key, v in n[2]:
                    f.add("named-arg" if key is not None else "positional-arg")
                    fi(v, "template-arg")
            elif k == "pf":
                for v in n[2]:
                    fi(v, "parserfn-arg")
            elif k == "targ" and n[2] is not None:
                fi(n[2], "tmplarg-default")
            elif k == "html":
                fa(n[2], "html")
                fi(n[3], ctx)
            elif k == "void":
                fa(n[2], "html")

    def fb(blocks, ctx):
        for b in blocks:
            k = b[0]
            if k == "h":
                f.add("section")
                f.add("section-level-%d" % b[1])
                fi(b[2], "heading")
            elif k == "p":
                f.add("para")
                fi(b[1], ctx)
            elif k == "list":
                for m, i, d in b[1]:
                    f.add("list")
                    if len(m) > 1:
                        f.add("nested-list")
                    if ";" in m:
                        f.add("deflist")
                        if d is not None:
                            f.add("deflist-definition")
                    if ":" in m:
                        f.add("colon-list")
                    fi(i, "list-item")
                    if d is not None:
                        fi(d, "definition")
            elif k == "deftwo":
                f.add("deflist-two-lines")
                fi(b[1], "list-item")
                fi(b[2], "list-item")
            elif k == "table":
                f.add("table")
                fa(b[1], "table")
                if b[2] is not None:
                    f.add("caption")
                    fa(b[2][0], "caption")
                    if b[2][1]:
                        f.add("caption-leading-blank")
                    fi(b[2][2], "caption")
                for ra, cells in b[3]:
                    fa(ra, "row")
                    for ck, ca, lead, i, same in cells:
                        f.add("header-cell" if ck == "!" else "data-cell")
                        fa(ca, "cell")
                        if lead:
                            f.add("cell-leading-blank")
                        if same:
                            f.add("cell-same-line")
                        if not i:
                            f.add("empty-cell")
                        fi(i, "cell")
            elif k == "hr":
                f.add("hline")
            elif k == "div":
                f.add("html-block")
                fa(b[2], "html")
                if not (len(b[3]) == 1 and b[3][0][0] == "p"):
                    f.add("html-block-with-blocks")
                fb(b[3], "html-block")
            elif k == "pre":
                f.add("pre-tag")
                if "[[" in b[1] or "]]" in b[1]:
                    f.add("brackets-in-pre")
            elif k == "spre":
                f.add("leading-blank-line")
                fi(b[1], "preformatted")

    fb(doc, "")
    return f


# ---------------------------------------------------------------- shrinking

def _inl_variants(n):
    """Replacement lists (spliced in place of n), each strictly smaller."""
    k = n[0]
    out = []
    if k in ("t", "lit", "nowiki", "plit"):
        s = n[1]
        if k != "t":
            out.append([["t", "x"]])
        if len(s) > 1:
            for c in ("x", s[: len(s) // 2], s[len(s) // 2:], s.replace(" ", "")):
                if c and c != s and len(c) < len(s) and c[0] != "'" and c[-1] != "'" and c.strip() == c:
                    out.append([[k, c]])
    elif k in ("b", "i"):
        out.append(n[1])
        for v in _list_variants(n[1], _inl_variants, allow_empty=False):
            out.append([[k, v]])
    elif k == "link":
        if n[2] is not None:
            out.append(n[2])
            out.append([["link", n[1], None, n[3]]])
            for v in _list_variants(n[2], _inl_variants, allow_empty=False):
                out.append([["link", n[1], v, n[3]]])
        if n[3]:
            out.append([["link", n[1], n[2], ""]])
        if n[1] != "x":
            out.append([["link", "x", n[2], n[3]]])
    elif k == "ext":
        if n[2] is not None:
            out.append(n[2])
            out.append([["ext", n[1], None]])
            for v in _list_variants(n[2], _inl_variants, allow_empty=False):
                out.append([["ext", n[1], v]])
    elif k == "tmpl":
        for i, a in enumerate(n[2]):
            out.append(a[1])
            out.append([["tmpl", n[1], n[2][:i] + n[2][i + 1:]]])
            if a[0] is not None:
                out.append([["tmpl", n[1], n[2][:i] + [[None, a[1]]] + n[2][i + 1:]]])
            for v in _list_variants(a[1], _inl_variants, allow_empty=True):
                out.append([["tmpl", n[1], n[2][:i] + [[a[0], v]] + n[2][i + 1:]]])
        if n[1] != "t":
            out.append([["tmpl", "t", n[2]]])
    elif k == "pf":
        for i, a in enumerate(n[2]):
            out.append(a)
            if len(n[2]) > 1:
                out.append([["pf", n[1], n[2][:i] + n[2][i + 1:]]])
            for v in _list_variants(a, _inl_variants, allow_empty=True):
                out.append([["pf", n[1], n[2][:i] + [v] + n[2][i + 1:]]])
        if n[1] not in ("lc", "PAGENAME") and n[2]:
            out.append([["pf", "lc", n[2]]])
    elif k == "targ":
        if n[2] is not None:
            out.append(n[2])
            out.append([["targ", n[1], None]])
            for v in _list_variants(n[2], _inl_variants, allow_empty=True):
                out.append([["targ", n[1], v]])
    elif k == "html":
        out.append(n[3])
        for i in range(len(n[2])):
            out.append([["html", n[1], n[2][:i] + n[2][i + 1:], n[3]]])
        for v in _list_variants(n[3], _inl_variants, allow_empty=True):
            out.append([["html", n[1], n[2], v]])
        if n[1] != "span":
            out.append([["html", "span", n[2], n[3]]])
    elif k == "void":
        for i in range(len(n[2])):
            out.append([["void", n[1], n[2][:i] + n[2][i + 1:]]])
    elif k == "glue":
        out.append([n[2]])
        out.append([["t", "x"]])
        if n[1] and n[3]:
            out.append([["glue", n[1], n[2], ""]])
            out.append([["glue", "", n[2], n[3]]])
        for rep in _inl_variants(n[2]):
            if len(rep) == 1 and rep[0][0] == n[2][0]:
                out.append([["glue", n[1], rep[0], n[3]]])
    return out


def _list_variants(lst, elem_variants, allow_empty=True):
    """Variants of a list: delete one element, or replace one element by a splice."""
    out = []
    for i in range(len(lst)):
        if len(lst) > 1 or allow_empty:
            out.append(lst[:i] + lst[i + 1:])
    for i in range(len(lst)):
        for rep in elem_variants(lst[i]):
            v = lst[:i] + list(rep) + lst[i + 1:]
            if v or allow_empty:
                out.append(v)
    return out


def _block_variants(b):
    k = b[0]
    out = []
    if k == "h":
        out.append([["p", b[2]]])
        if b[1] != 2:
            out.append([["h", 2, b[2]]])
        for v in _list_variants(b[2], _inl_variants, allow_empty=False):
            out.append([["h", b[1], v]])
    elif k == "p":
        for v in _list_variants(b[1], _inl_variants, allow_empty=False):
            out.append([["p", v]])
    elif k == "spre":
        out.append([["p", b[1]]])
        for v in _list_variants(b[1], _inl_variants, allow_empty=False):
            out.append([["spre", v]])
    elif k == "pre":
        for c in ("x", b[1][: len(b[1]) // 2], b[1][len(b[1]) // 2:]):
            if c and len(c) < len(b[1]):
                out.append([["pre", c]])
    elif k == "deftwo":
        out.append([["p", b[1]]])
        out.append([["p", b[2]]])
        out.append([["list", [[";", b[1], None]]]])
        out.append([["list", [[":", b[2], None]]]])
        for v in _list_variants(b[1], _inl_variants, allow_empty=False):
            out.append([["deftwo", v, b[2]]])
        for v in _list_variants(b[2], _inl_variants, allow_empty=False):
            out.append([["deftwo", b[1], v]])
    elif k == "list":
        items = b[1]
        for i, (m, il, d) in enumerate(items):
            if len(items) > 1:
                out.append([["list", items[:i] + items[i + 1:]]])
                out.append([["list", [items[i]]]])
            out.append([["p", il]])
            if d is not None:
                out.append([["p", d]])
                out.append([["list", items[:i] + [[m, il, None]] + items[i + 1:]]])
                for v in _list_variants(d, _inl_variants, allow_empty=False):
                    out.append([["list", items[:i] + [[m, il, v]] + items[i + 1:]]])
            if len(m) > 1:
                out.append([["list", items[:i] + [[m[:-1], il, d]] + items[i + 1:]]])
                out.append([["list", items[:i] + [[m[-1], il, d]] + items[i + 1:]]])
            for v in _list_variants(il, _inl_variants, allow_empty=False):
                out.append([["list", items[:i] + [[m, v, d]] + items[i + 1:]]])
    elif k == "hr":
        pass
    elif k == "div":
        out.append(b[3])
        for i in range(len(b[2])):
            out.append([["div", b[1], b[2][:i] + b[2][i + 1:], b[3]]])
        for v in _list_variants(b[3], _block_variants, allow_empty=False):
            out.append([["div", b[1], b[2], v]])
        if b[1] != "div":
            out.append([["div", "div", b[2], b[3]]])
    elif k == "table":
        ta, cap, rows = b[1], b[2], b[3]
        for i in range(len(ta)):
            out.append([["table", ta[:i] + ta[i + 1:], cap, rows]])
        if cap is not None:
            out.append([["table", ta, None, rows]])
            out.append([["p", cap[2]]])
            for i in range(len(cap[0])):
                out.append([["table", ta, [cap[0][:i] + cap[0][i + 1:], cap[1], cap[2]], rows]])
            if cap[1]:
                out.append([["table", ta, [cap[0], "", cap[2]], rows]])
            for v in _list_variants(cap[2], _inl_variants, allow_empty=False):
                out.append([["table", ta, [cap[0], cap[1], v], rows]])
        for ri, (ra, cells) in enumerate(rows):
            if len(rows) > 1:
                out.append([["table", ta, cap, rows[:ri] + rows[ri + 1:]]])
            for i in range(len(ra)):
                out.append([["table", ta, cap, rows[:ri] + [[ra[:i] + ra[i + 1:], cells]] + rows[ri + 1:]]])
            for ci, (ck, ca, lead, il, same) in enumerate(cells):
                def withcell(newcells):
                    return [["table", ta, cap, rows[:ri] + [[ra, newcells]] + rows[ri + 1:]]]
                if len(cells) > 1:
                    out.append(withcell(cells[:ci] + cells[ci + 1:]))
                if il:
                    out.append([["p", il]])
                for i in range(len(ca)):
                    out.append(withcell(cells[:ci] + [[ck, ca[:i] + ca[i + 1:], lead, il, same]] + cells[ci + 1:]))
                if lead:
                    out.append(withcell(cells[:ci] + [[ck, ca, "", il, same]] + cells[ci + 1:]))
                if same:
                    out.append(withcell(cells[:ci] + [[ck, ca, lead, il, False]] + cells[ci + 1:]))
                if ck == "!":
                    out.append(withcell(cells[:ci] + [["|", ca, lead, il, same]] + cells[ci + 1:]))
                for v in _list_variants(il, _inl_variants, allow_empty=True):
                    out.append(withcell(cells[:ci] + [[ck, ca, lead, v, same]] + cells[ci + 1:]))
    return out


def size(doc):
    return len(render(doc)) if doc else 0


def shrink(doc):
    """Documents obtained by one reduction step (structure is shared with doc: treat as read-only)."""
    return [tidy(v) for v in _list_variants(doc, _block_variants, allow_empty=False)]


def minimise(doc, pred, budget=100):
    """Greedy delta-minimisation: take the first strictly smaller variant for which pred holds
    (deletions are tried before in-place simplifications), until none is left or the budget is spent."""
    cur = doc
    cur_size = size(cur)
    spent = 0
    improved = True
    while improved and spent < budget:
        improved = False
        for v in shrink(cur):
            if size(v) >= cur_size:
                continue
            spent += 1
            if spent > budget:
                break
            if pred(v):
                cur, cur_size = v, size(v)
                improved = True
                break
    return copy.deepcopy(cur)
