"""C20 -- generated wiki 'sites' (templates, redirects, Lua modules, data modules, pages)
together with a by-construction model of what every page expands to.

The model is written from the documented semantics of the handful of constructs the
generator emits (positional argument with default, template call, redirect, #if, uc:,
#invoke of tiny pure Lua functions); it never calls the package.  The constructs are kept
deliberately unambiguous (no white space at argument edges, every {{{n}}} has a default,
call graph is a DAG) because C20 quantifies over SCHEDULES, not over inputs.
"""
from __future__ import annotations

import random

WORDS = ["al", "be", "ga", "de", "ep", "ze", "et", "th", "io", "ka", "la", "mu", "nu", "xi", "om", "pi", "ro", "si", "ta", "up"]


def word(rng):
    return rng.choice(WORDS) + str(rng.randrange(100))


class Site:
    def __init__(self):
        self.templates = {}   # name -> list of nodes
        self.redirects = {}   # name -> template name
        self.modules = {}     # name -> {"tag":..., "tpl":..., "req":..., "data":...}
        self.datamods = {}    # name -> {key: value}
        self.pages = {}       # title -> list of nodes
        self.order = []       # page titles, generation order

    # ---------------------------------------------------------------- rendering
    def render(self, nodes):
        return "".join(self._r(n) for n in nodes)

    def _r(self, n):
        k = n[0]
        if k == "lit":
            return n[1]
        if k == "arg":
            return "{{{%d|%s}}}" % (n[1], self.render(n[2]))
        if k == "call":
            return "{{%s%s}}" % (n[1], "".join("|" + self.render(a) for a in n[2]))
        if k == "if":
            return "{{#if:%s|%s|%s}}" % (self.render(n[1]), self.render(n[2]), self.render(n[3]))
        if k == "uc":
            return "{{uc:%s}}" % self.render(n[1])
        if k == "invoke":
            return "{{#invoke:%s|%s%s}}" % (n[1], n[2], "".join("|" + self.render(a) for a in n[3]))
        raise ValueError(k)

    def lua_source(self, name):
        m = self.modules[name]
        src = ["local e = {}", "local TAG = '%s'" % m["tag"],
               "function e.h(s) return 'h' .. TAG .. '<' .. s .. '>' end",
               "function e.echo(frame) return TAG .. '(' .. (frame.args[1] or '') .. ')' end",
               "function e.cat(frame) local t = {}; local i = 1; while frame.args[i] do t[#t+1] = frame.args[i]; i = i + 1 end; return TAG .. table.concat(t, '+') end",
               "function e.up(frame) return mw.ustring.upper(frame.args[1] or '') end",
               "function e.parent(frame) local p = frame:getParent(); return TAG .. ':' .. ((p and p.args[1]) or 'noparent') end"]
        if m.get("tpl"):
            src.append("function e.tpl(frame) return TAG .. frame:expandTemplate{title='%s', args={frame.args[1] or ''}} end" % m["tpl"])
        if m.get("req"):
            src.append("function e.req(frame) local o = require('Module:%s'); return TAG .. o.h(frame.args[1] or '') end" % m["req"])
        if m.get("data"):
            src.append("function e.data(frame) local d = mw.loadData('Module:%s'); return TAG .. (d[frame.args[1] or ''] or 'nil') end" % m["data"])
        src.append("return e")
        return "\n".join(src)

    def data_source(self, name):
        d = self.datamods[name]
        return "return {" + ", ".join("['%s'] = '%s'" % kv for kv in sorted(d.items())) + "}"

    def rows(self):
        """(title, ns, body, model, redirect_to) for every stored page of the site."""
        out = []
        for name, nodes in self.templates.items():
            out.append(("Template:" + name, 10, self.render(nodes), "wikitext", None))
        for name, tgt in self.redirects.items():
            out.append(("Template:" + name, 10, "", "wikitext", "Template:" + tgt))
        for name in self.modules:
            out.append(("Module:" + name, 828, self.lua_source(name), "Scribunto", None))
        for name in self.datamods:
            out.append(("Module:" + name, 828, self.data_source(name), "Scribunto", None))
        for title, nodes in self.pages.items():
            out.append((title, 0, self.render(nodes), "wikitext", None))
        return out

    # ---------------------------------------------------------------- model
    def expected(self, title):
        return self.ev(self.pages[title], None)

    def ev(self, nodes, args):
        return "".join(self._e(n, args) for n in nodes)

    def _e(self, n, args):
        k = n[0]
        if k == "lit":
            return n[1]
        if k == "arg":
            if args is not None and n[1] <= len(args):
                return args[n[1] - 1]
            return self.ev(n[2], args)
        if k == "call":
            name = self.redirects.get(n[1], n[1])
            return self.ev(self.templates[name], [self.ev(a, args) for a in n[2]])
        if k == "if":
            return self.ev(n[2], args) if self.ev(n[1], args).strip() else self.ev(n[3], args)
        if k == "uc":
            return self.ev(n[1], args).upper()
        if k == "invoke":
            m = self.modules[n[1]]
            a = [self.ev(x, args) for x in n[3]]
            a1 = a[0] if a else ""
            f = n[2]
            if f == "echo":
                return m["tag"] + "(" + a1 + ")"
            if f == "cat":
                return m["tag"] + "+".join(a)
            if f == "up":
                return a1.upper()
            if f == "parent":
                return m["tag"] + ":" + (args[0] if args else "noparent")
            if f == "tpl":
                return m["tag"] + self.ev(self.templates[m["tpl"]], [a1])
            if f == "req":
                return m["tag"] + "h" + self.modules[m["req"]]["tag"] + "<" + a1 + ">"
            if f == "data":
                return m["tag"] + self.datamods[m["data"]].get(a1, "nil")
        raise ValueError(k)

    def features(self, title):
        out = set()

        def walk(nodes):
            for n in nodes:
                if n[0] == "invoke":
                    out.add("lua:" + n[2])
                    for a in n[3]:
                        walk(a)
                elif n[0] == "call":
                    out.add("redirect" if n[1] in self.redirects else "template")
                    walk(self.templates[self.redirects.get(n[1], n[1])])
                    for a in n[2]:
                        walk(a)
                elif n[0] in ("if", "uc"):
                    out.add(n[0])
                    for a in n[1:]:
                        if isinstance(a, list):
                            walk(a)
                elif n[0] == "arg":
                    out.add("arg")
                    walk(n[2])
        walk(self.pages[title])
        return out

    def uses_lua(self, title):
        return any(f.startswith("lua:") for f in self.features(title))


def gen_site(rng, npages=None, mark=""):
    """mark is put into literals so that two generations with the same rng seed but a
    different mark give structurally identical sites with different stored text."""
    s = Site()
    ntempl = rng.randint(3, 7)
    nmod = rng.randint(2, 4)
    ndata = rng.randint(1, 2)
    for i in range(ndata):
        s.datamods["Dq%d" % i] = {"k%d" % j: word(rng) + mark for j in range(rng.randint(1, 4))}
    tnames, mnames = [], []

    def lit():
        return ("lit", word(rng) + mark)

    def small(in_template, depth=0):
        """argument-sized node list: no white space at the edges, never empty"""
        r = rng.random()
        if in_template and r < 0.35:
            return [("arg", rng.randint(1, 2), [lit()])]
        if r < 0.5 and tnames and depth < 2:
            return [("call", rng.choice(tnames + list(s.redirects)), [small(in_template, depth + 1) for _ in range(rng.randint(0, 2))])]
        if r < 0.6 and mnames and depth < 2:
            return [invoke(in_template, depth + 1)]
        if r < 0.7:
            return [("uc", [lit()])]
        return [lit()]

    def invoke(in_template, depth=0):
        m = rng.choice(mnames)
        spec = s.modules[m]
        fns = ["echo", "cat", "up"] + [f for f in ("tpl", "req", "data") if spec.get(f)] + (["parent"] if in_template else [])
        f = rng.choice(fns)
        if f == "data":
            keys = sorted(s.datamods[spec["data"]]) + ["zz"]
            return ("invoke", m, f, [[("lit", rng.choice(keys))]])
        if f == "cat":
            return ("invoke", m, f, [small(in_template, depth + 1) for _ in range(rng.randint(1, 3))])
        if f == "parent":
            return ("invoke", m, f, [])
        return ("invoke", m, f, [small(in_template, depth + 1)])

    def body(in_template, n):
        out = []
        for _ in range(n):
            r = rng.random()
            if r < 0.25:
                out.append(lit())
            elif r < 0.5 and tnames:
                out.append(("call", rng.choice(tnames + list(s.redirects)), [small(in_template) for _ in range(rng.randint(0, 2))]))
            elif r < 0.75 and mnames:
                out.append(invoke(in_template))
            elif r < 0.85:
                out.append(("if", small(in_template) if rng.random() < 0.7 else [("lit", "")], small(in_template), small(in_template)))
            elif in_template:
                out.append(("arg", rng.randint(1, 2), [lit()]))
            else:
                out.append(("uc", small(in_template)))
            out.append(("lit", "."))
        return out

    # interleave creation so later templates can call earlier templates/modules and
    # modules can expand earlier templates / require earlier modules
    ti = mi = 0
    while ti < ntempl or mi < nmod:
        if ti < ntempl and (mi >= nmod or rng.random() < 0.6):
            name = "Tq%d" % ti
            s.templates[name] = [("lit", "[%s:" % name)] + body(True, rng.randint(1, 3)) + [("lit", "]")]
            tnames.append(name)
            if rng.random() < 0.3:
                s.redirects["Rq%d" % ti] = name
            ti += 1
        else:
            name = "Mq%d" % mi
            s.modules[name] = {"tag": word(rng) + mark,
                               "tpl": rng.choice(tnames) if tnames and rng.random() < 0.7 else None,
                               "req": rng.choice(mnames) if mnames and rng.random() < 0.7 else None,
                               "data": rng.choice(sorted(s.datamods)) if rng.random() < 0.7 else None}
            mnames.append(name)
            mi += 1
    drawn = rng.randint(4, 9)
    npages = npages or drawn
    for i in range(npages):
        t = "Pg%d" % i
        s.pages[t] = body(False, rng.randint(2, 5))
        s.order.append(t)
    # make sure at least two pages need Lua and one does not (schedules differ in when
    # the first Lua use -- the bootstrap write -- happens)
    if not any(s.uses_lua(t) for t in s.order[:2]):
        s.pages[s.order[0]].append(("invoke", mnames[0], "echo", [[lit()]]))
    if all(s.uses_lua(t) for t in s.order):
        s.pages[s.order[-1]] = [lit(), ("uc", [lit()])]
    return s


def stale_copy(seed, npages):
    """Structurally the same site, every literal carries the mark '-old'."""
    return gen_site(random.Random(seed), npages, mark="-old")
