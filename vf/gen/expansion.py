"""Expansion-AST grammar (C04, C05, C08, C13, C16): the AST is rendered to wikitext for the
real code and evaluated directly by vf.ref.transclusion (which never parses wikitext).

Nodes (tuples):
  ("T", text) | ("S", [nodes]) | ("P", rawname, key, default|None)
  ("C", rawname, name, [arg]) with arg = ("pos", S) | ("named", rawkey, key, S, lead, trail)
                                      | ("cnamed", nameS, S, lead, trail)   name computed from an AST (C04 only)
  ("IF", c, a, b) | ("EQ", x, y, a, b) | ("SW", v, [(case|None, S|None)...])   case None = lone value
  ("NOINC", S) | ("ONLYINC", S) | ("INCONLY", S) | ("COMMENT", text)      (template bodies only)
  ("INV", fn, [S...])   {{#invoke:c13echo|fn|...}} (C13 only; module text in vf.props.c13)
  ("RN", rawname, IF|EQ|SW node)   the parser function written under another spelling of its name, e.g. #IF (C13 only)
"""
from __future__ import annotations

import random

ATOMS = ["a", "b", "c", "x1", "2", "é", "語", " ", "  ", "q r", "\t"]
MARKS = ["*", "#", ":", ";"]   # "{|" contains a pipe: only generated at the start of a body/page (outside any call)
KEYS = ["n", "m", "1", "2", "k k", "3"]


class Cfg:
    def __init__(self, **kw):
        self.newlines = True          # interior / leading newlines in text
        self.trailing_nl_pos = False  # tagged class: positional value ending in newline
        self.markers = True           # marker chars at value starts
        self.numeric_cmp = False      # tagged class: '1' vs '01' comparands
        self.include_tags = True
        self.switch = True
        self.missing = True
        self.max_args = 3
        self.__dict__.update(kw)


def gen_text(rng, cfg, tags):
    n = rng.randint(0, 3)
    s = "".join(rng.choice(ATOMS) for _ in range(n))
    if cfg.newlines and rng.random() < 0.12:
        i = rng.randint(0, len(s))
        s = s[:i] + "\n" + s[i:]
    if cfg.markers and rng.random() < 0.08:
        s = rng.choice(MARKS) + s
        tags.add("marker-start")
    return ("T", s)


def gen(rng, depth, lib, in_body, cfg, tags):
    r = rng.random()
    if depth <= 0 or r < 0.33:
        return gen_text(rng, cfg, tags)
    if r < 0.50 and in_body:
        key = rng.choice(KEYS)
        raw = rng.choice(["", " "]) + key + rng.choice(["", " "])
        d = seq(rng, depth - 1, lib, in_body, cfg, tags) if rng.random() < 0.5 else None
        tags.add("param-default" if d is not None else "param")
        return ("P", raw, key, d)
    if r < 0.84:
        pool = list(lib) + (["missing"] if cfg.missing else [])
        name = rng.choice(pool) if pool else "missing"
        raw = rng.choice(["", " ", "\n"]) + name + rng.choice(["", " "])
        args = []
        for _ in range(rng.randint(0, cfg.max_args)):
            if rng.random() < 0.5:
                v = seq(rng, depth - 1, lib, in_body, cfg, tags)
                args.append(("pos", v))
            else:
                k = rng.choice(KEYS)
                rawk = rng.choice(["", " ", "  "]) + k + rng.choice(["", " "])
                args.append(("named", rawk, k, seq(rng, depth - 1, lib, in_body, cfg, tags),
                             rng.choice(["", " ", "\n"]), rng.choice(["", " ", "\n"])))
                tags.add("named-arg")
        tags.add("call")
        return ("C", raw, name, args)
    if r < 0.91:
        tags.add("if")
        return ("IF",) + tuple(seq(rng, depth - 1, lib, in_body, cfg, tags) for _ in range(3))
    if r < 0.96 or not cfg.switch:
        tags.add("ifeq")
        return ("EQ",) + tuple(seq(rng, depth - 1, lib, in_body, cfg, tags) for _ in range(4))
    tags.add("switch")
    cases = []
    for _ in range(rng.randint(1, 4)):
        c = rng.choice(["a", "b", "2", "#default", "x1"])
        if rng.random() < 0.2:
            c = rng.choice(["a", "b", "2", "x1"])
            cases.append((None, ("S", [("T", c)])))      # lone value (fall-through / default)
        else:
            cases.append((c, seq(rng, depth - 1, lib, in_body, cfg, tags)))
    return ("SW", seq(rng, depth - 1, lib, in_body, cfg, tags), cases)


def seq(rng, depth, lib, in_body, cfg, tags):
    return ("S", [gen(rng, depth, lib, in_body, cfg, tags) for _ in range(rng.randint(1, 3))])


def gen_body(rng, depth, lib, cfg, tags):
    """Template body: a sequence, optionally wrapped in / interleaved with include tags."""
    parts = [seq(rng, depth, lib, True, cfg, tags)]
    if cfg.markers and getattr(cfg, "table_marker", True) and rng.random() < 0.05:
        parts.insert(0, ("T", "{|"))
        tags.add("table-marker-start")
    if cfg.include_tags and rng.random() < 0.35:
        r = rng.random()
        extra = seq(rng, 1, [], True, cfg, tags)
        if r < 0.3:
            parts.insert(rng.randint(0, 1), ("NOINC", extra)); tags.add("noinclude")
        elif r < 0.55:
            parts = [("T", "junk"), ("ONLYINC", parts[0]), ("T", "junk2")]; tags.add("onlyinclude")
            if rng.random() < 0.3:
                parts.append(("ONLYINC", extra))
        elif r < 0.8:
            parts.insert(rng.randint(0, 1), ("INCONLY", extra)); tags.add("includeonly")
        else:
            # comments may contain anything, also inclusion tags and calls: they are removed FIRST
            ctext = rng.choice([" c {{x}} ", " <noinclude> ", " </noinclude> ", " <onlyinclude>z</onlyinclude> ", "<includeonly>",
                                " {{{1}}} <noinclude>n</noinclude> ", " </includeonly> - ", "|", "-"])
            parts.insert(rng.randint(0, len(parts)), ("COMMENT", ctext)); tags.add("comment")
            if "include" in ctext:
                tags.add("comment-with-inclusion-tag")
                if rng.random() < 0.5:      # ... also inside / next to real inclusion sections
                    extra2 = seq(rng, 1, [], True, cfg, tags)
                    parts.append(("NOINC", ("S", [("T", "doc "), ("COMMENT", " </noinclude> "), ("T", " more"), extra2])))
    return ("S", parts)


def gen_library(rng, n, depth, cfg, tags, names=None):
    """Acyclic library: template i may only call templates with larger index."""
    names = names or ["ta", "tb", "tc", "td", "te"][:n]
    lib = {}
    for i, nm in enumerate(names):
        lib[nm] = gen_body(rng, depth, names[i + 1:], cfg, tags)
    return lib


def render(a):
    k = a[0]
    if k == "T":
        return a[1]
    if k == "S":
        return "".join(render(x) for x in a[1])
    if k == "P":
        return "{{{" + a[1] + ("|" + render(a[3]) if a[3] is not None else "") + "}}}"
    if k == "C":
        parts = [a[1]]
        for arg in a[3]:
            if arg[0] == "pos":
                parts.append(render(arg[1]))
            elif arg[0] == "cnamed":
                parts.append(render(arg[1]) + "=" + arg[3] + render(arg[2]) + arg[4])
            else:
                parts.append(arg[1] + "=" + arg[4] + render(arg[3]) + arg[5])
        return "{{" + "|".join(parts) + "}}"
    if k == "CN":
        # ("CN", prefix, inner, name, args): call whose NAME is computed by a nested parser function
        return render(("C", a[1] + render(a[2]), a[3], a[4]))
    if k == "IF":
        return "{{#if:" + "|".join(render(x) for x in a[1:]) + "}}"
    if k == "EQ":
        return "{{#ifeq:" + "|".join(render(x) for x in a[1:]) + "}}"
    if k == "SW":
        return "{{#switch:" + render(a[1]) + "".join(
            "|" + (render(v) if c is None else c + "=" + render(v)) for c, v in a[2]) + "}}"
    if k == "NOINC":
        return "<noinclude>" + render(a[1]) + "</noinclude>"
    if k == "ONLYINC":
        return "<onlyinclude>" + render(a[1]) + "</onlyinclude>"
    if k == "INCONLY":
        return "<includeonly>" + render(a[1]) + "</includeonly>"
    if k == "COMMENT":
        return "<!--" + a[1] + "-->"
    if k == "INV":
        return "{{#invoke:c13echo|" + a[1] + "".join("|" + render(x) for x in a[2]) + "}}"
    if k == "RN":
        r = render(a[2])
        return "{{" + a[1] + r[r.index(":"):]
    raise ValueError(k)


def size(a):
    k = a[0]
    if k == "T":
        return 1
    if k == "S":
        return 1 + sum(size(x) for x in a[1])
    if k == "P":
        return 1 + (size(a[3]) if a[3] is not None else 0)
    if k == "C":
        return 1 + sum(size(x[1]) + size(x[2]) if x[0] == "cnamed" else size(x[1] if x[0] == "pos" else x[3]) for x in a[3])
    if k in ("IF", "EQ"):
        return 1 + sum(size(x) for x in a[1:])
    if k == "CN":
        return 2 + size(("C", "", "", a[4]))
    if k == "SW":
        return 1 + size(a[1]) + sum(size(v) for c, v in a[2])
    if k in ("NOINC", "ONLYINC", "INCONLY"):
        return 1 + size(a[1])
    if k == "INV":
        return 1 + sum(size(x) for x in a[2])
    if k == "RN":
        return 1 + size(a[2])
    return 1


def shrinks(a):
    """Yield strictly smaller variants of AST a (for delta-minimisation)."""
    k = a[0]
    if k == "S":
        items = a[1]
        for i in range(len(items)):
            if len(items) > 1:
                yield ("S", items[:i] + items[i + 1:])
        for i, x in enumerate(items):
            for y in shrinks(x):
                yield ("S", items[:i] + [y] + items[i + 1:])
    elif k == "T":
        s = a[1]
        if len(s) > 0:
            yield ("T", "")
        if len(s) > 1:
            yield ("T", s[: len(s) // 2])
            yield ("T", s[len(s) // 2:])
            yield ("T", s[1:])
            yield ("T", s[:-1])
    elif k == "P":
        if a[3] is not None:
            yield ("P", a[1], a[2], None)
            yield a[3]
            for y in shrinks(a[3]):
                yield ("P", a[1], a[2], y)
        if a[1] != a[2]:
            yield ("P", a[2], a[2], a[3])
    elif k == "C":
        args = a[3]
        for i in range(len(args)):
            yield ("C", a[1], a[2], args[:i] + args[i + 1:])
        if a[1] != a[2]:
            yield ("C", a[2], a[2], args)
        for i, arg in enumerate(args):
            if arg[0] == "pos":
                yield arg[1]
                for y in shrinks(arg[1]):
                    yield ("C", a[1], a[2], args[:i] + [("pos", y)] + args[i + 1:])
            elif arg[0] == "cnamed":
                yield arg[2]
                if (arg[3], arg[4]) != ("", ""):
                    yield ("C", a[1], a[2], args[:i] + [("cnamed", arg[1], arg[2], "", "")] + args[i + 1:])
                for y in shrinks(arg[1]):
                    yield ("C", a[1], a[2], args[:i] + [("cnamed", y, arg[2], arg[3], arg[4])] + args[i + 1:])
                for y in shrinks(arg[2]):
                    yield ("C", a[1], a[2], args[:i] + [("cnamed", arg[1], y, arg[3], arg[4])] + args[i + 1:])
            else:
                yield arg[3]
                if (arg[1], arg[4], arg[5]) != (arg[2], "", ""):
                    yield ("C", a[1], a[2], args[:i] + [("named", arg[2], arg[2], arg[3], "", "")] + args[i + 1:])
                for y in shrinks(arg[3]):
                    yield ("C", a[1], a[2], args[:i] + [("named", arg[1], arg[2], y, arg[4], arg[5])] + args[i + 1:])
    elif k == "CN":
        yield ("C", a[3], a[3], a[4])
        for y in shrinks(("C", a[3], a[3], a[4])):
            if y[0] == "C":
                yield ("CN", a[1], a[2], a[3], y[3])
    elif k in ("IF", "EQ"):
        for x in a[1:]:
            yield x
        for i in range(1, len(a)):
            for y in shrinks(a[i]):
                yield a[:i] + (y,) + a[i + 1:]
    elif k == "SW":
        yield a[1]
        for c, v in a[2]:
            yield v
        for i in range(len(a[2])):
            if len(a[2]) > 1:
                yield ("SW", a[1], a[2][:i] + a[2][i + 1:])
        for y in shrinks(a[1]):
            yield ("SW", y, a[2])
        for i, (c, v) in enumerate(a[2]):
            for y in shrinks(v):
                yield ("SW", a[1], a[2][:i] + [(c, y)] + a[2][i + 1:])
    elif k in ("NOINC", "ONLYINC", "INCONLY"):
        yield a[1]
        for y in shrinks(a[1]):
            yield (k, y)
    elif k == "INV":
        for x in a[2]:
            yield x
        for i in range(len(a[2])):
            yield ("INV", a[1], a[2][:i] + a[2][i + 1:])
        for i, x in enumerate(a[2]):
            for y in shrinks(x):
                yield ("INV", a[1], a[2][:i] + [y] + a[2][i + 1:])
    elif k == "RN":
        yield a[2]
        for y in shrinks(a[2]):
            if y[0] == a[2][0]:
                yield ("RN", a[1], y)


def tojson(a):
    return a


def fromjson(a):
    """JSON round trip turns tuples into lists: restore tuples for nodes, lists for sequences."""
    if isinstance(a, list):
        k = a[0]
        if k == "T" or k == "COMMENT":
            return (k, a[1])
        if k == "S":
            return ("S", [fromjson(x) for x in a[1]])
        if k == "P":
            return ("P", a[1], a[2], None if a[3] is None else fromjson(a[3]))
        if k == "C":
            args = []
            for x in a[3]:
                if x[0] == "pos":
                    args.append(("pos", fromjson(x[1])))
                elif x[0] == "cnamed":
                    args.append(("cnamed", fromjson(x[1]), fromjson(x[2]), x[3], x[4]))
                else:
                    args.append(("named", x[1], x[2], fromjson(x[3]), x[4], x[5]))
            return ("C", a[1], a[2], args)
        if k == "CN":
            c = fromjson(["C", "", a[3], a[4]])
            return ("CN", a[1], fromjson(a[2]), a[3], c[3])
        if k in ("IF", "EQ"):
            return (k,) + tuple(fromjson(x) for x in a[1:])
        if k == "SW":
            return ("SW", fromjson(a[1]), [(c, fromjson(v)) for c, v in a[2]])
        if k in ("NOINC", "ONLYINC", "INCONLY"):
            return (k, fromjson(a[1]))
        if k == "INV":
            return ("INV", a[1], [fromjson(x) for x in a[2]])
        if k == "RN":
            return ("RN", a[1], fromjson(a[2]))
    return a
