"""Generator of MediaWiki XML dumps (.xml.bz2) for C12.

A dump is (pages, opts):
  page = {"uid", "title", "ns", "model", "text", "redirect"}      (JSON-able)
  opts = {"lang", "selected": [ns ids], "xmlns": "0.10"|"0.11"|"none", "siteinfo": bool, "extras": bool,
          "indent": bool, "splits": [fractions -> multistream bz2], "decomp": "bzcat"|"py", "level": 1..9,
          "pre": None | {"reads0": [[kind, title, ns]], "earlier_route": None|"process_dump"|"parse_dump_xml"|"parse_only",
                         "earlier_selected": [ns ids], "reads1": [...]}}   (what the ingesting context did BEFORE; pages with
          "phase": 0 form the earlier dump)
The XML is produced by lxml (escaping is therefore third-party work).
"""
from __future__ import annotations

import bz2
import json
import random
import re

LANGS = ["en", "fr", "de", "ru", "ja", "zh"]
MODELS_KEPT = ["wikitext", "Scribunto", "json"]
MODELS_DROPPED = ["css", "javascript", "sanitized-css", "text", "GadgetDefinition", "MassMessageListContent",
                  "flow-board", "wikibase-item", "Json.JsonConfig", ""]
XMLNS = {"0.10": "http://www.mediawiki.org/xml/export-0.10/", "0.11": "http://www.mediawiki.org/xml/export-0.11/",
         "none": None}
XML_SPACE = "{http://www.w3.org/XML/1998/namespace}space"

_NSDATA = {}


def nsdata(lang):
    """{ns_id: local name} from the language data shipped with the package (data, not code)."""
    if lang not in _NSDATA:
        from importlib.resources import files
        with (files("wikitextprocessor") / "data" / lang / "namespaces.json").open(encoding="utf-8") as f:
            d = json.load(f)
        _NSDATA[lang] = {"names": {v["id"]: v["name"] for v in d.values()},
                         "canon": {v["id"]: k for k, v in d.items()},
                         "template": d["Template"]["name"], "module": d["Module"]["name"],
                         "module_id": d["Module"]["id"]}
    return _NSDATA[lang]


def prefix(lang, ns):
    return "" if ns == 0 else nsdata(lang)["names"][ns] + ":"


def xml_ok(s):
    return "".join(c for c in s if c in "\t\n\r" or 0x20 <= ord(c) <= 0xD7FF or 0xE000 <= ord(c) <= 0xFFFD
                   or 0x10000 <= ord(c) <= 0x10FFFF)


# ---------------------------------------------------------------- titles

WORDS = ["foo", "Bar", "baz", "water", "Haus", "maison", "слово", "語", "日本語", "كلمة", "λόγος", "é", "ß", "Ünï", "x",
         "a", "A1", "word list", "free", "cat", "dog", "ét́", "😀", "𐍈", "İi", "ǅ", "ﬁ", "t-shirt", "O'Neil",
         "AT&T", "\"quoted\"", "50%", "a.b", "a,b", "(paren)", "1+1", "~", "$1", "@", "¿qué?", "!", "=", "((", "))", "-"]
MAINLIKE = ["Main:", "Main:", "Main:", "main:", "MAIN:", "Main :", "Main talk:", "Mainx:", "Main::", " Main:", "Main:Main:"]


def title_rest(rng, lang, ns):
    """The part of a title after the namespace prefix; returns (rest, shape-tag)."""
    w = rng.choice
    r = rng.random()
    if r < 0.22:
        return w(WORDS), "simple"
    if r < 0.30:
        return w(WORDS) + " " + w(WORDS), "space"
    if r < 0.40:
        return w(WORDS) + w([":", ": ", " :", "::", ":"]) + w(WORDS), "colon"
    if r < 0.47:
        # prefix of another namespace (or something that looks like one) inside this title
        names = nsdata(lang)["names"]
        other = names[w(sorted(names))]
        return w([other, other.lower(), "Foo", "w", "Template", "Module"]) + ":" + w(WORDS), "nslike-prefix"
    if r < 0.55:
        return w(MAINLIKE) + w(WORDS + ["", "baz", "baz"]), "mainlike-prefix"
    if r < 0.63:
        return w(WORDS) + "/" + w(WORDS) + w(["", "/" + w(WORDS)]), "slash"
    if r < 0.70:
        return w(WORDS) + "/documentation", "doc-suffix"
    if r < 0.75:
        return w(WORDS) + w(["/documentation/x", "/documentation ", "/Documentation", "/documentations", " documentation",
                             "/doc", "documentation", "/documentation/documentatio"]), "doc-near"
    if r < 0.82:
        return w(WORDS) + w(["/testcases", "/testcases/x", "/testcases2", "/sub/testcases", "/testcases/documentation"]), "testcases"
    if r < 0.86:
        return w(WORDS) + w(["/Testcases", "/test cases", " testcases", "testcases", "/testcase", "/TESTCASES"]), "testcases-near"
    if r < 0.91:
        x = w(WORDS)
        return x[:1].lower() + x[1:] + w(["", " b", "/c"]), "lower-initial"
    if r < 0.95:
        return "".join(w(WORDS) + w([" ", "-", "/", ":", ""]) for _ in range(rng.randint(8, 40)))[:rng.randint(60, 240)].strip() or "L", "long"
    return w(["&", "&amp;", "'", "''", "\"", "a&b;", "&#38;", "&lt;", "%26", "a b", "‎", "a　b", "…", "﻿x"]) + w(WORDS), "xml-special"


def make_title(rng, lang, ns):
    rest, shape = title_rest(rng, lang, ns)
    rest = xml_ok(rest)
    if ns != 0 and rng.random() < 0.03:
        rest = prefix(lang, ns) + rest  # "Template:Template:x"
        shape = "double-prefix"
    return prefix(lang, ns) + rest, shape


# ---------------------------------------------------------------- bodies

FRAGS = ["{{{1|}}}", "{{t|a=b}}", "[[link|text]]", "''i''", "'''b'''", "\n== H ==\n", "\n* item", "\n# n", "{|\n|-\n| c\n|}",
         "&amp;", "&", "&lt;", "<", ">", "\"", "'", "]]>", "<![CDATA[x]]>", "<b>bold</b>", "<br/>", "<ref name=\"a\">r</ref>",
         "&#13;", "&#x0A;", "<?xml version=\"1.0\"?>", "</text>", "</page>", "<page>", "<title>x</title>", "</revision>",
         "\t", "\n", "\n\n", " ", "  ", "\r\n", "\r", " ", " ", "‎", "é", "ß", "日本語", "العربية", "😀",
         "é", "﻿", "\x7f", "\u0085", "%", "\\", "$1", "--", "-->", "<!-", "#REDIRECT [[x]]", "&&", "<<", ">>",
         "&quot;", "&apos;", "&#0;", "&bogus;", "]]", "]]]]>", "<nowiki>n</nowiki>", "{{#if:x|y}}", "word", "text", "a b c",
         "Lorem ipsum", "1", "0", "|", "=", "{{", "}}", "[[", "　", "�", "\U0010ffff", ""]
INCL_HOSTILE = ["<noinclude>", "</noinclude>", "<includeonly>", "</includeonly>", "<onlyinclude>", "</onlyinclude>",
                "<!--", "<!-- c -->", "<noinclude/>", "<NOINCLUDE >", "<includeonly/>", "<onlyinclude/>"]
WSEDGE = [" ", "  ", "\n", "\n\n", "\t", " \n ", "\r\n", " ", "\n \n", "   \t"]
_TAGLIKE = re.compile(r"(?i)<\s*/?\s*(noinclude|onlyinclude|includeonly)|<!--")


def plain(rng, n=None, incl_hostile=False):
    n = rng.randint(0, 8) if n is None else n
    out = []
    for _ in range(n):
        if incl_hostile and rng.random() < 0.25:
            out.append(rng.choice(INCL_HOSTILE))
        else:
            out.append(rng.choice(FRAGS))
    return xml_ok("".join(out))


def tplain(rng, n=None):
    """Plain text for a template body segment: nothing that reads as a comment or include tag."""
    for _ in range(20):
        s = plain(rng, n)
        if not _TAGLIKE.search(s) and "<" not in s[-3:] and "-->" not in s:
            return s
    return "x"


def _sp(rng, name, close=False):
    name = rng.choice([name, name, name.upper(), name.capitalize()])
    return "<" + ("/" if close else "") + name + rng.choice(["", "", "", " ", "\n"]) + ">"


def template_body(rng):
    """A template body from a small AST -> (text, includable-by-construction, feature set)."""
    feats = set()
    segs = []   # (source, included-text)

    def comment():
        feats.add("comment")
        inner = rng.choice(["", " c ", "\n", " <noinclude> ", " </noinclude> ", "<onlyinclude>x</onlyinclude>", "-", "<!--", " {{x}} ", "é"])
        return "<!--" + inner + "-->"

    def noinc():
        feats.add("noinclude")
        inner = tplain(rng, rng.randint(0, 3)) + (comment() if rng.random() < 0.2 else "") + tplain(rng, rng.randint(0, 2))
        return _sp(rng, "noinclude") + inner + _sp(rng, "noinclude", True)

    def incl_only():
        feats.add("includeonly")
        t = tplain(rng, rng.randint(0, 3))
        return _sp(rng, "includeonly") + t + _sp(rng, "includeonly", True), t

    def item(inside_only):
        r = rng.random()
        if r < 0.45:
            t = tplain(rng, rng.randint(1, 4))
            return t, t
        if r < 0.60:
            return comment(), ""
        if r < 0.80:
            return noinc(), ""
        return incl_only()

    use_only = rng.random() < 0.3
    n = rng.randint(0, 6)
    outside, inside = [], []
    for _ in range(n):
        if use_only and rng.random() < 0.5:
            feats.add("onlyinclude")
            parts = [item(True) for _ in range(rng.randint(0, 3))]
            src = _sp(rng, "onlyinclude") + "".join(p[0] for p in parts) + _sp(rng, "onlyinclude", True)
            inc = "".join(p[1] for p in parts)
            segs.append((src, inc, True))
        else:
            s, i = item(False)
            segs.append((s, i, False))
    r = rng.random()
    if r < 0.08:
        feats.add("unclosed-noinclude")
        segs.append((_sp(rng, "noinclude") + tplain(rng, 2), "", False))
    elif r < 0.14:
        feats.add("unclosed-comment")
        segs.append(("<!--" + tplain(rng, 2), "", False))
    if rng.random() < 0.3:
        feats.add("edge-ws")
        w = rng.choice(WSEDGE)
        segs.insert(0, (w, w, False))
        w = rng.choice(WSEDGE)
        # trailing blanks stay visible only when nothing unclosed precedes them
        if not (feats & {"unclosed-noinclude", "unclosed-comment"}):
            segs.append((w, w, False))
    text = "".join(s[0] for s in segs)
    if any(s[2] for s in segs):
        inc = "".join(s[1] for s in segs if s[2])
    else:
        inc = "".join(s[1] for s in segs)
    return text, inc, feats


def body(rng, ns, model, lang, big=False):
    """-> (text, feature set) for a non-template page"""
    feats = set()
    r = rng.random()
    if r < 0.06:
        return "", {"empty"}
    if r < 0.10:
        return rng.choice(WSEDGE) + rng.choice(["", rng.choice(WSEDGE)]), {"ws-only", "edge-ws"}
    if model == "Scribunto" and r < 0.6:
        t = "local p = {}\nfunction p.f(frame)\n  return \"" + rng.choice(["<b>", "&amp;", "x", "<!-- c -->", "<noinclude>n</noinclude>", "]]>"]) + \
            "\" .. (frame.args[1] or '') -- " + plain(rng, 2).replace("\n", " ") + "\nend\nreturn p" + rng.choice(["", "\n", "\n\n", " "])
    elif model == "json" and r < 0.6:
        t = json.dumps({"k": plain(rng, 2, incl_hostile=rng.random() < 0.6),
                        "description": rng.choice(["wrap the documentation in <noinclude> tags", "<!-- not a comment -->", "plain",
                                                   "<includeonly>x</includeonly>", "<onlyinclude>"]), "n": [1, 2, {"<": "&"}], "é": " "}, ensure_ascii=rng.random() < 0.5,
                       indent=rng.choice([None, 1, "\t"]))
    else:
        t = plain(rng, rng.randint(1, 12), incl_hostile=rng.random() < 0.5)
    if rng.random() < 0.35:
        feats.add("edge-ws")
        t = rng.choice(WSEDGE + [""]) + t + rng.choice(WSEDGE + [""])
    if big:
        feats.add("large")
        unit = t + plain(rng, 6, incl_hostile=True) + "\n"
        target = rng.choice([70_000, 300_000, 1_100_000, 2_200_000])
        t = (unit * (target // max(1, len(unit)) + 1))[:target]
        t = xml_ok(t)
    if _TAGLIKE.search(t):
        feats.add("include-markup")
    if re.search(r"[&<>\"']", t):
        feats.add("xml-special")
    if "]]>" in t:
        feats.add("cdata-end")
    if "\r" in t:
        feats.add("cr")
    if re.search(r"[^\x00-\x7f]", t):
        feats.add("non-ascii")
    if re.search(r"[\U00010000-\U0010ffff]", t):
        feats.add("astral")
    return t, feats


# ---------------------------------------------------------------- page sets

def pick_model(rng, lang, ns):
    d = nsdata(lang)
    r = rng.random()
    if ns == d["module_id"]:
        return "Scribunto" if r < 0.6 else ("json" if r < 0.8 else rng.choice(MODELS_KEPT + MODELS_DROPPED))
    if ns == 8:  # MediaWiki:
        return rng.choice(["wikitext", "css", "javascript", "json", "sanitized-css"])
    if ns == 10:
        # Template namespace: mostly wikitext, now and then data / code pages (Template:Foo/data.json, TemplateStyles css)
        return "wikitext" if r < 0.8 else "json" if r < 0.88 else "Scribunto" if r < 0.93 else rng.choice(MODELS_KEPT + MODELS_DROPPED)
    if r < 0.8:
        return "wikitext"
    return rng.choice(MODELS_KEPT + MODELS_DROPPED)


def make_page(rng, lang, ns, uid, big=False, force=None):
    force = force or {}
    title, shape = make_title(rng, lang, ns)
    if "title" in force:
        title, shape = force["title"], force.get("shape", "forced")
    model = force.get("model") or pick_model(rng, lang, ns)
    feats = {"title:" + shape}
    redirect = None
    is_redirect = force.get("redirect", rng.random() < 0.12)
    incl = None
    if is_redirect:
        tgt, _ = make_title(rng, lang, ns if rng.random() < 0.8 else 0)
        redirect = tgt
        text = rng.choice(["#REDIRECT [[%s]]", "#redirect [[%s]]\n", "#REDIRECT[[%s]] {{R from}}"]) % tgt
        feats.add("redirect")
    elif ns == 10 and model == "wikitext":
        text, incl, f = template_body(rng)
        feats |= {"tbody:" + x for x in f}
    else:
        text, f = body(rng, ns, model, lang, big=big)
        feats |= {"body:" + x for x in f}
    p = {"uid": uid, "title": title, "ns": ns, "model": model, "text": text, "redirect": redirect}
    return p, feats, incl


def make_opts(rng, lang, quick=True):
    d = nsdata(lang)
    ids = sorted(d["names"])
    r = rng.random()
    if r < 0.30:
        sel = [0, 10, 828]
    elif r < 0.45:
        sel = list(ids)
    elif r < 0.50:
        sel = []
    elif r < 0.60:
        sel = [i for i in ids if i != 10]
    else:
        sel = sorted(set(rng.sample(ids, rng.randint(1, len(ids))) + rng.choice([[], [10], [0, 10]])))
    k = rng.choice([0, 0, 0, 1, 2, 5])
    return {"lang": lang, "selected": sel, "xmlns": rng.choice(["0.10", "0.10", "0.11", "none"]),
            "siteinfo": rng.random() < 0.6, "extras": rng.random() < 0.6, "indent": rng.random() < 0.6,
            "splits": sorted(round(rng.random(), 4) for _ in range(k)), "decomp": rng.choice(["bzcat", "bzcat", "py"]),
            "level": rng.choice([1, 9])}


def default_situation(rng, lang, pages, feats, uid):
    """Sometimes the dump itself brings (some of) the helper templates ! = (( ))."""
    d = nsdata(lang)
    sit = rng.choice(["absent", "absent", "present", "redirect", "dropped-model", "documentation-sub", "lower", "main-ns"])
    names = rng.sample(["!", "=", "((", "))"], rng.randint(1, 4))
    out = []
    for nm in names:
        t = d["template"] + ":" + nm
        if sit == "absent":
            continue
        if sit == "present":
            p, f, incl = make_page(rng, lang, 10, uid, force={"title": t, "shape": "default-name", "model": "wikitext", "redirect": False})
        elif sit == "redirect":
            p, f, incl = make_page(rng, lang, 10, uid, force={"title": t, "shape": "default-name", "model": "wikitext", "redirect": True})
        elif sit == "dropped-model":
            p, f, incl = make_page(rng, lang, 10, uid, force={"title": t, "shape": "default-name", "model": "css", "redirect": False})
        elif sit == "documentation-sub":
            p, f, incl = make_page(rng, lang, 10, uid, force={"title": t + "/documentation", "shape": "default-name-doc", "model": "wikitext", "redirect": False})
        elif sit == "lower":
            p, f, incl = make_page(rng, lang, 10, uid, force={"title": t + " ", "shape": "default-name-near", "model": "wikitext", "redirect": False})
        else:
            p, f, incl = make_page(rng, lang, 0, uid, force={"title": nm, "shape": "default-name-main", "model": "wikitext", "redirect": False})
        out.append((p, f, incl))
        uid += 1
    return sit, out


def random_dump(rng, lang=None, npages=40, allow_big=True):
    """-> (pages, opts, info)  info = {"feats": {uid: set}, "incl": {uid: str}, "default_situation": str, "dups": n}"""
    lang = lang or rng.choice(LANGS)
    d = nsdata(lang)
    ids = sorted(d["names"])
    opts = make_opts(rng, lang)
    pages, feats, incls = [], {}, {}
    n = rng.randint(max(1, npages // 2), npages + npages // 2)
    big_at = rng.randrange(n) if (allow_big and rng.random() < 0.12) else -1
    weights = []
    for i in ids:
        weights.append(8 if i == 0 else 8 if i == 10 else 6 if i == 828 else 1)
    uid = 0
    for k in range(n):
        ns = rng.choices(ids, weights)[0]
        p, f, incl = make_page(rng, lang, ns, uid, big=(k == big_at))
        pages.append(p)
        feats[uid] = f
        if incl is not None:
            incls[uid] = incl
        uid += 1
    sit, extra = default_situation(rng, lang, pages, feats, uid)
    for p, f, incl in extra:
        pages.insert(rng.randint(0, len(pages)), p)
        feats[p["uid"]] = f
        if incl is not None:
            incls[p["uid"]] = incl
        uid = max(uid, p["uid"] + 1)
    # duplicates: the same (title, ns) again with another body / model / redirect state
    ndup = rng.choice([0, 0, 1, 2, 4])
    dups = 0
    for _ in range(ndup):
        src = rng.choice(pages)
        how = rng.choice(["body", "body", "to-redirect", "dropped-model", "same"])
        force = {"title": src["title"], "shape": "dup"}
        if how == "to-redirect":
            force["redirect"] = True
        elif how == "dropped-model":
            force["model"] = "css"
            force["redirect"] = False
        else:
            force["redirect"] = False
            force["model"] = src["model"] if src["model"] in MODELS_KEPT else "wikitext"
        p, f, incl = make_page(rng, lang, src["ns"], uid, force=force)
        if how == "same":
            p["text"], p["redirect"], p["model"] = src["text"], src["redirect"], src["model"]
            incl = incls.get(src["uid"])
        f.add("dup:" + how)
        pos = rng.randint(pages.index(src) + 1, len(pages))
        pages.insert(pos, p)
        feats[uid] = f
        if incl is not None:
            incls[uid] = incl
        uid += 1
        dups += 1
    # "Main:x" next to "x" (both main namespace) now and then
    if rng.random() < 0.15:
        w = rng.choice(WORDS)
        for t in rng.sample([w, "Main:" + w], 2):
            p, f, incl = make_page(rng, lang, 0, uid, force={"title": t, "shape": "main-pair", "redirect": False, "model": "wikitext"})
            pages.insert(rng.randint(0, len(pages)), p)
            feats[uid] = f
            uid += 1
    return pages, opts, {"feats": feats, "incl": incls, "default_situation": sit, "dups": dups}


def sweep_dump(rng, lang, variant):
    """Systematic part: one page in EVERY namespace of the language data x a rotating title shape / model /
    redirect state, every namespace selected (variant 0), only {0, 10, 828} (1) or every second one (2)."""
    d = nsdata(lang)
    ids = sorted(d["names"])
    pages, feats, incls = [], {}, {}
    uid = 0
    rests = ["Page", "page", "Sub/page", "A:b", "Main:x", "X/documentation", "X/testcases", "X/testcases/y", "X/documentation/y",
             "É 語", "AT&T \"q\" 'a'"]
    models = MODELS_KEPT + ["css", "javascript", "sanitized-css"]
    k = variant
    for ns in ids:
        for j in range(3):
            rest = rests[(k + j * 4) % len(rests)]
            model = models[(k + j) % len(models)]
            red = (k + j) % 7 == 0
            p, f, incl = make_page(rng, lang, ns, uid, force={"title": prefix(lang, ns) + rest, "shape": "sweep", "model": model,
                                                             "redirect": red})
            pages.append(p)
            feats[uid] = f
            if incl is not None:
                incls[uid] = incl
            uid += 1
            k += 1
    sel = [list(ids), [0, 10, 828], ids[::2]][variant % 3]
    opts = {"lang": lang, "selected": sel, "xmlns": ["0.10", "0.11", "none"][variant % 3], "siteinfo": True, "extras": variant % 2 == 0,
            "indent": True, "splits": [] if variant % 2 else [0.31, 0.77], "decomp": "bzcat" if variant % 2 == 0 else "py", "level": 9}
    return pages, opts, {"feats": feats, "incl": incls, "default_situation": "absent", "dups": 0}


# ---------------------------------------------------------------- used context (reads / earlier dump)

HELPERS = ["!", "=", "((", "))"]
EARLY_UID = 100000


def spellings(lang, title, ns):
    """Ways a caller may spell (title, ns) in a lookup: [(title, ns|None), ...]"""
    pre = prefix(lang, ns)
    rest = title[len(pre):] if pre and title.startswith(pre) else title
    flip = rest[:1].swapcase() + rest[1:]
    out = [(title, ns), (title, ns), (title, None), (rest, ns), (pre + flip, ns), (title.replace(" ", "_"), ns),
           (pre.lower() + rest, ns), (pre.upper() + rest, ns)]
    canon = nsdata(lang)["canon"].get(ns)
    if ns != 0 and canon:
        out.append((canon + ":" + rest, ns))
    if ns == 0:
        out += [("Main:" + title, 0), (":" + title, 0)]
    return out


def make_reads(rng, lang, pages, expand_ok=True):
    """A seeded handful of reads: [[kind, title|wikitext, ns|None], ...]; kinds: page_exists, get_page, get_page_body,
    resolve (get_page_resolve_redirect), expand."""
    tp = nsdata(lang)["template"]
    kinds = ["page_exists", "get_page", "get_page_body", "resolve"]
    reads = []
    for nm in rng.sample(HELPERS, rng.randint(1, 4)):
        r = rng.random()
        if expand_ok and r < 0.2:
            reads.append(["expand", "a{{%s}}b" % nm, None])
        elif r < 0.75:
            reads.append([rng.choice(kinds), tp + ":" + nm, 10])
        else:
            t, ns = rng.choice(spellings(lang, tp + ":" + nm, 10))
            reads.append([rng.choice(kinds), t, ns])
    main = [p for p in pages if p.get("phase") != 0]
    for p in rng.sample(main, min(len(main), rng.randint(0, 4))):
        t, ns = rng.choice(spellings(lang, p["title"], p["ns"]))
        reads.append([rng.choice(kinds), t, ns])
    for _ in range(rng.randint(0, 2)):
        ns = rng.choice([0, 10, 828, None])
        reads.append([rng.choice(kinds), (prefix(lang, ns) if ns else "") + rng.choice(["No such page", "Nothing/here", "é none", ""]), ns])
    if expand_ok and rng.random() < 0.3:
        reads.append(["expand", rng.choice(["{{No such template|1}}", "x {{=}} y {{!}}", "[[link]] ''i''"]), None])
    rng.shuffle(reads)
    return reads


def used_context(rng, lang, pages, opts, info, p_used=0.55, p_earlier=0.35):
    """Sometimes the ingesting context is not fresh: it has answered lookups (also of titles the dump is about to
    define, in several spellings, and of the helper templates) and / or has already ingested an EARLIER small dump
    into the same database (pages marked "phase": 0; duplicates across the two dumps: last wins).
    -> pages (earlier dump first); opts gets "pre"."""
    if rng.random() >= p_used:
        return pages
    d = nsdata(lang)
    ids = sorted(d["names"])
    pre = {"reads0": make_reads(rng, lang, pages), "reads1": [], "earlier_route": None, "earlier_selected": []}
    early = []
    if rng.random() < p_earlier:
        uid = EARLY_UID
        for _ in range(rng.randint(2, 8)):
            r = rng.random()
            if r < 0.5 and pages:
                src = rng.choice(pages)
                how = rng.choice(["body", "body", "to-redirect", "dropped-model", "same"])
                force = {"title": src["title"], "shape": "xdup"}
                if how == "to-redirect":
                    force["redirect"] = True
                elif how == "dropped-model":
                    force["model"], force["redirect"] = "css", False
                else:
                    force["redirect"] = False
                    force["model"] = src["model"] if src["model"] in MODELS_KEPT else "wikitext"
                p, f, incl = make_page(rng, lang, src["ns"], uid, force=force)
                if how == "same":
                    p["text"], p["redirect"], p["model"] = src["text"], src["redirect"], src["model"]
                    incl = info["incl"].get(src["uid"])
                f.add("xdup:" + how)
            elif r < 0.7:
                nm = rng.choice(HELPERS)
                p, f, incl = make_page(rng, lang, 10, uid, force={"title": d["template"] + ":" + nm, "shape": "default-name",
                                                                 "model": "wikitext", "redirect": rng.random() < 0.15})
                f.add("early-helper")
            else:
                ns = rng.choice([0, 0, 10, 10, 828, rng.choice(ids)])
                p, f, incl = make_page(rng, lang, ns, uid)
            p["phase"] = 0
            f.add("phase:earlier")
            early.append(p)
            info["feats"][uid] = f
            if incl is not None:
                info["incl"][uid] = incl
            uid += 1
        pre["earlier_route"] = rng.choice(["process_dump", "parse_dump_xml", "parse_only"])
        pre["earlier_selected"] = rng.choice([list(opts["selected"]), list(ids), [0, 10, 828], list(opts["selected"])])
        pre["reads1"] = make_reads(rng, lang, pages) if rng.random() < 0.7 else []
    opts["pre"] = pre
    return early + pages


# ---------------------------------------------------------------- writing

def build_xml(pages, opts):
    from lxml import etree
    ns = XMLNS[opts.get("xmlns", "0.10")]
    q = (lambda t: "{%s}%s" % (ns, t)) if ns else (lambda t: t)
    root = etree.Element(q("mediawiki"), nsmap={None: ns} if ns else None)
    root.set("version", opts.get("xmlns", "0.10") if ns else "0.10")
    root.set("{http://www.w3.org/XML/1998/namespace}lang", opts["lang"])
    rng = random.Random(len(pages) * 7919 + len(opts.get("selected", ())))
    ind = opts.get("indent")

    def sub(parent, tag, text=None, **attrs):
        e = etree.SubElement(parent, q(tag))
        if text is not None:
            e.text = text
        for k, v in attrs.items():
            e.set(k, v)
        return e

    if opts.get("siteinfo"):
        si = sub(root, "siteinfo")
        sub(si, "sitename", "Wiktionary")
        sub(si, "dbname", opts["lang"] + "wiktionary")
        sub(si, "base", "https://%s.wiktionary.org/wiki/Main_Page" % opts["lang"])
        sub(si, "generator", "MediaWiki 1.41.0")
        sub(si, "case", "case-sensitive")
        nss = sub(si, "namespaces")
        for i, name in sorted(nsdata(opts["lang"])["names"].items()):
            sub(nss, "namespace", None if i == 0 else name, key=str(i), case="case-sensitive")
    for n, p in enumerate(pages):
        pe = sub(root, "page")
        sub(pe, "title", p["title"])
        sub(pe, "ns", str(p["ns"]))
        ex = opts.get("extras")
        if ex:
            sub(pe, "id", str(1000 + n))
        if p.get("redirect") is not None:
            sub(pe, "redirect", title=p["redirect"])
        if ex and rng.random() < 0.3:
            sub(pe, "restrictions", "edit=sysop:move=sysop")
        rev = sub(pe, "revision")
        if ex:
            sub(rev, "id", str(50000 + n))
            if rng.random() < 0.7:
                sub(rev, "parentid", str(40000 + n))
            sub(rev, "timestamp", "2024-0%d-1%dT01:02:03Z" % (1 + n % 9, n % 10))
            c = sub(rev, "contributor")
            if rng.random() < 0.5:
                sub(c, "username", rng.choice(["Bot & <co>", "Ünï", "title", "A \"b\""]))
                sub(c, "id", str(n))
            else:
                sub(c, "ip", "2001:db8::%x" % n)
            if rng.random() < 0.3:
                sub(rev, "minor")
            if rng.random() < 0.7:
                sub(rev, "comment", rng.choice(["/* x */ <title>not a title</title>", "rv & fix ]]>", " ", "<text>no</text>", "redirect"]))
            if opts.get("xmlns") == "0.11":
                sub(rev, "origin", str(50000 + n))
        sub(rev, "model", p["model"])
        if ex or rng.random() < 0.5:
            fmt = {"wikitext": "text/x-wiki", "Scribunto": "text/plain", "json": "application/json", "css": "text/css",
                   "javascript": "text/javascript"}.get(p["model"], "text/plain")
            sub(rev, "format", fmt)
        te = sub(rev, "text", p["text"])
        if rng.random() < 0.8:
            te.set("bytes", str(len(p["text"].encode("utf-8"))))
            te.set(XML_SPACE, "preserve")
            if opts.get("xmlns") == "0.11":
                te.set("sha1", "phoiac9h4m842xq45sp7s6u21eteeq1")
        if ex:
            sub(rev, "sha1", "phoiac9h4m842xq45sp7s6u21eteeq1")
    if ind:
        _indent(root)
    return etree.tostring(root, xml_declaration=rng.random() < 0.8, encoding="utf-8")


def _indent(e, level=0):
    # whitespace only where an element has element children (never inside text-bearing leaves)
    kids = list(e)
    if kids:
        if e.text is None:
            e.text = "\n" + "  " * (level + 1)
        for i, k in enumerate(kids):
            _indent(k, level + 1)
            k.tail = "\n" + "  " * (level + 1 if i < len(kids) - 1 else level)


def write_dump(path, pages, opts):
    raw = build_xml(pages, opts)
    cuts = sorted({int(f * len(raw)) for f in opts.get("splits", ())} - {0, len(raw)})
    lvl = opts.get("level", 9)
    out = []
    a = 0
    for c in cuts + [len(raw)]:
        out.append(bz2.compress(raw[a:c], lvl))
        a = c
    with open(path, "wb") as f:
        f.write(b"".join(out))
    return len(raw)
