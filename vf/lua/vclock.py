"""Virtual clock + hook event log for the Lua timeout machinery (C07, C16).

_lua_set_timeout (lua/_sandbox_phase1.lua) looks up `os.time` and `debug.sethook` in the HOST
global table at call time, so replacing those two globals through ctx.lua.globals() gives a
logical, load-independent clock: the timeout hook polls os.time once per 100 000 VM
instructions; every poll advances virtual time by TICK seconds."""
from __future__ import annotations

TICK = 0.25


class VClock:
    def __init__(self, ctx, max_polls=4000):
        """ctx.lua must be initialised (run one #invoke first)."""
        self.ctx = ctx
        self.t = 1000.0
        self.polls = 0
        self.events = []          # (kind, poll-count)
        self.max_polls = max_polls
        self.on_overrun = None    # callback when polls exceed max_polls (endless loop with hook armed but error swallowed)
        self.armed = False
        G = ctx.lua.globals()
        self.G = G
        self.real_sethook = G.debug.sethook
        self.real_time = G.os.time
        G.os.time = self._time
        G.debug.sethook = self._sethook

    def _time(self, *a):
        if a and a[0] is not None:
            return self.real_time(*a)
        self.polls += 1
        self.t += TICK
        if self.polls > self.max_polls and self.on_overrun is not None:
            self.on_overrun(self)
        return int(self.t)

    def _sethook(self, *a):
        if len(a) == 0 or a[0] is None:
            self.events.append(("clear", self.polls))
            self.armed = False
        else:
            self.events.append(("arm", self.polls))
            self.armed = True
        return self.real_sethook(*a)

    def advance(self, seconds):
        self.t += seconds

    def reset_log(self):
        self.events = []
        self.polls = 0
