"""Virtual clock + hook event log for the Lua timeout machinery (C07, C16).

_lua_set_timeout (lua/_sandbox_phase1.lua) looks up `os.time` and `debug.sethook` in the HOST
global table at call time, so replacing those two globals through ctx.lua.globals() gives a
logical, load-independent clock: the timeout hook polls os.time once per `count` VM instructions
(the count it was armed with); every poll advances virtual time by count * SEC_PER_INSTR seconds,
i.e. TICK = 0.25 s per 100 000 instructions whatever period the tree under test uses."""
from __future__ import annotations

TICK = 0.25
SEC_PER_INSTR = TICK / 100000


class VClock:
    def __init__(self, ctx, max_polls=4000):
        """ctx.lua must be initialised (run one #invoke first)."""
        self.ctx = ctx
        self.t = 1000.0
        self.polls = 0
        self.events = []          # (kind, poll-count)
        self.max_polls = max_polls
        self.on_overrun = None    # callback when polls exceed max_polls (endless loop with hook armed but error swallowed)
        self.armed = False
        self.period = 100000      # count of the hook armed last
        G = ctx.lua.globals()
        self.G = G
        self.real_sethook = G.debug.sethook
        self.real_time = G.os.time
        G.os.time = self._time
        G.debug.sethook = self._sethook

    def _time(self, *a):
        if a and a[0] is not None:
            return self.real_time(*a)
        self.polls += 1
        self.t += self.period * SEC_PER_INSTR
        if self.polls > self.max_polls and self.on_overrun is not None:
            self.on_overrun(self)
        return int(self.t)

    def _sethook(self, *a):
        if len(a) == 0 or a[0] is None:
            self.events.append(("clear", self.polls))
            self.armed = False
        else:
            self.events.append(("arm", self.polls))
            self.armed = True
            self.note_period(a)
        return self.real_sethook(*a)

    def note_period(self, a):
        try:
            if len(a) >= 3 and a[2]:
                self.period = max(1, int(a[2]))
        except Exception:
            pass

    def advance(self, seconds):
        self.t += seconds

    def reset_log(self):
        self.events = []
        self.polls = 0
