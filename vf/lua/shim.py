"""Pure-Lua stand-ins for the Scribunto library files that are absent in this
checkout (the submodule directory is empty).  lua_loader() asks the page store
first, so adding these as Module pages makes #invoke runnable with zero
repository changes.  Installed ONLY when the real file is absent."""
import os

USTRING = r'''
local u = {}
for k, v in pairs(string) do u[k] = v end
u.codepoint = string.byte
u.toNFC = function(s) return s end
u.toNFD = function(s) return s end
u.toNFKC = function(s) return s end
u.toNFKD = function(s) return s end
u.isutf8 = function(s) return true end
u.gcodepoint = function(s) local i = 0; return function() i = i + 1; if i <= #s then return string.byte(s, i) end end end
return u
'''
LIBUTIL = r'''
local libraryUtil = {}
function libraryUtil.checkType(name, argIdx, arg, expectType, nilOk) end
function libraryUtil.checkTypeMulti(name, argIdx, arg, expectTypes) end
function libraryUtil.checkTypeForIndex(index, value, expectType) end
function libraryUtil.checkTypeForNamedArg(name, argName, arg, expectType, nilOk) end
function libraryUtil.makeCheckSelfFunction(libraryName, varName, selfObj, selfObjDesc) return function(self, method) end end
return libraryUtil
'''


def real_present():
    import wikitextprocessor.luaexec as lx
    base = str(lx.LUA_DIR / "mediawiki-extensions-Scribunto/includes/Engines/LuaCommon/lualib")
    return os.path.isfile(os.path.join(base, "ustring", "ustring.lua"))


def install(ctx):
    """Add the stand-in pages unless the real Scribunto files exist."""
    if real_present():
        return False
    ns = ctx.NAMESPACE_DATA["Module"]
    ctx.add_page(ns["name"] + ":ustring:ustring", ns["id"], USTRING, model="Scribunto")
    ctx.add_page(ns["name"] + ":libraryUtil", ns["id"], LIBUTIL, model="Scribunto")
    return True
