"""C01 -- parse() is total and returns a well-formed tree.

Monitors: icontract postcondition on Wtp.parse (result ROOT, stack empty,
begline counter reset; also fires on re-entrant calls) + tree walker
(vf.core.canon.wellformed) + "no state left behind" probe (a fixed probe
document must parse to its baseline tree after any soup).
Workloads: G1 token soups, G2 grammar documents, G3 mutated real pages,
G4 depth stress; each x {plain, pre_expand, expand_all}; G6 repeated-unit runs on a growth ladder
(one more shard).
"""
from __future__ import annotations

import bz2
import os
import random
import re

from vf.core.obs import Obs, cpu_guard, CpuBudget, exc_sig
from vf.core import anchors, contracts
from vf.core.canon import wellformed, canon, PLACEHOLDER_RE

LEVEL = "exploration"
RULE = ("inputs: G1 token soups (1-60 tokens over every token_list alternative, every allowed HTML tag in 11 spellings, "
        "magic words, URL schemes, include/nowiki/pre/comment tags, bidi/control/placeholder chars), G2 block/inline grammar "
        "documents, G3 token-boundary mutations and splices of the real pages under tests/, G4 nesting-depth stress 1..100, G5 template/parser-function/link call shapes (names x argument atoms incl. empty, numeric-named, duplicated numbers, newlines; bare, in list/table cells and inside complete heading lines); "
        "G6 'opener + short unit repeated n times (+ wrong/no closer)' families measured on a ladder n=1..40; "
        "each under plain / pre_expand / expand_all with a 12-template library that emits unbalanced markup. "
        "non-trivial = distinct input whose tree has >=3 node kinds or produced >=1 parser debug message (auto-closed node)")
ASSUMPTIONS = [
    "Lua: ustring/libraryUtil stand-in pages are installed (Scribunto submodule absent) so {{#invoke:}} in soups does not fail for a sandbox-only reason",
    "placeholder clause asserted only for inputs that contain no U+10203D..U+10FFF0 character themselves",
    "per-case CPU budget 90 s (ITIMER_VIRTUAL) stands for 'returns normally'",
    "G6: a regular expression that backtracks cannot be interrupted, so a family is never run at a large n first: n climbs a "
    "ladder and the family counts as 'does not return' when the CPU time of the last three steps grows by a factor >= 1.25 per "
    "repeated unit (re-measured) and the extrapolation to n=40 (<= 160 characters of repeated units) exceeds ten times the budget",
]
WALL = {"quick": 900, "thorough": 5400}
PROBE = "== H ==\n* a\n** b ''i'' '''b'''\n{|\n|-\n| c || d\n|}\n<div class=\"x\">[[l|t]] {{ta|1}} [http://x y]</div>\n text\n; t : d\n"
MODES = [{}, {"pre_expand": True}, {"expand_all": True},
         # hooks that use the SAME context re-entrantly while the outer call is expanding (what extraction code does
         # in its template hooks): "reenter" is replaced by real hook functions in Monitor.kwargs()
         {"expand_all": True, "reenter": "template_fn"}, {"expand_all": True, "reenter": "post_template_fn"},
         {"pre_expand": True, "reenter": "template_fn"}]


def floors(tier):
    return {"oracle.parse.post": 1000, "oracle.walker": 1000, "counters.gen.G1": 1, "counters.gen.G3": 1,
            "counters.gen.G4": 1, "counters.gen.G2": 1, "counters.gen.G5": 1, "sets.handlers": 20,
            "counters.reentrant-hook-calls": 200, "oracle.repo-tests.walker": 300,
            "counters.gen.G6": 1, "oracle.run-ladder": 1000, "counters.G6.ladder-steps": 20000}


def shards(tier, seed):
    n = 16
    per = {"quick": 2500, "thorough": 120000}[tier]
    sh = [{"seed": seed * 1000 + i, "n": per, "idx": i, "nsh": n} for i in range(n)]
    # one more workload: the repository's own tests (incl. the Lua-facing ones, with stand-ins) under the same walker
    sh.append({"seed": seed, "kind": "repo-tests"})
    # and one shard for the repeated-unit families (G6): growth of the parse time along a ladder of repeat counts
    sh.append({"seed": seed * 1000 + 777, "kind": "runs", "n": {"quick": 2000, "thorough": 40000}[tier]})
    return sh


_REAL = None


def real_pages():
    global _REAL
    if _REAL is None:
        out = []
        tdir = "/repo/tests"
        for fn in sorted(os.listdir(tdir)):
            if fn.endswith(".txt"):
                with open(os.path.join(tdir, fn), encoding="utf-8") as f:
                    out.append(f.read())
        try:
            data = bz2.open(os.path.join(tdir, "test-pages-articles.xml.bz2"), "rt", encoding="utf-8").read()
            import html as _h
            for m in re.finditer(r"(?s)<text[^>]*>(.*?)</text>", data):
                t = _h.unescape(m.group(1))
                if 200 < len(t) < 20000:
                    out.append(t)
                if len(out) > 150:
                    break
        except Exception:
            pass
        _REAL = out
    return _REAL


TOKSPLIT = re.compile(r"(\{\{\{?|\}\}\}?|\[\[?|\]\]?|'''''|'''|''|\n[*#:;]+|\n=+|=+\n|\{\||\|\}|\|-|\|\||!!|\||<[^<>\n]{0,40}>|\n)")


def mutate(rng, pages):
    p = rng.choice(pages)
    # a window of the page, cut at token boundaries
    toks = [t for t in TOKSPLIT.split(p) if t]
    if len(toks) > 120:
        a = rng.randrange(0, len(toks) - 100)
        toks = toks[a:a + rng.randint(20, 120)]
    for _ in range(rng.randint(1, 6)):
        if not toks:
            break
        op = rng.randrange(5)
        i = rng.randrange(len(toks))
        if op == 0:
            del toks[i]
        elif op == 1:
            toks.insert(i, toks[i])
        elif op == 2:
            j = rng.randrange(len(toks))
            toks[i], toks[j] = toks[j], toks[i]
        elif op == 3:
            toks = toks[:i]
        else:
            q = [t for t in TOKSPLIT.split(rng.choice(pages)) if t]
            b = rng.randrange(0, max(1, len(q) - 30))
            toks[i:i] = q[b:b + rng.randint(1, 30)]
    return "".join(toks)[:1500]


OPENERS = [("{{", "}}"), ("{{{", "}}}"), ("[[", "]]"), ("[", "]"), ("<div>", "</div>"), ("''", "''"), ("'''", "'''"),
           ("{|\n|", "\n|}"), ("<span>", "</span>"), ("<ref>", "</ref>"), ("{{#if:x|", "}}"), ("[http://x ", "]"),
           ("<i>", "</i>"), ("-{", "}-")]


# templates of this monitor only (on top of soup.LIBRARY): extension-tag parser function building a tag whose attribute
# comes from an unset argument, and a <pre> with a computed attribute
EXTRA_LIBRARY = {"tr": "{{#tag:ref|{{{1}}}|name={{{2}}}}}", "tp": "<pre class=\"{{{1}}}\">{{{2|x}}}</pre>",
                 "tq": "{{#tag:{{{1|span}}}|c|{{{2|k}}}={{{3}}}}}"}
CALL_NAMES = ["tr", "tp", "tq", "#tag", "t", "ta", "PAGENAME", "#if", "lc", "#invoke", "#switch", "NAMESPACE", " t ", "T:x", "Template:ta", "{{ta}}", "subst:ta",
              "#expr", ""]
CALL_ATOMS = ["", "a", " a ", "\na", "a\nb", "k=v", " k = v ", "k=", "=v", "=", "1=x", "2=y", "01=z", "0=w", "1=", "-1=q", "a=b=c", "{{ta}}",
              "{{{1}}}", "[[l|m]]", "<nowiki>|</nowiki>", "x{{!}}y", "1={{ta|2=}}", "²=s", "k k=v", "<b>=v", "''i''"]


def call_case(rng):
    """G5: template / parser-function call shapes (name x argument atoms incl. empty, numeric-named, duplicated numbers)."""
    def one(d):
        name = rng.choice(CALL_NAMES)
        args = [rng.choice(CALL_ATOMS) if d <= 0 or rng.random() < 0.85 else one(d - 1) for _ in range(rng.randint(0, 5))]
        sep = ":" if name.startswith("#") or rng.random() < 0.1 else "|"
        body = name + (sep + "|".join(args) if args else "")
        br = rng.choice([("{{", "}}"), ("{{{", "}}}"), ("{{", "}"), ("{", "}}"), ("[[", "]]"), ("[[File:", "]]")]) if rng.random() < 0.25 else ("{{", "}}")
        return br[0] + body + br[1]
    pre = rng.choice(["", "x ", "* ", "{|\n| ", "== ", "== ", "=== "])
    body = " ".join(one(2) for _ in range(rng.randint(1, 3)))
    if pre.startswith("=") and rng.random() < 0.7:
        # the call (whose arguments may contain newlines) inside a complete heading line
        body += rng.choice([" ", "", " t "]) + pre.strip() + rng.choice(["\n", "\ntext\n", " \n== n ==\n", ""])
    return pre + body


def depth_case(rng):
    d = rng.randint(1, 100)
    r = rng.random()
    if r < 0.15:
        return "\n" + "*" * d + " x\n" + "#" * rng.randint(1, 100) + " y"
    if r < 0.22:
        return "\n" + "=" * d + " h " + "=" * d + "\n"
    a = rng.choice(OPENERS)
    if r < 0.6:
        closed = rng.random() < 0.7
        return a[0] * d + "x" + (a[1] * (d if closed else rng.randint(0, d)))
    b = rng.choice(OPENERS)
    h = max(1, d // 2)
    s = (a[0] + b[0]) * h + "x"
    if rng.random() < 0.7:
        s += (b[1] + a[1]) * h if rng.random() < 0.7 else (a[1] + b[1]) * h
    return s


UNMATCHED = []      # heading nodes that were open on the stack when an end token of their kind came and went


def install_heading_probe():
    """Observe subtitle_end_fn (looked up in the module namespace by process_text at call time): which heading nodes
    with a still open title were on the stack when an end token of their kind arrived and were left without a title."""
    import wikitextprocessor.parser as P
    if getattr(P.subtitle_end_fn, "_vf_probe", False):
        return
    orig = P.subtitle_end_fn

    def subtitle_end_fn(ctx, token):
        kind = P.SUBTITLE_TO_KIND.get(token[1:])
        # (not in <pre> mode: there every end token is text by design -- the "<pre> inside the title" class)
        open_nodes = ([n for n in ctx.parser_stack if n.kind == kind and n.largs == []]
                      if kind is not None and not ctx.pre_parse else [])
        r = orig(ctx, token)
        for n in open_nodes:
            if n.largs == [] and len(UNMATCHED) < 1000:
                UNMATCHED.append(n)
        return r
    subtitle_end_fn._vf_probe = True
    P.subtitle_end_fn = subtitle_end_fn


def untitled_headings(root):
    """Heading nodes without the title argument list, one (rule, msg) per mechanism.
    'level-args-shape/largs=0/end-token-unmatched': the node was still open on the parser stack when an end token of
    its kind arrived outside <pre> mode, and the end-token handler did not recognise it (observed at subtitle_end_fn);
    'level-args-shape/largs=0': every other way (the node was closed by another token inside its title line, or a
    <pre> opened in the title swallowed the end token)."""
    from wikitextprocessor.parser import WikiNode, KIND_TO_LEVEL
    out = {}
    stack = [root]
    while stack:
        n = stack.pop()
        for lst in [n.children] + list(n.largs):
            for c in lst:
                if isinstance(c, WikiNode):
                    stack.append(c)
        if n.kind in KIND_TO_LEVEL and n.largs == [] and n.sarg == "":
            rule = "level-args-shape/largs=0"
            if any(n is u for u in UNMATCHED):
                rule += "/end-token-unmatched"
            out.setdefault(rule, " " + str(n)[:200])
    return sorted(out.items())


class _Sampler:
    """Samples the innermost repository frame on CPU-time ticks while a parse runs (never raises).  A tick that falls
    into an uninterruptible C call (a backtracking regular expression) is delivered when the call returns, i.e. in the
    frame that made the call."""

    def __init__(self, interval=0.02, limit=2 * 90.0):
        import time
        self.interval = interval
        self.hits = {}
        self.limit = limit
        self.t0 = time.process_time()

    def _tick(self, signum, frame):
        import time
        if time.process_time() - self.t0 > self.limit:
            raise CpuBudget("G6 step over %.0f CPU s" % self.limit)
        f = frame
        while f is not None and "wikitextprocessor" not in f.f_code.co_filename:
            f = f.f_back
        if f is None:
            return
        import linecache
        fn = f.f_code.co_filename
        line = linecache.getline(fn, f.f_lineno)
        m = re.search(r"([A-Za-z_][A-Za-z_0-9]*)\.(?:sub|subn|finditer|match|search|split|fullmatch|findall)\(", line)
        ident = m.group(1) if m and m.group(1) != "re" else ""
        key = "%s.%s%s" % (fn.rsplit("/", 1)[-1][:-3], f.f_code.co_name, ":" + ident if ident else "")
        self.hits[key] = self.hits.get(key, 0) + 1

    def __enter__(self):
        import signal
        self._old = signal.signal(signal.SIGVTALRM, self._tick)
        signal.setitimer(signal.ITIMER_VIRTUAL, self.interval, self.interval)
        return self

    def __exit__(self, *a):
        import signal
        signal.setitimer(signal.ITIMER_VIRTUAL, 0)
        signal.signal(signal.SIGVTALRM, self._old)

    def top(self):
        return max(sorted(self.hits), key=lambda k: self.hits[k]) if self.hits else "?"


LADDER = list(range(1, 17)) + [18, 20, 22, 24, 28, 32, 36, 40]
G6_THRESHOLD = 0.05      # CPU seconds of one parse from which the growth is judged
G6_BUDGET = 90.0         # the per-case CPU budget that stands for "returns normally"


def ladder(mon, fam, mode, confirm=True):
    """Climb the repeat-count ladder of one family.  Returns (verdict, info): verdict None = every step returned
    (info['last'] = the largest instance parsed), or a violation (sig, msg)."""
    import time
    from vf.gen import soup
    ctx = mon.ctx
    kw = mon.kwargs(mode)
    series = []

    def measure(n):
        text = soup.run_text(fam, n)
        ctx.start_page("Pg")
        smp = _Sampler()
        # thread_time: the process CPU clock has tick (4 ms) granularity while an interval timer is armed
        t0 = time.thread_time()
        with smp:
            ctx.parse(text, **kw)
        return time.thread_time() - t0, smp

    def growth(a, b):
        (n1, t1), (n2, t2) = a, b
        return (max(t2, 1e-6) / max(t1, 1e-6)) ** (1.0 / (n2 - n1))

    steps = 0
    for n in LADDER:
        try:
            t, smp = measure(n)
        except RecursionError as e:
            contracts.drain()
            return ("raises:" + exc_sig(e), repr(e)[:200]), {"n": n, "steps": steps}
        except Exception as e:
            contracts.drain()
            return ("raises:" + exc_sig(e), repr(e)[:300]), {"n": n, "steps": steps}
        steps += 1
        contracts.drain()
        series.append((n, t))
        if t < G6_THRESHOLD or len(series) < 3:
            if t > G6_BUDGET:
                return ("no-return-within-cpu-budget", "%.0f s for %r" % (t, soup.run_text(fam, n)[:80])), {"n": n, "steps": steps}
            continue
        mon.obs.count("G6.growth-judged")
        g = min(growth(series[-3], series[-2]), growth(series[-2], series[-1]))
        est = t * g ** (40 - n) if g > 1 else t
        if g >= 1.25 and est > 10 * G6_BUDGET:
            where = smp.top()
            if confirm:
                # measure the last two steps again: both measurements of each step must show the growth
                t1b, _ = measure(series[-2][0])
                t2b, smp2 = measure(n)
                contracts.drain()
                g2 = min(g, growth((series[-2][0], max(t1b, series[-2][1])), (n, min(t2b, t))))
                if smp2.hits:
                    where = smp2.top()
                if not (g2 >= 1.25 and min(t2b, t) * g2 ** (40 - n) > 10 * G6_BUDGET):
                    # not reproduced: no verdict, and no larger n either (a step that cannot be interrupted)
                    mon.obs.count("G6.growth-not-confirmed")
                    return None, {"n": series[-2][0], "steps": steps, "tmax": max(x[1] for x in series)}
                g = g2
            msg = ("parse time grows x%.2f per repeated unit %r after %r: %s CPU s for n=%s; n=40 (%d characters) extrapolates to "
                   "%.3g s (budget %d s); time is spent in %s" % (
                       g, fam["unit"], fam["pre"] + fam["open"], "/".join("%.4f" % x[1] for x in series[-4:]),
                       "/".join(str(x[0]) for x in series[-4:]), len(soup.run_text(fam, 40)), t * g ** (40 - n), G6_BUDGET, where))
            return ("no-return/time-exponential-in-repeat-count/" + where, msg), {"n": n, "steps": steps}
        if t > G6_BUDGET:
            return ("no-return-within-cpu-budget", "%.0f s for %r" % (t, soup.run_text(fam, n)[:80])), {"n": n, "steps": steps}
    return None, {"n": LADDER[-1], "steps": steps, "tmax": max(t for _, t in series)}


class Monitor:
    def __init__(self, obs):
        from vf.core.wtp import fresh, tmpl
        from vf.gen import soup
        import wikitextprocessor.parser as P
        contracts.install_parse_contract()
        self.obs = obs
        self.cm = fresh(lua=True, pages=[tmpl(k, v) for k, v in list(soup.LIBRARY.items()) + list(EXTRA_LIBRARY.items())])
        self.ctx = self.cm.__enter__()
        names = [n for n in dir(P) if n.endswith("_fn") and callable(getattr(P, n))]
        self.handler_names = names
        anchors.watch({"parser." + n: getattr(P, n) for n in names})
        anchors.watch({"parser._parser_pop": P._parser_pop, "parser._parser_merge_str_children": P._parser_merge_str_children,
                       "parser.parse_encoded": P.parse_encoded})
        install_heading_probe()      # after anchors.watch: the anchors count the repository's own function
        self.ctx.start_page("Pg")
        self.base = [canon(self.ctx.parse(PROBE, **self.kwargs(i))) for i in range(len(MODES))]
        contracts.drain()
        self.stats = {"kinds": {}, "maxdepth": 0}

    def close(self):
        self.cm.__exit__(None, None, None)

    def kwargs(self, mode):
        kw = dict(MODES[mode])
        which = kw.pop("reenter", None)
        if which is None:
            return kw
        ctx, obs = self.ctx, self.obs

        def reenter(name, args, *rest):
            # parse / expand / serialise the arguments on the same context; the hook itself changes nothing (None)
            obs.count("reentrant-hook-calls")
            for v in list(args.values())[:2] + list(rest):
                if isinstance(v, str) and v:
                    try:
                        sub = ctx.parse(v)
                        ctx.node_to_wikitext(sub)
                        ctx.expand(v)
                    except RecursionError:
                        pass
            return None
        kw[which] = reenter
        return kw

    def problems(self, text, mode):
        """Run one case on the real parser; returns list of (sig, msg)."""
        ctx = self.ctx
        kw = self.kwargs(mode)
        has_ph = bool(PLACEHOLDER_RE.search(text))
        tag = "/placeholder-char-in-input" if has_ph else ""
        out = []
        del UNMATCHED[:]
        ctx.start_page("Pg")
        try:
            with cpu_guard(90):
                root = ctx.parse(text, **kw)
        except CpuBudget as e:
            return [("no-return-within-cpu-budget" + tag, str(e)[-600:])], None
        except RecursionError as e:
            contracts.drain()
            return [("raises:" + exc_sig(e) + tag, repr(e)[:200])], None
        except Exception as e:
            contracts.drain()
            return [("raises:" + exc_sig(e) + tag, repr(e)[:300])], None
        self.obs.check("walker")
        for r, m in wellformed(root, "Pg", check_placeholders=not has_ph, stats=self.stats):
            if r == "level-args-shape/largs=0":
                continue        # reported per mechanism below
            out.append((r + tag, m))
        for r, m in untitled_headings(root):
            out.append((r + tag, m))
        for name, d in contracts.drain():
            out.append((name + tag, d))
        if ctx.parser_stack != []:
            out.append(("parser_stack-left" + tag, repr(ctx.parser_stack)[:200]))
        return out, root

    def probe_state(self, mode):
        """No state left behind: the fixed probe document parses to its baseline tree."""
        self.obs.check("state-probe")
        try:
            got = canon(self.ctx.parse(PROBE, **self.kwargs(mode)))
        except Exception as e:
            return [("state-probe-raises:" + exc_sig(e), repr(e)[:200])]
        finally:
            contracts.drain()
        if got != self.base[mode]:
            return [("state-left-behind(probe tree differs)", "")]
        return []

    def refine(self, sig, text, mode):
        # inputs that contain placeholder-range characters violate the package's documented
        # assumption (common.py: "assumes that these characters do not occur"): one coarse
        # signature per failure category, so that class is tagged and cannot mask anything else
        if sig.endswith("/placeholder-char-in-input"):
            cat = "raises" if sig.startswith("raises:") else ("no-return" if sig.startswith("no-return") else "malformed-tree")
            return "placeholder-char-in-input/" + cat
        return sig


def run_case(mon, obs, text, mode, gen):
    probs, root = mon.problems(text, mode)
    nd = len(mon.ctx.debugs)
    kinds = set()
    if root is not None:
        stack = [root]
        while stack:
            n = stack.pop()
            kinds.add(n.kind.name)
            for c in n.children:
                if not isinstance(c, str):
                    stack.append(c)
            for a in n.largs:
                for c in a:
                    if not isinstance(c, str):
                        stack.append(c)
    obs.case(text + "#%d" % mode, nontrivial=(len(kinds) >= 3 or nd > 0),
             sample={"gen": gen, "mode": MODES[mode], "text": text[:300]})
    obs.count("gen." + gen)
    obs.count("mode.%d" % mode)
    if nd:
        obs.count("cases_with_autoclosed_nodes")
    for sig, msg in probs:
        sig = mon.refine(sig, text, mode)
        obs.violation(sig, msg, {"text": text, "mode": mode, "gen": gen})
    return probs


def run_repo_tests_shard(spec):
    from vf.core.repotests import run_repo_tests
    obs = Obs()
    d = run_repo_tests()
    if d is None:
        obs.inconclusive.append("repository tests under the monitor plugin produced no report")
        return obs
    obs.count("repo-tests.tests-run", d.get("tests", 0))
    obs.check("repo-tests.walker", d.get("walker", 0))
    obs.check("repo-tests.parse.post", d.get("evals", {}).get("parse.post", 0))
    obs.count("gen.repo-tests", d.get("walker", 0))
    for rule, msg, test, text in d.get("walker_fails", []):
        sig = rule
        if sig.endswith("/placeholder-char-in-input"):
            sig = "placeholder-char-in-input/malformed-tree"
        obs.violation(sig, "%s (during %s)" % (msg, test), {"text": text, "mode": 0, "gen": "repo-tests", "test": test})
    for name, dd, test in d.get("contract_fails", []):
        if name.startswith("parse.post"):
            obs.violation(name, "%s (during %s)" % (dd, test), {"text": "", "mode": 0, "gen": "repo-tests", "test": test})
    obs.case("repo-tests", nontrivial=True, sample={"gen": "repo-tests", "tests": d.get("tests"), "trees-walked": d.get("walker")})
    return obs


def run_runs_shard(spec):
    """G6: families 'prefix + opener + unit*n + tail' on the repeat-count ladder; the largest instance that was
    parsed also goes through the walker / contracts like every other case."""
    from vf.gen import soup
    obs = Obs()
    rng = random.Random(spec["seed"])
    mon = Monitor(obs)
    seen = {}
    for i in range(spec["n"]):
        fam = soup.run_family(rng)
        mode = rng.randrange(3)
        try:
            verdict, info = ladder(mon, fam, mode, confirm=True)
        except CpuBudget as e:
            contracts.drain()
            verdict, info = ("no-return-within-cpu-budget", str(e)[-600:]), {"n": 1, "steps": 0}
        obs.check("run-ladder")
        obs.count("G6.ladder-steps", info["steps"])
        obs.maxi("G6.max-step-cpu-seconds", info.get("tmax", 0))
        if verdict is not None:
            sig, msg = verdict
            seen[sig] = seen.get(sig, 0) + 1
            obs.case("G6:" + repr(fam) + "#%d" % mode, nontrivial=True, sample={"gen": "G6", "fam": fam, "mode": MODES[mode]})
            obs.count("gen.G6")
            obs.violation(sig, msg, {"gen": "G6", "fam": fam, "mode": mode, "text": soup.run_text(fam, info["n"])})
            continue
        run_case(mon, obs, soup.run_text(fam, info["n"]), mode, "G6")
        if i % 25 == 0:
            for sig, msg in mon.probe_state(mode):
                obs.violation(sig, msg, {"text": soup.run_text(fam, info["n"]), "mode": mode, "gen": "G6", "then": "probe"})
    mon.close()
    obs.anchors.update(anchors.snapshot())
    for k, v in contracts.EVALS.items():
        obs.check(k, v)
    return obs


def run_shard(spec):
    if spec.get("kind") == "repo-tests":
        return run_repo_tests_shard(spec)
    if spec.get("kind") == "runs":
        return run_runs_shard(spec)
    from vf.gen import soup, docs
    obs = Obs()
    rng = random.Random(spec["seed"])
    mon = Monitor(obs)
    pages = real_pages()
    n = spec["n"]
    overruns = 0
    for i in range(n):
        r = i % 10
        mode = rng.randrange(3) if rng.random() < 0.75 else rng.randrange(3, len(MODES))
        if r < 5:
            text, _ = soup.soup(rng, 60, placeholders=(rng.random() < 0.06))
            gen = "G1"
        elif r < 7:
            text = docs.render(docs.gen_doc(rng, depth=rng.randint(1, 4)))
            if rng.random() < 0.3:
                text = mutate(rng, [text])
            gen = "G2"
        elif r < 9 and pages:
            text = mutate(rng, pages)
            gen = "G3"
        elif i % 20 == 9:
            text = depth_case(rng)
            gen = "G4"
        else:
            text = call_case(rng)
            gen = "G5"
        probs = run_case(mon, obs, text, mode, gen)
        if any(sg.startswith(("no-return", "placeholder-char-in-input/no-return")) for sg, _ in probs):
            overruns += 1
            if overruns >= 3:
                # every overrun costs the whole per-case CPU budget: report what was seen instead of
                # running into the shard's wall-clock limit (which would lose the witnesses)
                obs.notes.append("shard stopped early after 3 CPU-budget overruns")
                break
        if i % 25 == 0:
            for sig, msg in mon.probe_state(mode):
                obs.violation(sig, msg, {"text": text, "mode": mode, "gen": gen, "then": "probe"})
    mon.close()
    a = anchors.snapshot()
    obs.anchors.update(a)
    for hname in mon.handler_names:
        if a.get("parser." + hname, 0) > 0:
            obs.add("handlers", hname)
    for k, v in mon.stats["kinds"].items():
        obs.count("kind." + k, v)
    obs.maxi("max_tree_depth", mon.stats["maxdepth"])
    for k, v in contracts.EVALS.items():
        obs.check(k, v)
    return obs


def replay(case):
    obs = Obs()
    mon = Monitor(obs)
    if case.get("gen") == "G6" and "fam" in case:
        verdict, info = ladder(mon, case["fam"], case["mode"])
        mon.close()
        return {"violations": [verdict] if verdict else [], "ladder": info}
    probs, root = mon.problems(case["text"], case["mode"])
    if case.get("then") == "probe":
        probs = list(probs) + mon.probe_state(case["mode"])
    mon.close()
    return {"violations": [(mon.refine(s, case["text"], case["mode"]), m) for s, m in probs],
            "tree": str(root)[:2000]}
