"""C16 -- expansion path and message lists are consistent after every call.

Monitors: icontract snapshot/ensure on Wtp.expand and Wtp.parse (expand_stack after == before; fires
on nested calls made by frame:preprocess / expandTemplate too), message-shape invariant after every
call, start_page postcondition, and an N-fold repetition without start_page that must not produce a
'too deep recursion' error absent from the first call."""
from __future__ import annotations

import itertools
import random

from vf.core.obs import Obs, cpu_guard, CpuBudget, exc_sig
from vf.core import anchors, contracts
from vf.gen import expansion as G

LEVEL = "exploration"
RULE = ("(page, options) pairs: pages = expansion-grammar pages over a 5-template library + #invoke of benign / erroring / "
        "missing-function / missing-module / nested-preprocess / expandTemplate-of-loop / timing-out (virtual clock) Lua "
        "modules + template loops + bad parser-function input + links/ext-links with calls inside, joined 1-4 per page; "
        "options = all 16 combinations of expand_parserfns x expand_invoke x pre_expand x template_fn hook, plus "
        "parse(pre_expand|expand_all); a subset repeated 300x without start_page. non-trivial = distinct (page, options) "
        "whose execution pushed at least one frame on expand_stack")
ASSUMPTIONS = ["Lua stand-ins for the absent Scribunto ustring/libraryUtil files",
               "documented message keys = ErrorMessageData TypedDict in core.py"]
WALL = {"quick": 900, "thorough": 5400}
KEYS = {"msg", "trace", "title", "section", "subsection", "called_from", "path"}

MODULE = r'''local e={}
function e.ok(f) return "ok" .. (f.args[1] or "") end
function e.err(f) error("boom") end
function e.pre(f) return f:preprocess("{{ta|x}}{{#invoke:m|ok}}") end
function e.preerr(f) return f:preprocess("{{#invoke:m|err}}") end
function e.et(f) return f:expandTemplate{title="loop"} end
function e.et2(f) return f:expandTemplate{title="ta", args={"q"}} end
function e.cpf(f) return f:callParserFunction("#expr","1/0") end
function e.ext(f) return f:extensionTag("ref","x") end
function e.tbl(f) return {} end
function e.spin(f) local i=0 while true do i=i+1 end end
function e.prespin(f) return f:preprocess("{{#invoke:m|spin}}") end
function e.par(f) local p=f:getParent(); return p and p:getTitle() or "nil" end
-- frame callbacks that fail on the PYTHON side after the expansion path has grown (caught or not by the module)
function e.etbad(f) return f:expandTemplate{title=5} end
function e.etbad2(f) local ok = pcall(f.expandTemplate, f, {title=5}) return "c" .. tostring(ok) end
function e.etbad3(f) local ok = pcall(f.expandTemplate, f, {title="ta", args=7}) return "c" .. tostring(ok) end
function e.prebad(f) local ok = pcall(f.preprocess, f, {text={}}) return "c" .. tostring(ok) end
function e.prebad2(f) return f:preprocess(setmetatable({}, {__index=function() error("idx") end})) end
function e.cpfbad(f) local ok = pcall(f.callParserFunction, f, {name="#if", args=5}) return "c" .. tostring(ok) end
function e.cpfbad2(f) return f:callParserFunction({}) end
function e.extbad(f) local ok = pcall(f.extensionTag, f, {name="ref", content="x", args=5}) return "c" .. tostring(ok) end
function e.extbad2(f) return f:extensionTag({name={}, content={}}) end
function e.argbad(f) return f.args[{}] end
function e.preboom(f) local ok, r = pcall(f.preprocess, f, "{{#if:x|{{ta|{{boom}}}}}}") return "c" .. tostring(ok) end
function e.etboom(f) return f:expandTemplate{title="td", args={"{{boom}}"}} end
-- many caught callback failures INSIDE one invocation, then an ordinary shallow expansion (real depth 3)
function e.manybad(f) for i = 1, 70 do pcall(f.expandTemplate, f, {title=5}) end return f:preprocess("{{ta|z}}") end
function e.manybad2(f) for i = 1, 110 do pcall(f.extensionTag, f, "ref", "x", {1, 2}) end return f:preprocess("{{ta|z}}") end
function e.manybad3(f) for i = 1, 110 do pcall(f.preprocess, f, {text={}}) pcall(f.expandTemplate, f, {title="ta", args=7}) end return f:expandTemplate{title="ta", args={"z"}} end
function e.manybad4(f) for i = 1, 110 do pcall(f.callParserFunction, f, {name="#if", args=5}) pcall(f.preprocess, f, "{{#invoke:m|err}}") end return f:preprocess("{{ta|z}}") end
function e.nestbad(f) return f:preprocess("{{#invoke:m|etbad}}{{#invoke:m|ok}}") end
return e'''
SPECIAL = [
    "{{#invoke:m|ok}}", "{{#invoke:m|ok|{{ta|q}}}}", "{{#invoke:m|err}}", "{{#invoke:m|nofunc}}", "{{#invoke:nomod|f}}",
    "{{#invoke:m}}", "{{#invoke:m|pre}}", "{{#invoke:m|preerr}}", "{{#invoke:m|et}}", "{{#invoke:m|et2}}", "{{#invoke:m|cpf}}",
    "{{#invoke:m|ext}}", "{{#invoke:m|tbl}}", "{{#invoke:m|par}}", "{{winv}}", "{{loop}}", "{{l2}}", "{{#expr:1/0}}",
    "{{#expr:1+}}", "{{#if:x|{{ta|y}}}}", "[[a|{{ta|b}}]]", "[http://x {{ta|c}}]", "{{{1|{{ta|d}}}}}", "{{missing|{{ta|z}}}}",
    "{{#switch:a|a={{#invoke:m|err}}}}", "{{PAGENAME}}", "{{#tag:ref|x}}", "{{#unknownpf:x}}", "{{subst:ta|x}}",
    "{{ta|<nowiki>{{ta}}</nowiki>}}", "{{#time:Y|garbage}}", "{{#titleparts:}}", "{{padleft:}}", "{{#invoke:m|spin}}",
    "{{#invoke:m|prespin}}", "{{#ifexpr:1/0|a|b}}", "{{#len:{{loop}}}}", "{{lc:{{#invoke:m|err}}}}",
    "{{#invoke:m|etbad}}", "{{#invoke:m|etbad2}}", "{{#invoke:m|etbad3}}", "{{#invoke:m|prebad}}", "{{#invoke:m|prebad2}}",
    "{{#invoke:m|cpfbad}}", "{{#invoke:m|cpfbad2}}", "{{#invoke:m|extbad}}", "{{#invoke:m|extbad2}}", "{{#invoke:m|argbad}}",
    "{{#invoke:m|nestbad}}", "{{#invoque:m|ok}}", "{{#invoque:m|err}}", "{{winv}}{{#invoque:m|etbad}}",
    # {{boom}}: an exception inside a nested sub-expansion (raised by the caller's own hook under the 'raise' hook
    # policy; an ordinary missing template otherwise): where the product turns it into an in-band error the path
    # entries of the interrupted sub-expansions must be gone
    "{{#if:x|{{ta|{{boom}}}}}}", "{{#switch:a|a={{tb|{{boom}}}}|b}}", "{{#ifeq:{{boom}}|a|b|c}}", "{{td|{{#if:1|{{boom}}}}}}",
    "{{lc:{{#if:x|{{boom}}}}}}", "{{#invoke:m|ok|{{#if:x|{{boom}}}}}}", "{{#if:x|{{#invoke:m|ok|{{boom}}}}}}", "{{ta|{{boom}}}}",
    "{{#if:{{#if:{{boom}}|a}}|b}}", "{{#invoke:m|preboom}}", "{{#invoke:m|etboom}}",
    "{{#invoke:m|manybad}}", "{{#invoke:m|manybad2}}", "{{#invoke:m|manybad3}}", "{{#invoke:m|manybad4}}",
    # argument names that are digits but not decimal numbers, as call arguments and as {{{name}}} references
    "{{#if:x|{{ta|a|\u2460=one}}}}", "{{#if:x|{{ta|\u00b2=b}}}}", "{{#switch:a|a={{tu|x|\u0663=y}}}}", "{{tu|\u2460=1}}",
    "{{#if:x|{{tu}}}}", "{{lc:{{tu|\u0968=z}}}}",
]
# pages whose real nesting depth is 3: a depth error inside them is bogus whatever happened before in the invocation
SHALLOW_PAGES = {"{{#invoke:m|manybad}}", "{{#invoke:m|manybad2}}", "{{#invoke:m|manybad3}}", "{{#invoke:m|manybad4}}"}
TIMEOUT_PAGES = {"{{#invoke:m|spin}}", "{{#invoke:m|prespin}}"}


def floors(tier):
    return {"oracle.expand.stack": 2000, "oracle.parse.stack": 200, "oracle.messages-shape": 2000,
            "oracle.start_page.post": 500, "oracle.repeat-no-new-depth-error": 20, "sets.option_combos": 27, "oracle.repo-tests.expand.stack": 500, "oracle.shallow-page-no-depth-error": 10, "counters.calls_raising(ValueError)": 5, "counters.hook-raised-and-call-returned": 20,
            "counters.nested_contract_evals": 50, "counters.messages_checked": 500,
            "counters.calls_with_lua_error": 20, "counters.calls_with_template_loop": 20}


def shards(tier, seed):
    per = {"quick": 500, "thorough": 19000}[tier]
    rep = {"quick": 12, "thorough": 120}[tier]
    sh = [{"seed": seed * 1000 + i, "n": per, "repeat_pages": rep} for i in range(16)]
    # one more workload: the repository's own tests (incl. the Lua-facing ones, with stand-ins) under the stack contracts
    sh.append({"seed": seed, "kind": "repo-tests"})
    return sh


class Mon:
    def __init__(self, obs, aliases=False):
        from vf.core.wtp import fresh
        from vf.lua.vclock import VClock
        contracts.install_stack_contracts()
        self.obs = obs
        kw = {"parser_function_aliases": {"#invoque": "#invoke"}} if aliases else {}
        self.cm = fresh(lua=True, **kw, pages=[
            ("Template:ta", 10, "[{{{1|}}}]"), ("Template:tb", 10, "{{ta|{{{1|b}}}}}{{{n|}}}"),
            ("Template:tc", 10, "* {{{1}}}"), ("Template:td", 10, "{{#if:{{{1|}}}|{{tb|{{{1}}}}}|none}}"),
            ("Template:te", 10, ""), ("Template:tu", 10, "{{{\u00b2|2}}}{{{\u2460|}}}{{{\u0663|}}}{{{\u0968|d}}}{{{1|}}}"),
            ("Template:loop", 10, "{{loop}}"), ("Template:l2", 10, "{{l3}}"),
            ("Template:l3", 10, "{{l2|{{l3}}}}"), ("Template:winv", 10, "{{#invoke:m|par}}{{#invoke:m|ok|{{{1|}}}}}"),
            ("Module:m", 828, MODULE)])
        self.ctx = self.cm.__enter__()
        self.ctx.start_page("Pg")
        self.ctx.expand("{{#invoke:m|ok}}")       # initialise the Lua runtime
        self.clock = VClock(self.ctx)
        contracts.drain()
        self.top_evals = 0

    def close(self):
        self.cm.__exit__(None, None, None)

    def check_messages(self, page, where):
        ctx = self.ctx
        out = []
        self.obs.check("messages-shape")
        for lst_name in ("errors", "warnings", "debugs", "notes", "wiki_notices"):
            for m in getattr(ctx, lst_name):
                self.obs.count("messages_checked")
                if set(m.keys()) != KEYS:
                    out.append(("message-keys/" + lst_name, repr(sorted(m.keys()))))
                    continue
                if m["title"] != ctx.title:
                    out.append(("message-title/" + lst_name, "%r != %r" % (m["title"], ctx.title)))
                if m["section"] != (ctx.section or "") or m["subsection"] != (ctx.subsection or ""):
                    out.append(("message-section/" + lst_name, "%r/%r" % (m["section"], m["subsection"])))
                if not isinstance(m["path"], tuple) or not isinstance(m["msg"], str) or not isinstance(m["trace"], str):
                    out.append(("message-types/" + lst_name, repr(m)[:200]))
        return out

    def start(self, title, section):
        ctx = self.ctx
        ctx.start_page(title)
        self.obs.check("start_page.post")
        out = []
        if ctx.errors or ctx.warnings or ctx.debugs or ctx.notes or ctx.wiki_notices:
            out.append(("start_page-keeps-messages", ""))
        if ctx.expand_stack != [title]:
            out.append(("start_page-expand_stack", repr(ctx.expand_stack)))
        if ctx.section is not None or ctx.subsection is not None:
            out.append(("start_page-keeps-section", ""))
        if section:
            ctx.start_section(section)
        return out

    def call(self, page, opt):
        """One top-level call on the real context; returns (problems, result)."""
        ctx = self.ctx
        calls = []
        raised = []

        def hook(name, args):
            calls.append(name)
            if opt["hook"] == "raise" and name == "boom":
                raised.append(1)
                raise ValueError("hook failure")
            return None
        kw = {}
        api = opt["api"]
        if api == "expand":
            kw = dict(expand_parserfns=opt["pf"], expand_invoke=opt["inv"], pre_expand=opt["pre"])
            if opt["hook"]:
                kw["template_fn"] = hook
            if opt.get("quiet"):
                kw["quiet"] = True
            if any(t in page for t in TIMEOUT_PAGES):
                kw["timeout"] = 2
        else:
            kw = {"pre_expand": True} if opt["pre"] else {"expand_all": True}
        before = list(ctx.expand_stack)
        self.clock.reset_log()
        probs = []
        res = None
        try:
            with cpu_guard(30):
                res = ctx.expand(page, **kw) if api == "expand" else ctx.parse(page, **kw)
        except CpuBudget:
            contracts.drain()
            return [("no-return-within-cpu-budget", "")], None
        except Exception as e:
            contracts.drain()
            # totality is C05's business; here only the stack after a *returning* call matters
            self.obs.count("calls_raising(" + type(e).__name__ + ")")
            return [], None
        if page in SHALLOW_PAGES and isinstance(res, str):
            self.obs.check("shallow-page-no-depth-error")
            if "too deep recursion" in res or ("[z]" not in res and "#invoke" not in res):
                probs.append(("depth-error-inside-one-invocation-after-caught-callback-failures", "result=%r" % res[:200]))
        if raised:
            self.obs.count("hook-raised-and-call-returned")
        if list(ctx.expand_stack) != before:
            probs.append(("expand_stack-changed-by-%s" % api, "before=%r after=%r" % (before, ctx.expand_stack[-6:])))
        for name, d in contracts.drain():
            probs.append((name + "-contract", d))
        probs += self.check_messages(page, "after-call")
        return probs, res


def option_list():
    out = []
    for pf, inv, pre, hook in itertools.product([True, False], repeat=4):
        out.append({"api": "expand", "pf": pf, "inv": inv, "pre": pre, "hook": hook})
    for pf, inv, pre in itertools.product([True, False], repeat=3):
        out.append({"api": "expand", "pf": pf, "inv": inv, "pre": pre, "hook": "raise"})
    out.append({"api": "parse", "pre": True})
    out.append({"api": "parse", "pre": False})
    out.append({"api": "expand", "pf": True, "inv": True, "pre": False, "hook": False, "quiet": True})
    return out


def gen_page(rng):
    tags = set()
    cfg = G.Cfg(include_tags=False)
    parts = []
    for _ in range(rng.randint(1, 4)):
        if rng.random() < 0.6:
            parts.append(rng.choice(SPECIAL))
        else:
            parts.append(G.render(G.seq(rng, rng.randint(1, 3), ["ta", "tb", "tc", "td", "te", "loop", "winv"], False, cfg, tags)))
    return rng.choice(["", " ", "\n"]).join(parts)


def sig_of(p, opt):
    return p[0]


def run_repo_tests_shard(spec):
    from vf.core.repotests import run_repo_tests
    obs = Obs()
    d = run_repo_tests()
    if d is None:
        obs.inconclusive.append("repository tests under the monitor plugin produced no report")
        return obs
    ev = d.get("evals", {})
    obs.count("repo-tests.tests-run", d.get("tests", 0))
    obs.check("repo-tests.expand.stack", ev.get("expand.stack", 0))
    obs.check("repo-tests.parse.stack", ev.get("parse.stack", 0))
    obs.count("repo-tests.messages_checked", d.get("msg_checked", 0))
    for name, dd, test in d.get("contract_fails", []):
        if name.endswith(".stack"):
            obs.violation(name + "-contract", "%s (during %s)" % (dd, test), {"page": "", "opt": {}, "gen": "repo-tests", "test": test})
    for name, dd, test in d.get("msg_fails", []):
        obs.violation(name, "%s (during %s)" % (dd, test), {"page": "", "opt": {}, "gen": "repo-tests", "test": test})
    obs.case("repo-tests", nontrivial=True, sample={"gen": "repo-tests", "tests": d.get("tests"), "stack-contract-evaluations": ev})
    return obs


def run_shard(spec):
    if spec.get("kind") == "repo-tests":
        return run_repo_tests_shard(spec)
    import wikitextprocessor.core as core
    obs = Obs()
    rng = random.Random(spec["seed"])
    mon_plain = Mon(obs)
    mon_alias = Mon(obs, aliases=True)
    mon = mon_plain
    anchors.watch({"core.expand_parserfn": (core.Wtp.expand.__wrapped__ if hasattr(core.Wtp.expand, "__wrapped__") else core.Wtp.expand, "expand_parserfn"),
                   "core.Wtp.start_page": core.Wtp.start_page, "core.Wtp.error": core.Wtp.error,
                   "core.Wtp.warning": core.Wtp.warning, "core.detect_expand_template_loop": core.detect_expand_template_loop})
    opts = option_list()
    for i in range(spec["n"]):
        mon = mon_alias if i % 3 == 2 else mon_plain
        obs.count("context.alias" if mon is mon_alias else "context.plain")
        page = gen_page(rng)
        opt = opts[i % len(opts)] if i < 3 * len(opts) else rng.choice(opts)
        title = rng.choice(["Pg", "Talk:Zz", "Template:Q r"])
        section = rng.choice([None, None, "Sec"])
        ev0 = sum(contracts.EVALS.values())
        probs = mon.start(title, section)
        p2, res = mon.call(page, opt)
        probs += p2
        ctx = mon.ctx
        nested = sum(contracts.EVALS.values()) - ev0 - 1
        if nested > 0:
            obs.count("nested_contract_evals", nested)
        if res is not None and isinstance(res, str):
            if "Lua execution error" in res or "Lua timeout error" in res:
                obs.count("calls_with_lua_error")
            if "Lua timeout error" in res:
                obs.count("calls_with_lua_timeout")
            if "Template loop detected" in res:
                obs.count("calls_with_template_loop")
            if "too deep recursion" in res:
                obs.count("calls_with_depth_error")
        key = "|".join("%s=%s" % kv for kv in sorted(opt.items()))
        obs.add("option_combos", key)
        pushed = len(ctx.errors) + len(ctx.warnings) + len(ctx.debugs) > 0 or "{{" in page
        obs.case([page, key], nontrivial=pushed, sample={"page": page[:200], "options": opt})
        for p in probs:
            obs.violation(p[0], "%s page=%r opt=%r" % (p[1], page[:300], opt), {"page": page, "opt": opt, "title": title, "section": section, "aliases": mon is mon_alias})
        # a second call on the same page without start_page: messages accumulate but stay well-formed
        if i % 7 == 0:
            p3, _ = mon.call(page, opt)
            for p in p3:
                obs.violation(p[0] + "/second-call", "%s page=%r opt=%r" % (p[1], page[:300], opt),
                              {"page": page, "opt": opt, "title": title, "section": section, "twice": True, "aliases": mon is mon_alias})
    # repetition: N flat calls must never look deeply nested
    for j in range(spec["repeat_pages"]):
        mon = mon_alias if j % 2 else mon_plain
        page = gen_page(rng)
        opt = rng.choice([o for o in opts if o["api"] == "expand"])
        if any(t in page for t in TIMEOUT_PAGES):
            continue
        mon.start("Pg", None)
        p0, first = mon.call(page, opt)
        if first is None:
            continue
        deep_first = "too deep recursion" in first
        bad = None
        for k in range(300):
            pk, r = mon.call(page, opt)
            if r is None:
                break
            if ("too deep recursion" in r) and not deep_first:
                bad = k
                break
            if pk:
                bad = k
                break
            mon.ctx.errors.clear(); mon.ctx.warnings.clear(); mon.ctx.debugs.clear()
        obs.check("repeat-no-new-depth-error")
        obs.maxi("max_repeat", k + 1)
        if bad is not None:
            obs.violation("depth-error-after-N-flat-calls", "after %d repeats page=%r opt=%r" % (bad, page[:300], opt),
                          {"page": page, "opt": opt, "repeat": bad + 2, "aliases": mon is mon_alias})
    mon_plain.close()
    mon_alias.close()
    obs.anchors.update(anchors.snapshot())
    for k, v in contracts.EVALS.items():
        obs.check(k, v)
    return obs


def replay(case):
    obs = Obs()
    mon = Mon(obs, aliases=bool(case.get("aliases")))
    probs = mon.start(case.get("title", "Pg"), case.get("section"))
    out = []
    n = case.get("repeat", 2 if case.get("twice") else 1)
    res = None
    for _ in range(n):
        p, res = mon.call(case["page"], case["opt"])
        probs += p
        if res is not None and "too deep recursion" in res and case.get("repeat"):
            probs.append(("depth-error-after-N-flat-calls", ""))
            break
    mon.close()
    return {"violations": sorted(set(p[0] for p in probs)), "details": probs[:10], "result": (res if isinstance(res, str) else str(res))[:500]}
