"""C18 -- parser functions compute their documented values.

Three reference monitors on Wtp.expand("{{fn:...}}"):
 * #expr: generated ASTs; expected value = bottom-up evaluation with the implementation's own primitive
   operator tables (looked up by operator NAME); rendered with minimal parentheses derived from the
   DOCUMENTED ladder, full parentheses, redundant parentheses, random blanks, random letter case; every
   rendering must print the expected value. Failing ASTs are delta-minimised and classified
   (precedence:<rung>~<rung>, associativity:<rung>, unary-binding, single-op, ...).
 * string functions: independent definitions (vf.ref.c18_ref) on the documented domain; bounded-exhaustive
   grid (4-letter alphabet x integers in [-10,10]) + random hostile part; failing calls are shrunk and
   tagged with argument classes.
 * plural (English) and formatnum for every shipped data/*/localization.json: forward formatting,
   R on the reference-formatted numeral, the literal round trip, NOSEP.
"""
from __future__ import annotations

import glob
import itertools
import json
import os
import random

from vf.core.obs import Obs, cpu_guard, CpuBudget, exc_sig
from vf.core import anchors
from vf.gen import c18_expr as X
from vf.ref import c18_ref as R

LEVEL = "exploration"
RULE = ("#expr: (a) bounded-exhaustive: every ordered (parent, child, side) pair of the 18 binary operators and every "
        "unary function/sign against every binary operator in 3 shapes, several literal triples; (b) random ASTs to "
        "depth 5 over all operators, literals, pi/e; each AST rendered 7 ways (minimal / full / redundant parentheses x "
        "blanks x letter case x literal spelling: leading zeros, trailing zeros, '.5', explicit '+'); (c) a fixed grid of "
        "one-literal expressions in 5 spelling classes x 11 wrappings, also through plural and formatnum. string functions: exhaustive grid of all strings over a 4-letter alphabet up to length "
        "3 (quick) / 4-5 (thorough) x all integer arguments in [-10,10] x needles/pads, plus random strings to length 8 "
        "over a 24-character hostile alphabet with blank padding, upper-cased function names and subjects passed "
        "through a template. plural: integers 0..10^6 (English). formatnum: every shipped locale x every "
        "(integer digits 1..12, fraction digits 0..6) cell. distinct = distinct AST / call / (locale, numeral); "
        "non-trivial = AST with >=2 operators; call whose reference value is non-empty and differs from the trimmed "
        "subject; numeral with >=4 integer digits or a fraction; plural with n=1 or n>1")
ASSUMPTIONS = [
    "#expr primitives (operator tables unary_fns/binary_*_fns, looked up by operator name) are taken as given, EXCEPT the "
    "operators whose value rule the manual spells out: mod (operands truncated, sign of the dividend), fmod, round (to "
    "10^-trunc(y), halves away from zero; values within 1e-9 of a half but not on it are not decided: PHP pre-rounding) "
    "and the 0/1 results of logical/comparison operators -- those use independent definitions",
    "a prefix operator (function, sign) directly after binary e or a sign is an operand (2 e abs 1 = 2 e (abs 1)): checked "
    "by a fixed grid, the general renderer still writes those parentheses",
    "expressions whose reference evaluation ends in a primitive error string (Divide by zero, sqrt of negative value) are "
    "only required not to print a number; expressions on which a primitive raises (math domain, overflow) are skipped (C05)",
    "string functions: every parameter is stripped of surrounding blanks (manual, 'Stripping whitespace'); #pos "
    "offset >= 0, #rpos without offset, #explode limit >= 0; #titleparts as the manual defines it (title normalised, split "
    "at '/' only, first counted from 1) for [Help:|Talk:] + alphanumerics and '/'; urlencode QUERY = PHP urlencode, PATH = "
    "rawurlencode, WIKI = wfUrlencode (keeps ;@$!*(),/~:), no doubled blanks in WIKI mode",
    "plural: default (English) rule, non-negative plain integers (with or without leading zeros), both forms given",
    "literal spellings: ASCII decimal numerals only; decimal digits of other scripts are evaluated by the unchanged tree "
    "(Python int/float accept them) and are not asserted; superscript/circled digits must give an expression error",
    "formatnum: plain numerals (digits with at most one '.'), grouping as given by the shipped grouping_method "
    "(no minimum-grouping-digits rule); the locale record is read from the JSON file by the monitor itself",
    "per-case CPU budget 20 s stands for 'returns'",
]
WALL = {"quick": 600, "thorough": 3000}
NSH = 16

ALPHA = ["a", "b", " ", "é"]
TP_ALPHA = ["A", "b", "/", "1"]
CASE_ALPHA = ["a", "B", "é", " "]
NEEDLES = ["", " ", "a", "b", "é", "aa", "ab", "ba", "bb", "aé", "éb", "a b", "b a", "a a"]
NEEDLES_Q = ["", " ", "a", "b", "ab", "é", "a b"]
PADS = [None, "", "x", "ab", "abc", "é-"]
REPLS = ["", "a", "X", "ab"]
INTS = [str(i) for i in range(-10, 11)]
RALPHA = list("abAB  é=:/.-_'ß1&#%+") + ["語", "𝔘", "Ж", "\n"]
URL_ALPHA_Q = list("aZ0 :/é&=?%+#\"-_.'!*(),;@$~") + ["語"]
URL_ALPHA_W = list("aZ0 :/é&=?%+#\"-_.!*(),;@$~") + ["語"]
PLURAL_NS = [0, 1, 2, 3, 5, 10, 11, 12, 21, 100, 101, 1000, 1001, 999999, 1000000]


def params(tier):
    if tier == "quick":
        return {"L_sub": 3, "L_pos": 3, "L_expl": 3, "expl_full": False, "L_pad": 3, "L_tp": 3, "L_case": 4, "L_len": 4,
                "L_repl": 3, "L_url": 1, "triples": 4, "expr_rand": 1400, "str_rand": 2500, "plural": 120,
                "fmt_per_cell": 1}
    return {"L_sub": 4, "L_pos": 4, "L_expl": 4, "expl_full": True, "L_pad": 4, "L_tp": 5, "L_case": 5, "L_len": 5,
            "L_repl": 4, "L_url": 2, "triples": 10, "expr_rand": 200000, "str_rand": 250000, "plural": 3000,
            "fmt_per_cell": 12}


def shards(tier, seed):
    p = params(tier)
    scale = float(os.environ.get("VERIF_C18_SCALE", "1"))      # development aid: shrink the random parts
    if scale != 1:
        for k in ("expr_rand", "str_rand", "plural"):
            p[k] = max(1, int(p[k] * scale))
    return [{"seed": seed * 1000 + i, "idx": i, "nsh": NSH, "tier": tier, "p": p} for i in range(NSH)]


def floors(tier):
    # operator pairs: 19 x 19 x 2 = 722 (fmod included); unary pairs: 16 x 19 x 3 = 912; a few combinations are
    # always outside a primitive's domain with the literal sets used (skipped), hence the margins
    f = {"oracle.expr.rendering": 20000, "oracle.expr.ast": 5000, "sets.expr.pairs": 715, "sets.expr.unary_pairs": 900,
         "oracle.expr.documented-primitive-value": 700, "oracle.expr.prefix-operand": 50, "counters.str.trim-grid": 60,
         "sets.expr.renderings": 7, "oracle.expr.literal-spelling": 400, "sets.expr.literal_spellings": 6,
         "counters.plural.leading-zeros": 100, "sets.str.fns": 15, "sets.locales": 96, "sets.locale_settings": 8,
         "oracle.formatnum.forward": 96 * 84, "oracle.formatnum.reverse": 96 * 84, "oracle.formatnum.roundtrip": 96 * 84,
         "oracle.plural": 500, "counters.plural.n=1": 50, "counters.grid.parts_completed": NSH, "counters.formatnum.cross-locale": NSH * 2 * 7 * 5,
         "sets.fmt.cross_locales": 5,
         "anchors.expr_fn": 20000, "anchors.expr_fn.generic_binary": 20000, "anchors.expr_fn.parse_unary_fn": 20000,
         "anchors.formatnum_fn": 96 * 84, "anchors._formatnum_reverse": 96 * 84, "anchors.plural_fn": 500,
         "nontrivial": 20000}
    for fn in R.STRING_FNS:
        f["oracle.str." + fn] = 300
        f["anchors." + ANCHOR_OF[fn]] = 300
    return f


ANCHOR_OF = {"#len": "len_fn", "#pos": "pos_fn", "#rpos": "rpos_fn", "#sub": "sub_fn", "#replace": "replace_fn",
             "#explode": "explode_fn", "padleft": "padleft_fn", "padright": "padright_fn", "#titleparts": "titleparts_fn",
             "lc": "lc_fn", "uc": "uc_fn", "lcfirst": "lcfirst_fn", "ucfirst": "ucfirst_fn", "urlencode": "urlencode_fn",
             "#urldecode": "urldecode_fn"}
INT_POS = {"#pos": (2,), "#sub": (1, 2), "#explode": (2, 3), "padleft": (1,), "padright": (1,), "#titleparts": (1, 2)}


# =============================================================================== monitor
class Mon:
    def __init__(self, obs, lang=None):
        from vf.core.wtp import fresh, tmpl
        import wikitextprocessor.parserfns as PF
        self.obs = obs
        self.sampled = set()
        self.idx = 0
        self.calls = 0
        self.shrink_memo = {}
        self.error_op = None
        kw = {"lang_code": lang} if lang else {}
        self.cm = fresh(pages=[tmpl("1x", "{{{1}}}")], **kw)
        self.ctx = self.cm.__enter__()
        binary = {}
        for t in (PF.binary_e_fns, PF.binary_pow_fns, PF.binary_mul_fns, PF.binary_add_fns, PF.binary_round_fns,
                  PF.binary_cmp_fns, PF.binary_and_fns, PF.binary_or_fns):
            binary.update(t)
        # the implementation's tables, by operator name ...
        self.impl_prims = {"unary": dict(PF.unary_fns), "binary": dict(binary)}
        # ... except the operators whose VALUE rule is documented: independent definitions (vf.ref.c18_ref)
        doc = dict(binary)
        doc.update(DOC_PRIMS)
        self.prims = {"unary": dict(PF.unary_fns), "binary": doc}
        w = {"expr_fn": PF.expr_fn, "formatnum_fn": PF.formatnum_fn, "_formatnum_reverse": PF._formatnum_reverse,
             "plural_fn": PF.plural_fn}
        for nm in ("generic_binary", "parse_unary", "parse_unary_fn", "parse_atom", "parse_binary_e", "parse_binary_pow",
                   "parse_binary_mul", "parse_binary_add", "parse_binary_round", "parse_binary_cmp", "parse_binary_and",
                   "parse_binary_or"):
            w["expr_fn." + nm] = (PF.expr_fn, nm)
        for a in ANCHOR_OF.values():
            w[a] = getattr(PF, a)
        anchors.watch(w)

    def close(self):
        self.cm.__exit__(None, None, None)

    def want_sample(self, kind):
        """At most one evidence sample per kind and shard (so the samples span the families)."""
        fns = sorted(R.STRING_FNS)
        allowed = {"expr.pairs", "expr.random", "plural", "formatnum",
                   "str." + fns[self.idx % len(fns)], "str." + fns[(self.idx + 7) % len(fns)]}
        if kind in self.sampled or kind not in allowed:
            return False
        self.sampled.add(kind)
        return True

    def expand(self, text):
        """('ok', str) | ('raises', sig) | ('no-return', '')"""
        # a context keeps one cookie per distinct call until start_page() (at most 57k per page): work in
        # "pages" of 1000 calls, and make sure the context still answers a fixed probe at every page break
        self.calls += 1
        if self.calls % 1000 == 0:
            try:
                if self.ctx.expand("{{#len:ab}}{{#expr:1+2*3}}") != "27":
                    self.obs.inconclusive.append("context stopped answering the fixed probe (results since the last page break are unreliable)")
            except Exception as e:
                self.obs.inconclusive.append("fixed probe raised " + exc_sig(e))
            self.ctx.start_page("Pg")
        try:
            with cpu_guard(20):
                return "ok", self.ctx.expand(text)
        except CpuBudget:
            self.ctx.start_page("Pg")
            return "no-return", ""
        except Exception as e:           # an escaping exception leaves frames on expand_stack (C16): start over
            s = exc_sig(e)
            self.ctx.start_page("Pg")
            return "raises", s

    def expected(self, ast, prims=None):
        """(text, is_error) or raises X.Skip"""
        try:
            with cpu_guard(10):
                return X.fmt(X.evaluate(ast, prims or self.prims)), False
        except X.MissingOperator as e:
            raise X.Skip("operator %s missing" % e)
        except X.PrimitiveError as e:
            self.error_op = e.args[1] if len(e.args) > 1 else None
            return str(e.args[0]), True
        except CpuBudget:
            raise X.Skip("reference evaluation over budget")
        except RecursionError:
            raise X.Skip("recursion")


DOC_PRIMS = {"mod": R.expr_mod, "fmod": R.expr_fmod, "round": R.expr_round}


def is_number(s):
    try:
        float(s)
        return True
    except ValueError:
        return False


# =============================================================================== #expr
RENDERINGS = ["min", "full", "red+blanks+case", "min+blanks+case", "full+blanks", "min+spelling",
              "red+blanks+case+spelling"]
SPELLED = ("min+spelling", "red+blanks+case+spelling")


def expr_variants(ast, rng):
    """name -> (tokens with their letter case, text)"""
    out = {}
    for name, style, sp, cs in (("min", "min", False, False), ("full", "full", False, False),
                                ("red+blanks+case", "red", True, True), ("min+blanks+case", "min", True, True),
                                ("full+blanks", "full", True, False)):
        toks = X.tokens(ast, style, rng)
        out[name] = X.join(toks, rng, sp, cs)
    # literal spelling (leading / trailing zeros, ".5", explicit "+") is one more rendering dimension
    out["min+spelling"] = X.render(X.spell_ast(ast, "mixed", rng), "min")
    out["red+blanks+case+spelling"] = X.join(X.tokens(X.spell_ast(ast, "mixed", rng), "red", rng), rng, True, True)
    return out


def expr_ok(mon, text, exp, iserr):
    st, got = mon.expand("{{#expr:" + text + "}}")
    if iserr:
        # the expression has no value: anything but a number is accepted (message / exception differences are
        # outside the statement)
        return not (st == "ok" and is_number(got.strip())), st, got
    return st == "ok" and got == exp, st, got


def expr_fails(mon, ast, style, spell=None):
    try:
        exp, iserr = mon.expected(ast)
    except X.Skip:
        return False
    if iserr:
        return False
    ok, _, _ = expr_ok(mon, X.render(X.spell_ast(ast, spell) if spell else ast, style), exp, iserr)
    return not ok


def got_class(st, got):
    if st != "ok":
        return st if st == "no-return" else "raises:" + got
    if got.startswith('<strong class="error">'):
        return "got=error"
    return "got=value"


def classify_expr(mon, ast, texts, results):
    """results: name -> (ok, st, got). Returns (sig, minimal ast or None, detail)."""
    bad = [n for n in RENDERINGS if not results[n][0]]
    if not results["full"][0]:
        style, rule = "full", "full-parens≠reference"
    elif not results["min"][0]:
        style, rule = "min", "minimal-parens≠reference"
    elif all(n in SPELLED for n in bad):
        # only renderings with respelled literals fail: find the spelling class, then the smallest AST
        name = bad[0]
        for mode in X.SPELL_MODES:
            if expr_fails(mon, ast, "min", mode):
                small = X.minimise(ast, lambda a: expr_fails(mon, a, "min", mode), mon.prims)
                if not expr_fails(mon, small, "min", mode):
                    small = ast
                exp, iserr = mon.expected(small)
                text = X.render(X.spell_ast(small, mode), "min")
                ok, st, got = expr_ok(mon, text, exp, iserr)
                return ("expr/literal-spelling:%s/%s/%s" % (mode, X.shape(small), got_class(st, got)), small,
                        {"minimal": text, "expected": exp, "got": got, "spelling": mode})
        return "expr/literal-spelling:mixed/%s" % got_class(*results[name][1:]), None, {"rendering": name}
    else:
        # only a variant with blanks / letter case / redundant parentheses fails
        name = bad[0]
        text = texts[name]
        import re
        toks = re.findall(r"\d+(?:\.\d*)?|\.\d+|[A-Za-z]+|!=|<>|>=|<=|[^\s]", text)
        exp, iserr = mon.expected(ast)
        low = " ".join(t.lower() for t in toks)
        cas = " ".join(toks)
        if not expr_ok(mon, low, exp, iserr)[0]:
            kind = "redundant-parens-dependent"
        elif not expr_ok(mon, cas, exp, iserr)[0]:
            kind = "case-dependent"
        else:
            kind = "spacing-dependent"
        return "expr/%s/%s" % (kind, got_class(*results[name][1:])), None, {"rendering": name}
    small = X.minimise(ast, lambda a: expr_fails(mon, a, style), mon.prims)
    try:
        exp, iserr = mon.expected(small)
        ok, st, got = expr_ok(mon, X.render(small, style), exp, iserr)
    except X.Skip:
        ok, st, got, exp = results[style] + ("?",)
        small = ast
    if ok:                                  # not reproducible on its own (state?): keep the original
        small, (ok, st, got) = ast, results[style]
    sig = "expr/%s/%s/%s" % (rule, X.shape(small), got_class(st, got))
    return sig, small, {"minimal": X.render(small, style), "expected": exp, "got": got}


def expr_case(mon, obs, ast, rng, gen):
    try:
        exp, iserr = mon.expected(ast)
    except X.Skip as e:
        obs.count("expr.skipped(primitive raises / out of range)")
        return
    n = X.nops(ast)
    canon = X.render(ast, "min")
    smp = None
    if n >= (2 if gen == "pairs" else 5) and not iserr and mon.want_sample("expr." + gen):
        smp = {"family": "expr", "gen": gen, "min": canon, "expected": exp}
    obs.case("expr:" + canon, nontrivial=n >= 2, sample=smp)
    obs.count("expr." + gen)
    obs.check("expr.ast")
    obs.maxi("expr.depth", X.depth(ast))
    obs.maxi("expr.operators", n)
    if iserr:
        obs.count("expr.reference_is_primitive_error")
    note_pairs(obs, ast)
    texts = expr_variants(ast, rng)
    results = {}
    for name in RENDERINGS:
        ok, st, got = expr_ok(mon, texts[name], exp, iserr)
        obs.check("expr.rendering")
        obs.add("expr.renderings", name)
        results[name] = (ok, st, got)
        if iserr and st != "ok":
            obs.count("expr.error_expected.real_code_raised")
        elif iserr and got != exp and not got.startswith('<strong class="error">'):
            obs.count("expr.error_expected.other_text")
    if all(r[0] for r in results.values()):
        return
    sigs = blame_primitive(mon, ast, results)
    if sigs:
        name = [k for k in RENDERINGS if not results[k][0]][0]
        for sig in sigs:            # several operators needed to explain it: one report per operator
            obs.violation(sig, "%r -> %r, documented value %r" % (texts[name], results[name][2], exp),
                          {"family": "expr", "ast": ast, "texts": {name: texts[name]}})
        return
    if iserr:
        name = [k for k in RENDERINGS if not results[k][0]][0]
        exp, _ = mon.expected(ast)
        if mon.error_op in DOC_PRIMS:      # the documented rule of that operator says "no value" (e.g. 3 mod 0.1)
            obs.violation("expr/primitive-value/%s/result-not-documented" % mon.error_op,
                          "%r -> %r, documented: %s" % (texts[name], results[name][2], exp),
                          {"family": "expr", "ast": ast, "texts": {name: texts[name]}})
            return
        obs.violation("expr/primitive-error-lost:%s/got=value" % exp,
                      "%r printed %r although the expression has no value (%s)" % (texts[name], results[name][2], exp),
                      {"family": "expr", "ast": ast, "texts": texts})
        return
    sig, small, detail = classify_expr(mon, ast, texts, results)
    case = {"family": "expr", "ast": small if small is not None else ast, "texts": texts if small is None else None}
    if detail.get("spelling"):
        case["texts"] = {"min+spelling": detail["minimal"]}
    obs.violation(sig, "%s: expected %r; %s" % (canon[:200], exp, json.dumps(detail, ensure_ascii=False)[:400]), case)


def binops_in(ast):
    out, stack = set(), [ast]
    while stack:
        a = stack.pop()
        if a[0] == "b":
            out.add(a[1])
        stack.extend(c for _, c in X.children(a))
    return out


def blame_primitive(mon, ast, results):
    """A disagreement that disappears when ONE operator with a documented value rule (mod, fmod, round) is evaluated
    with the implementation's own primitive instead of the documented definition is that primitive's defect, not a
    precedence / associativity one: one signature per operator."""
    ops = sorted(binops_in(ast) & set(DOC_PRIMS))
    if not ops:
        return None
    missing = [o for o in ops if o not in mon.impl_prims["binary"]]
    if missing:
        return ["expr/primitive-value/%s/documented-operator-not-implemented" % missing[0]]
    for cand in [[o] for o in ops] + ([ops] if len(ops) > 1 else []):
        b = dict(mon.prims["binary"])
        for o in cand:
            b[o] = mon.impl_prims["binary"][o]
        try:
            exp2, iserr2 = mon.expected(ast, {"unary": mon.prims["unary"], "binary": b})
        except X.Skip:
            # with the implementation's primitive the expression leaves a function's domain (e.g. asin of a large
            # number): explained when the real code did not print a number either
            if all(not (st == "ok" and is_number(got.strip())) for (_, st, got) in results.values()):
                return ["expr/primitive-value/%s/result-not-documented" % o for o in cand]
            continue
        if all((st == "ok" and got == exp2) if not iserr2 else not (st == "ok" and is_number(got.strip()))
               for (_, st, got) in results.values()):
            return ["expr/primitive-value/%s/result-not-documented" % o for o in cand]
    return None


def note_pairs(obs, ast):
    stack = [ast]
    while stack:
        a = stack.pop()
        k = a[0]
        if k in ("n", "c"):
            continue
        obs.add("expr.ops", a[1] if k in ("u", "b") else k)
        for idx, c in X.children(a):
            stack.append(c)
            if c[0] in ("n", "c"):
                continue
            if k == "b" and c[0] == "b":
                obs.add("expr.pairs", "%s|%s|%s" % (a[1], c[1], "L" if idx == 2 else "R"))
            elif k == "b":
                obs.add("expr.unary_pairs", "%s|%s|%s" % (a[1], c[1] if c[0] == "u" else c[0], "L" if idx == 2 else "R"))
            elif c[0] == "b":
                obs.add("expr.unary_pairs", "%s|%s|over" % (c[1], a[1] if k == "u" else k))


# =============================================================================== string functions
def call_text(fn, args, deco=None):
    deco = deco or {}
    name = fn
    if deco.get("case"):
        name = fn.upper() if deco["case"] == 1 else fn.title()
    a = list(args)
    if deco.get("ws"):
        pads = deco["ws"]
        a[0] = pads[0] + a[0] + pads[1]
        for i in INT_POS.get(fn, ()):
            if i < len(a) and a[i] != "":
                a[i] = pads[1] + a[i] + pads[0]
    if deco.get("later-arg-blanks"):
        pads = deco["later-arg-blanks"]
        for i in range(1, len(a)):
            if i not in INT_POS.get(fn, ()) and a[i] != "":
                a[i] = pads[0] + a[i] + pads[1]
    if deco.get("via"):
        a[0] = "{{1x|1=" + a[0] + "}}"
    return "{{" + name + ":" + "|".join(a) + "}}"


def str_equal(fn, got, exp):
    # Help:Newlines_and_spaces#Automatic_newline: output that starts with * # : ; {| gets a newline in front
    # unless the call starts a line -- both readings are accepted at the start of the text
    if exp.startswith(("*", "#", ":", ";", "{|")) and got == "\n" + exp:
        return True
    return got == exp


def str_eval(mon, fn, args, deco=None):
    """(verdict, exp, st, got): verdict in 'out' | 'ok' | 'bad'"""
    try:
        exp = R.string_fn(fn, args)
    except TypeError:
        exp = R.OUT
    if exp is R.OUT:
        return "out", None, None, None
    st, got = mon.expand(call_text(fn, args, deco))
    if st == "ok" and str_equal(fn, got, exp):
        return "ok", exp, st, got
    return "bad", exp, st, got


def shrink_args(mon, fn, args, max_tests=250):
    """Greedy delta-minimisation of a failing (undecorated) call."""
    tests = [0]

    memo = mon.shrink_memo

    def fails(a):
        tests[0] += 1
        if tests[0] > max_tests:
            return False
        k = (fn, tuple(a))
        r = memo.get(k)
        if r is None:
            r = str_eval(mon, fn, a)[0] == "bad"
            if len(memo) < 200000:
                memo[k] = r
        return r

    args = list(args)
    ints = INT_POS.get(fn, ())
    frozen = set()
    if fn == "#titleparts":              # prefer a plain title A/b/c... as the witness
        canon = ["A", "A/b", "A/b/c", "A/b/c/d", "A/b/c/d/e"]
        if args[0].strip().startswith(R.TP_NAMESPACES):
            canon += ["Help:A", "Help:A/b", "Help:A/b/c", "Help:A/b/c/d"]
        page = args[0].strip().split(":", 1)[-1]
        if page[:1] != page[:1].upper():
            canon += ["a", "a/b", "a/b/c"]
        for t in canon:
            if fails([t] + args[1:]):
                args[0] = t
                frozen.add(0)
                break
    changed = True
    while changed and tests[0] <= max_tests:
        changed = False
        # drop a trailing argument
        if len(args) > 1 and fails(args[:-1]):
            args = args[:-1]
            changed = True
            continue
        for i, a in enumerate(args):
            cands = []
            if i in frozen:
                continue
            if i in ints:
                try:
                    v = int(a)
                except ValueError:
                    continue
                for m in range(0, abs(v)):
                    for c in ((m,) if m == 0 else ((m, -m) if v > 0 else (-m, m))):
                        cands.append(str(c))
            else:
                for k in range(len(a)):
                    cands.append(a[:k] + a[k + 1:])
                for k, ch in enumerate(a):
                    if ch != "a" and not (fn == "#titleparts" and ch == "/"):
                        cands.append(a[:k] + ("A" if fn == "#titleparts" else "a") + a[k + 1:])
            for c in cands:
                if c == a:
                    continue
                b = args[:i] + [c] + args[i + 1:]
                if fails(b):
                    args = b
                    changed = True
                    break
            if changed:
                break
    return args


def _sign(s, zero="0"):
    if s is None or s.strip() == "":
        return zero
    v = int(s)
    return "neg" if v < 0 else ("pos" if v > 0 else zero)


def _strclass(s):
    if s is None:
        return "absent"
    if s == "":
        return "empty"
    t = "len1" if len(s) == 1 else "len>1"
    if any(ord(c) > 127 for c in s):
        t += ",nonascii"
    return t


def _charclass(s):
    cls = set()
    for c in s:
        if c == " ":
            cls.add("space")
        elif c.isascii() and c.isalnum():
            cls.add("alnum")
        elif c in "-_.":
            cls.add("unreserved-punct")
        elif c in ":/":
            cls.add("colon-slash")
        elif c == "%":
            cls.add("percent")
        elif c == "~":
            cls.add("tilde")
        elif c in ";@$!*(),":
            cls.add("sub-delims")
        elif c == "+":
            cls.add("plus")
        elif ord(c) > 127:
            cls.add("nonascii")
        elif c in "\t\n":
            cls.add("ctrl-blank")
        else:
            cls.add("punct")
    return "+".join(sorted(cls)) or "empty"


def features(fn, args, exp, got):
    a = list(args) + [None] * 4
    s = R.trim(a[0])
    if fn in ("padleft", "padright"):
        pad = "0" if a[2] is None else a[2]
        need = (R._int(a[1]) or 0) - len(s)
        t = ["pad=default" if a[2] is None else "padlen=%s" % ("0" if not pad else ("1" if len(pad) == 1 else ">1"))]
        if need <= 0:
            t.append("need<=0")
        elif need <= len(pad) or not pad:
            t.append("need<=padlen")
        else:
            t.append("need>padlen:" + ("exact-multiple" if need % len(pad) == 0 else "remainder"))
        return t
    if fn == "#sub":
        st, ln = R._int(a[1]), R._int(a[2])
        t = ["start=" + _sign(a[1]), "length=" + _sign(a[2])]
        if abs(st) > len(s):
            t.append("|start|>len")
        if ln < 0 and -ln > len(s) - (st if st >= 0 else max(0, len(s) + st)):
            t.append("|length|>rest")
        return t
    if fn == "#pos":
        off = R._int(a[2])
        return ["needle=" + _strclass(a[1] or ""), "offset=" + ("0" if off == 0 else ("in-range" if off <= len(s) else ">len")),
                "found" if exp != "" else "not-found"]
    if fn == "#rpos":
        return ["needle=" + _strclass(a[1] or ""), "found" if exp != "-1" else "not-found"]
    if fn == "#replace":
        return ["needle=" + _strclass(a[1] or ""), "replacement=" + _strclass(a[2] or "")]
    if fn == "#explode":
        lim = R._int(a[3], None)
        nparts = len(R._split(s, a[1] or " "))
        return ["delim=" + _strclass(a[1] or ""), "pos=" + _sign(a[2]),
                "limit=" + ("absent" if lim is None else ("0" if lim == 0 else ("merging" if lim < nparts else "not-merging")))]
    if fn == "#titleparts":
        k, f = R._int(a[1]), R._int(a[2])
        n = len(R._split(s, "/")) if s else 0
        # exclusive classes, in the order the shrinker removes them
        if s.startswith(R.TP_NAMESPACES):
            return ["namespace-prefix"]
        if f > 0:
            return ["first=pos"]
        if s[:1] != s[:1].upper() and got[:1].upper() + got[1:] == exp:
            return ["lowercase-initial"]
        c = "count=" + _sign(a[1])
        if k < 0 and f == 0:
            c += ":strips-all" if -k >= n else ":strips-some"
        return [c, "first=" + _sign(a[2])]
    if fn == "urlencode":
        return ["mode=" + (a[1] or "QUERY"), "chars=" + _charclass(s)]
    if fn == "#urldecode":
        return ["chars=" + _charclass(s)]
    # #len, lc, uc, lcfirst, ucfirst
    return ["chars=" + _charclass(s)]


def str_case(mon, obs, fn, args, deco=None, gen="grid"):
    verdict, exp, st, got = str_eval(mon, fn, args, deco)
    if verdict == "out":
        obs.count("str.out_of_documented_domain." + fn)
        return
    key = "str:" + fn + "\x00" + "\x00".join(args) + ("\x00" + json.dumps(deco, sort_keys=True) if deco else "")
    sample = None
    if gen == "random" and exp not in ("", R.trim(args[0])) and mon.want_sample("str." + fn):
        sample = {"family": "str", "call": call_text(fn, args, deco), "expected": exp}
    obs.case(key, nontrivial=(exp != "" and exp != R.trim(args[0])), sample=sample)
    obs.check("str." + fn)
    obs.add("str.fns", fn)
    obs.count("str." + gen)
    for i in INT_POS.get(fn, ()):
        if i < len(args):
            obs.add("str.intargs." + fn, "%d:%s" % (i, args[i]))
    if verdict == "ok":
        return
    case = {"family": "str", "fn": fn, "args": list(args), "deco": deco}
    if st != "ok":
        obs.violation("%s/%s" % (fn, "no-return" if st == "no-return" else "raises:" + got),
                      "%s -> %s %s" % (call_text(fn, args, deco), st, got), case)
        return
    # decorated call: does the plain call fail too?
    if deco:
        v2 = str_eval(mon, fn, args)
        if v2[0] != "bad":
            tags = []
            for k in sorted(deco):
                if str_eval(mon, fn, args, {k: deco[k]})[0] == "bad":
                    tags.append(k)
            obs.violation("%s/≠reference/decoration:%s" % (fn, "+".join(tags) or "+".join(sorted(deco))),
                          "%r -> %r, reference %r" % (call_text(fn, args, deco), got, exp), case)
            return
    small = shrink_args(mon, fn, args)
    v3 = str_eval(mon, fn, small)
    if v3[0] != "bad":
        small, v3 = list(args), (verdict, exp, st, got)
    if v3[2] != "ok":
        sig = "%s/%s" % (fn, "no-return" if v3[2] == "no-return" else "raises:" + v3[3])
    else:
        sig = "%s/≠reference/%s" % (fn, ",".join(features(fn, small, v3[1], v3[3])))
    obs.violation(sig, "%r -> %r, reference %r (minimised from %r)" % (call_text(fn, small), v3[3], v3[1], call_text(fn, args, deco)),
                  {"family": "str", "fn": fn, "args": small, "deco": None})


def strings(alpha, L):
    yield ""
    for n in range(1, L + 1):
        for t in itertools.product(alpha, repeat=n):
            yield "".join(t)


def opt_ints():
    return [None] + INTS


def mkargs(*xs):
    """Drop trailing absent arguments; inner absent -> ''."""
    xs = list(xs)
    while xs and xs[-1] is None:
        xs.pop()
    return ["" if x is None else x for x in xs]


def grid(p):
    """Deterministic enumeration of the bounded-exhaustive string-function part."""
    for s in strings(ALPHA, p["L_len"]):
        yield "#len", [s]
    for s in strings(CASE_ALPHA, p["L_case"]):
        for fn in ("lc", "uc", "lcfirst", "ucfirst"):
            yield fn, [s]
    for s in strings(ALPHA, p["L_sub"]):
        for st in INTS:
            for ln in opt_ints():
                yield "#sub", mkargs(s, st, ln)
        yield "#sub", [s]
    for s in strings(ALPHA, p["L_pos"]):
        for nd in NEEDLES:
            yield "#rpos", mkargs(s, nd)
            for off in [None] + INTS[10:]:
                yield "#pos", mkargs(s, nd, off)
        yield "#pos", [s]
        yield "#rpos", [s]
    for s in strings(ALPHA, p["L_repl"]):
        for nd in NEEDLES:
            for rp in REPLS:
                yield "#replace", mkargs(s, nd, rp)
    delims = NEEDLES if p["expl_full"] else NEEDLES_Q
    limits = [None] + INTS[10:] if p["expl_full"] else [None, "0", "1", "2", "3", "4", "10"]
    for s in strings(ALPHA, p["L_expl"]):
        for d in delims:
            for pos in INTS:
                for lim in limits:
                    yield "#explode", mkargs(s, d, pos, lim)
    for s in strings(ALPHA, p["L_pad"]):
        for cnt in INTS:
            for pad in PADS:
                yield "padleft", mkargs(s, cnt, pad)
                yield "padright", mkargs(s, cnt, pad)
    for s in strings(TP_ALPHA, p["L_tp"]):
        for num in opt_ints():
            for first in [None] + INTS[:16]:
                yield "#titleparts", mkargs(s, num, first)
    # a namespace prefix belongs to the first segment
    for ns in R.TP_NAMESPACES:
        for s in strings(TP_ALPHA, p["L_tp"] - 1):
            for num in opt_ints():
                for first in [None] + INTS[5:16]:
                    yield "#titleparts", mkargs(ns + s, num, first)
    for mode, alpha in ((None, URL_ALPHA_Q), ("QUERY", URL_ALPHA_Q), ("PATH", URL_ALPHA_Q), ("WIKI", URL_ALPHA_W)):
        for s in strings(alpha, p["L_url"]):
            yield "urlencode", mkargs(s, mode)
    for s in strings(URL_ALPHA_Q, p["L_url"]):
        yield "#urldecode", [R.f_urlencode(s, "QUERY")]
        yield "#urldecode", [R.f_urlencode(s, "PATH")]


# every parameter is stripped: blanks around the search term / delimiter / replacement / pad / mode
TRIM_CASES = [("#pos", ["abcb", "b"]), ("#pos", ["a b c", "b c", "1"]), ("#rpos", ["abcb", "b"]), ("#replace", ["abc", "b", "X"]),
              ("#replace", ["a-b-c", "-", "+ +"]), ("#explode", ["a,b,c", ",", "1"]), ("#explode", ["a--b--c", "--", "-1", "2"]),
              ("padleft", ["xyz", "5", "_"]), ("padleft", ["xyz", "7", "ab"]), ("padright", ["xyz", "5", "_"]),
              ("padright", ["xyz", "7", "ab"]), ("urlencode", ["a b/c", "PATH"]), ("urlencode", ["a b/c", "WIKI"]),
              ("urlencode", ["a b/c", "QUERY"])]
TRIM_PADS = [(" ", " "), (" ", ""), ("", " "), ("\n", "\n"), ("  ", "\t")]


def trim_grid():
    for fn, args in TRIM_CASES:
        for pads in TRIM_PADS:
            yield fn, list(args), {"later-arg-blanks": pads}


def rstring(rng, alpha, maxlen=8):
    return "".join(rng.choice(alpha) for _ in range(rng.randint(0, maxlen)))


def rneedle(rng, s, alpha):
    for _ in range(10):
        if s and rng.random() < 0.6:
            i = rng.randrange(len(s))
            nd = s[i:i + rng.randint(1, 3)]
        else:
            nd = rstring(rng, alpha, 2)
        if nd == R.trim(nd) and "|" not in nd:
            return nd
    return "a"


def rint(rng, absent=0.2):
    if rng.random() < absent:
        return None
    return str(rng.randint(-10, 10))


def random_str_case(rng):
    fn = rng.choice(list(R.STRING_FNS))
    al = RALPHA
    if fn == "#titleparts":
        s = rstring(rng, ["A", "b", "/", "1", "/", "Cd", "é"], 8)
        s = rng.choice(["", "", "", "Help:", "Talk:"]) + s
        args = mkargs(s, rint(rng), rint(rng))
    elif fn in ("lc", "uc", "lcfirst", "ucfirst"):
        args = [rstring(rng, list("aBcD  é1-") + ["Ж", "ж", "É"], 8)]
    elif fn == "urlencode":
        mode = rng.choice([None, "QUERY", "PATH", "WIKI"])
        args = mkargs(rstring(rng, URL_ALPHA_W if mode == "WIKI" else URL_ALPHA_Q, 8), mode)
    elif fn == "#urldecode":
        args = [R.f_urlencode(rstring(rng, URL_ALPHA_Q, 8), rng.choice(["QUERY", "PATH"]))]
    else:
        s = rstring(rng, al, 8)
        if fn == "#len":
            args = [s]
        elif fn == "#sub":
            args = mkargs(s, rint(rng), rint(rng, 0.3))
        elif fn == "#pos":
            args = mkargs(s, rneedle(rng, R.trim(s), al), rng.choice([None] + INTS[10:]))
        elif fn == "#rpos":
            args = mkargs(s, rneedle(rng, R.trim(s), al))
        elif fn == "#replace":
            args = mkargs(s, rneedle(rng, R.trim(s), al), rneedle(rng, "", al) if rng.random() < 0.7 else "")
        elif fn == "#explode":
            args = mkargs(s, rneedle(rng, R.trim(s), al), rint(rng), rng.choice([None] + INTS[10:]))
        else:
            pad = rng.choice([None, "", "0", "x", "ab", "abc", "é-", "_-=", "abcd"])
            args = mkargs(s, rint(rng, 0.05), pad)
    deco = {}
    if rng.random() < 0.35:
        deco["ws"] = rng.choice([(" ", " "), ("\n", " "), ("  ", "\t"), (" ", "\n")])
    if rng.random() < 0.15:
        deco["case"] = rng.choice([1, 2])
    if rng.random() < 0.2 and "|" not in args[0]:
        deco["via"] = 1
    if rng.random() < 0.15 and fn in ("#pos", "#rpos", "#replace", "#explode", "padleft", "padright", "urlencode"):
        deco["later-arg-blanks"] = rng.choice(TRIM_PADS)
    return fn, args, (deco or None)


# =============================================================================== plural
def plural_eval(mon, n, one, other, ws="", zeros=0):
    text = "{{plural:%s%s%s|%s|%s}}" % (ws, "0" * zeros + str(n), ws, one, other)
    exp = R.f_plural("0" * zeros + str(n), one, other)
    st, got = mon.expand(text)
    return text, exp, st, got


def plural_case(mon, obs, n, one, other, ws="", zeros=0):
    """zeros: leading zeros written before the number (it selects by NUMBER, not by spelling)."""
    text, exp, st, got = plural_eval(mon, n, one, other, ws, zeros)
    if exp is R.OUT:
        return
    if zeros:
        obs.count("plural.leading-zeros")
    obs.case("plural:%s|%s|%s|%r|%d" % (n, one, other, ws, zeros), nontrivial=True,
             sample={"family": "plural", "call": text, "expected": exp} if n > 1 and mon.want_sample("plural") else None)
    obs.check("plural")
    obs.count("plural.n=1" if n == 1 else "plural.n≠1")
    if st == "ok" and got == exp:
        return
    case = {"family": "plural", "n": n, "one": one, "other": other, "ws": ws, "zeros": zeros}
    if st != "ok":
        sig = "plural/" + ("no-return" if st == "no-return" else "raises:" + got)
    else:
        cls = "n=1" if n == 1 else ("n=0" if n == 0 else "n>1")
        what = "got-other-form" if got == other else ("got-one-form" if got == one else "got-neither-form")
        sig = "plural/%s/%s" % (cls, what)
        if zeros:
            _, e2, st2, g2 = plural_eval(mon, n, one, other, ws, 0)
            if st2 == "ok" and g2 == e2:
                sig += "/needs=leading-zero"
    obs.violation(sig, "%r -> %r, reference %r" % (text, got, exp), case)


# =============================================================================== formatnum
_LOCALES = None


def locales():
    """[(code, record)] read from the shipped JSON files by the monitor itself."""
    global _LOCALES
    if _LOCALES is None:
        import wikitextprocessor
        base = os.path.join(os.path.dirname(wikitextprocessor.__file__), "data")
        out = []
        for f in sorted(glob.glob(os.path.join(base, "*", "localization.json"))):
            with open(f, encoding="utf-8") as fh:
                out.append((os.path.basename(os.path.dirname(f)), json.load(fh)))
        _LOCALES = out
    return _LOCALES


def digits_only(s):
    return "".join(c for c in s if c in "0123456789")


def fmt_eval(mon, kind, n, loc):
    """kind: forward | reverse | nosep | roundtrip -> (text, exp, st, got)"""
    if kind == "forward":
        text, exp = "{{formatnum:%s}}" % n, R.f_formatnum(n, loc)
    elif kind == "reverse":
        text, exp = "{{formatnum:%s|R}}" % R.f_formatnum(n, loc), n
    elif kind == "nosep":
        text, exp = "{{formatnum:%s|NOSEP}}" % n, R.f_formatnum_nosep(n)
    else:
        text, exp = "{{formatnum:{{formatnum:%s}}|R}}" % n, n
    st, got = mon.expand(text)
    return text, exp, st, got


def fmt_fails(mon, kind, n, loc):
    _, exp, st, got = fmt_eval(mon, kind, n, loc)
    return not (st == "ok" and got == exp)


def fmt_needs(mon, kind, n, loc):
    ip, dot, fp = n.partition(".")
    needs = []
    if dot and not fmt_fails(mon, kind, ip, loc):
        needs.append("fraction")
    if len(ip) > 3 and not fmt_fails(mon, kind, ip[-3:] + dot + fp, loc):
        needs.append("grouping")
    if len(ip) > 1 and ip[0] == "0" and not fmt_fails(mon, kind, (ip.lstrip("0") or "0") + dot + fp, loc):
        needs.append("leading-zero")
    return "+".join(needs) or "none"


def fmt_gotclass(kind, n, exp, got, loc, text):
    dec = loc["decimal_point"]
    if kind == "forward" or kind == "nosep":
        if got == n and exp != n:
            return "unchanged-input"
        if digits_only(got) != digits_only(exp):
            return "digits-differ"
        if dec in exp and not (dec in got and got.rsplit(dec, 1)[1] == exp.rsplit(dec, 1)[1]):
            return "decimal-mark"
        return "grouping"
    arg = text[len("{{formatnum:"):-len("|R}}")]
    if got == arg:
        return "unchanged-input"
    if digits_only(got) != digits_only(exp):
        return "digits-differ"
    if "." in exp and "." not in got:
        return "decimal-mark-lost" if got == digits_only(got) else "decimal-mark-not-converted"
    if got != digits_only(got) and got.replace(".", "", 1) != digits_only(got):
        return "separator-kept"
    return "other"


def fmt_case(mon, obs, lang, loc, n):
    ip, dot, fp = n.partition(".")
    obs.case("fmt:%s:%s" % (lang, n), nontrivial=(len(ip) >= 4 or bool(dot)),
             sample={"family": "formatnum", "lang": lang, "n": n, "reference": R.f_formatnum(n, loc)}
             if len(ip) > 6 and dot and mon.want_sample("formatnum") else None)
    obs.add("fmt.cells", "%d.%d" % (len(ip), len(fp)))
    bad = {}
    for kind in ("forward", "reverse", "nosep", "roundtrip"):
        text, exp, st, got = fmt_eval(mon, kind, n, loc)
        obs.check("formatnum." + kind)
        if not (st == "ok" and got == exp):
            bad[kind] = (text, exp, st, got)
    for kind in ("forward", "reverse", "nosep"):
        if kind not in bad:
            continue
        text, exp, st, got = bad[kind]
        if st != "ok":
            sig = "formatnum/%s/%s" % (kind, "no-return" if st == "no-return" else "raises:" + got)
        else:
            sig = "formatnum/%s/%s/needs=%s" % (kind, fmt_gotclass(kind, n, exp, got, loc, text), fmt_needs(mon, kind, n, loc))
        obs.violation(sig, "locale %s %s: %r -> %r, reference %r" % (lang, json.dumps(loc, ensure_ascii=True), text, got, exp),
                      {"family": "formatnum", "lang": lang, "n": n})
    if "roundtrip" in bad:
        if "forward" in bad or "reverse" in bad:
            obs.count("formatnum.roundtrip_failures_explained_by_forward_or_reverse")
        else:
            text, exp, st, got = bad["roundtrip"]
            obs.violation("formatnum/roundtrip-only", "locale %s: %r -> %r, reference %r" % (lang, text, got, exp),
                          {"family": "formatnum", "lang": lang, "n": n})


# locales with pairwise different decimal mark / separator / grouping: en ", ." | de ". ," | fr nbsp | hi 3-2 | bg "" | el []
CROSS_LOCALES = ["en", "de", "fr", "hi", "bg", "el", "ru"]
CROSS_NUMERALS = ["1234567.891", "44.0", "0.5", "1234", "987654321", "12345.67", "7"]


def numeral(rng, il, fl):
    r = rng.random()
    if il > 1 and r < 0.08:
        ip = "0" * rng.randint(1, il - 1)
        ip = ip + "".join(rng.choice("0123456789") for _ in range(il - len(ip)))
    else:
        ip = rng.choice("123456789") + "".join(rng.choice("0123456789") for _ in range(il - 1))
        if il == 1 and r < 0.3:
            ip = "0"
    fp = "".join(rng.choice("0123456789") for _ in range(fl))
    return ip + ("." + fp if fl else "")


# =============================================================================== shard
def run_shard(spec):
    obs = Obs()
    rng = random.Random(spec["seed"])
    p = spec["p"]
    idx, nsh = spec["idx"], spec["nsh"]
    mon = Mon(obs)
    mon.idx = idx
    # ---- #expr, bounded-exhaustive pair part
    pairs = X.pair_asts(p["triples"], rot=spec["seed"] // 1000)
    for i, ast in enumerate(pairs):
        if i % nsh == idx:
            expr_case(mon, obs, ast, rng, "pairs")
    # ---- #expr, documented result domain of logical / comparison operators (shard 0 only: a fixed grid)
    if idx == 0:
        primitive_cases(mon, obs)
    # ---- #expr, a whole expression that is one literal, in every spelling and wrapping (shard 1 only: a fixed grid)
    if idx == 1 % nsh:
        literal_cases(mon, obs)
    # ---- #expr, operators with a documented value rule and prefix operators in operand position (fixed grids)
    if idx == 2 % nsh:
        documented_primitive_cases(mon, obs)
        prefix_operand_cases(mon, obs)
    # ---- #expr, random part
    for i in range(p["expr_rand"]):
        d = 2 + (i % 4)
        expr_case(mon, obs, X.gen_ast(rng, d), rng, "random")
    # ---- string functions, grid
    for i, (fn, args) in enumerate(grid(p)):
        if (i + i // nsh) % nsh == idx:          # rotating slices: every shard sees every function / argument class
            str_case(mon, obs, fn, args, None, "grid")
    if idx == 3 % nsh:
        for fn, args, deco in trim_grid():
            str_case(mon, obs, fn, args, deco, "trim-grid")
    obs.count("grid.parts_completed")
    # ---- string functions, random hostile part
    for i in range(p["str_rand"]):
        fn, args, deco = random_str_case(rng)
        str_case(mon, obs, fn, args, deco, "random")
    # ---- plural
    for i in range(p["plural"]):
        n = PLURAL_NS[i % len(PLURAL_NS)] if i % 3 else rng.choice([1, 1, rng.randint(0, 30), rng.randint(0, 10 ** 6)])
        one, other = rng.choice(["is", "page", "a b", "1", "é"]), rng.choice(["are", "pages", "c", "2", "ы"])
        plural_case(mon, obs, n, one, other, rng.choice(["", "", " ", "\n"]), rng.choice([0, 0, 0, 1, 2]))
    mon.close()
    # ---- formatnum: this shard's locales, every (integer digits, fraction digits) cell
    locs = locales()
    for li, (lang, loc) in enumerate(locs):
        if li % nsh != idx:
            continue
        m = Mon(obs, lang=lang)
        m.idx, m.sampled = idx, mon.sampled
        live = m.ctx.LOCALIZATION_DATA
        if json.dumps(live, sort_keys=True) != json.dumps(loc, sort_keys=True):
            obs.inconclusive.append("locale %s: context did not load the shipped record" % lang)
        obs.add("locales", lang)
        obs.add("locale_settings", json.dumps(loc, sort_keys=True))
        for il in range(1, 13):
            for fl in range(0, 7):
                for _ in range(p["fmt_per_cell"]):
                    fmt_case(m, obs, lang, loc, numeral(rng, il, fl))
        m.close()
    # ---- formatnum: the SAME numerals under locales with different separators, one after the other in one process and
    # in both orders (a result must depend on the context's locale, not on what another context formatted before)
    byname = dict(locs)
    order = [l for l in CROSS_LOCALES if l in byname]
    for lang in order + order[::-1]:
        m = Mon(obs, lang=lang)
        m.idx, m.sampled = idx, mon.sampled
        obs.add("fmt.cross_locales", lang)
        for n in CROSS_NUMERALS:
            fmt_case(m, obs, lang, byname[lang], n)
            obs.count("formatnum.cross-locale")
        m.close()
    obs.anchors.update(anchors.snapshot())
    return obs


# =============================================================================== documented primitive values
# The AST monitor above takes the implementation's own operator tables as given (it decides precedence and
# associativity).  The logical and comparison operators additionally have a documented RESULT DOMAIN: they yield
# 1 or 0 (Help:Extension:ParserFunctions, #expr: "and/or/not ... return 1 or 0", comparisons likewise).  That small
# contract is checked independently here, over an operand grid including values other than 0 and 1.
PRIM_OPERANDS = ["0", "1", "2", "3", "-1", "0.5", "-0.5", "10", "(1+1)", "(2-2)", "0.0"]


def prim_expected(op, a, b):
    x = eval(a)
    y = eval(b) if b is not None else None
    if op == "and":
        return 1 if (x != 0 and y != 0) else 0
    if op == "or":
        return 1 if (x != 0 or y != 0) else 0
    if op == "not":
        return 1 if x == 0 else 0
    return int({"=": x == y, "!=": x != y, "<>": x != y, "<": x < y, ">": x > y, "<=": x <= y, ">=": x >= y}[op])


def primitive_cases(mon, obs):
    for op in ("and", "or", "=", "!=", "<>", "<", ">", "<=", ">="):
        for a in PRIM_OPERANDS:
            for b in PRIM_OPERANDS:
                text = "{{#expr:%s %s %s}}" % (a, op, b)
                st, got = mon.expand(text)
                obs.check("expr.logic-comparison-yields-0-or-1")
                exp = str(prim_expected(op, a, b))
                obs.case(text, nontrivial=True)
                if st != "ok" or got.strip() != exp:
                    obs.violation("expr/primitive-value/%s/result-not-documented-0-or-1" % ("logical" if op in ("and", "or") else "comparison"),
                                  "%s -> %r, documented value %s" % (text, got, exp), {"family": "primitive", "text": text, "exp": exp})
    for a in PRIM_OPERANDS:
        text = "{{#expr:not %s}}" % a
        st, got = mon.expand(text)
        obs.check("expr.logic-comparison-yields-0-or-1")
        exp = str(prim_expected("not", a, None))
        obs.case(text, nontrivial=True)
        if st != "ok" or got.strip() != exp:
            obs.violation("expr/primitive-value/not/result-not-documented-0-or-1", "%s -> %r, documented value %s" % (text, got, exp),
                          {"family": "primitive", "text": text, "exp": exp})
    # the logical result also feeds other functions
    for n, e in (("1 and 5", "one"), ("0 or 0", "many"), ("2 and 3", "one")):
        text = "{{plural:%s|one|many}}" % n
        st, got = mon.expand(text)
        obs.check("expr.logic-comparison-yields-0-or-1")
        if st != "ok" or got.strip() != e:
            obs.violation("expr/primitive-value/logical/result-not-documented-0-or-1", "%s -> %r, expected %s" % (text, got, e),
                          {"family": "primitive", "text": text, "exp": e})


# =============================================================================== documented value rules of mod / fmod / round
PRIM_MOD_OPERANDS = ["-8", "-7", "-3", "-1", "0", "1", "2", "3", "7", "8", "30", "2.7", "3.2", "8.9", "-8.9", "0.5", "-2.5"]
PRIM_ROUND_X = ["0.5", "-0.5", "1.5", "2.5", "-2.5", "4.5", "-4.5", "0.125", "0.375", "1234.5678", "-1234.5678", "25", "-25",
                "35", "1250", "7", "0", "1/3", "1/6", "-1/3", "3/4", "1/2", "-1/2", "8.99999/9", "2+0.5"]
PRIM_ROUND_D = ["0", "1", "2", "5", "-1", "-2", "2.3", "3.7", "-1.5"]


def documented_primitive_cases(mon, obs):
    def one(op, a, b):
        text = "{{#expr:%s %s %s}}" % (a, op, b)
        try:
            exp = DOC_PRIMS[op](eval(a), eval(b))
        except ValueError:
            obs.count("expr.primitive-grid.not-settled-by-documentation")
            return
        st, got = mon.expand(text)
        obs.check("expr.documented-primitive-value")
        obs.case(text, nontrivial=True)
        if isinstance(exp, str):
            ok = not (st == "ok" and is_number(got.strip()))
        else:
            want = X.fmt(exp)
            ok = st == "ok" and (got == want or (want == "0" and got == "-0"))
        if not ok:
            what = "documented-operator-not-implemented" if op not in mon.impl_prims["binary"] else "result-not-documented"
            obs.violation("expr/primitive-value/%s/%s" % (op, what),
                          "%s -> %r, documented value %s" % (text, got, exp if isinstance(exp, str) else X.fmt(exp)),
                          {"family": "docprim", "op": op, "a": a, "b": b})
    for op in ("mod", "fmod"):
        for a in PRIM_MOD_OPERANDS:
            for b in PRIM_MOD_OPERANDS:
                one(op, a, b)
    for a in PRIM_ROUND_X:
        for b in PRIM_ROUND_D:
            one("round", a, b)


# A prefix operator (function or sign) is an operand wherever an operand is expected: "2 e abs 1" can only mean
# 2 e (abs 1); the parentheses are redundant.  (The general renderer always writes them: conservative reading of
# the ladder, so this class needs its own small grid.)
PREFIX_ARG = {"sqrt": "4", "ln": "1", "exp": "0"}


def prefix_operand_cases(mon, obs):
    for f in X.UNARY_FNS:
        x = PREFIX_ARG.get(f, "1")
        inner = ("u", f, ("n", x))
        for tmpl, ast in (("2 e %s %s", ("b", "e", ("n", "2"), inner)),
                          ("2 e - %s %s", ("b", "e", ("n", "2"), ("neg", inner))),
                          ("- %s %s", ("neg", inner)),
                          ("3 ^ - %s %s", ("b", "^", ("n", "3"), ("neg", inner))),
                          ("2 e %s %s * 3", ("b", "*", ("b", "e", ("n", "2"), inner), ("n", "3")))):
            text = tmpl % (f, x)
            try:
                exp, iserr = mon.expected(ast)
            except X.Skip:
                continue
            if iserr:
                continue
            ok, st, got = expr_ok(mon, text, exp, False)
            ok2, _, got2 = expr_ok(mon, X.render(ast, "full"), exp, False)
            obs.check("expr.prefix-operand")
            obs.case("prefix:" + text, nontrivial=True)
            if ok2 and not ok:
                after = "e" if " e " in text else ("sign" if text.startswith("-") else "pow")
                obs.violation("expr/prefix-operator-as-operand-after-%s/%s" % (after, got_class(st, got)),
                              "%r -> %r but %r -> %r" % (text, got, X.render(ast, "full"), got2),
                              {"family": "prefix", "text": text, "ast": ast})


# =============================================================================== one-literal expressions
# A numeral is a well-formed expression. Its value is the decimal number it denotes, printed like every other
# #expr result (integral values without a fraction); it does not depend on leading zeros, trailing zeros of the
# fraction, a bare point, an explicit "+", blanks, redundant parentheses, "+0" or "*1". The same spellings are fed
# to plural and to formatnum (through #expr). Expected values come from the decimal reading, not from the code.
LIT_SPELLINGS = {
    "plain": ["0", "1", "7", "10", "12", "100", "2024", "0.5", "2.5", "1.25", "10.75"],
    "leading-zero": ["00", "01", "07", "007", "0010", "012", "00100", "02024", "00.5", "02.5", "001.25"],
    "trailing-zero": ["0.50", "2.500", "1.250", "10.7500", "7.0", "10.00", "0.0"],
    "bare-point": [".5", ".25", ".50", ".0"],
    "trailing-point": ["7.", "10.", "0.", "07."],
}
LIT_FORMS = [("bare", "%s"), ("bare", " %s "), ("bare", "\n%s\n"), ("parens", "(%s)"), ("parens", "( ( %s ) )"),
             ("plus", "+%s"), ("plus", "+ %s"), ("plus-zero", "%s+0"), ("times-one", "%s * 1"), ("minus", "-%s"),
             ("minus-minus", "- -%s")]
# characters for which str.isdigit() holds but which are no decimal numerals: the unchanged tree answers with an
# in-band expression error for each of them (decimal digits of other scripts are evaluated by it: not asserted)
NON_NUMERALS = ["\u00b2", "\u00b3", "\u00b9", "\u2460", "\u2074"]


def decimal_print(lit, negate=False):
    """Independent decimal reading of a numeral, printed as #expr prints numbers."""
    ip, _, fp = lit.partition(".")
    ip = ip.lstrip("0") or "0"
    fp = fp.rstrip("0")
    v = float(ip + "." + fp) if fp else int(ip)
    if negate:
        v = -v
    if isinstance(v, float) and v == int(v):
        v = int(v)
    if v == 0:
        v = 0
    return str(v)


def literal_check(mon, obs, kind, spelling, form, lit):
    """kind: expr | plural | formatnum | non-numeral"""
    if kind == "expr":
        text = "{{#expr:" + (form % lit) + "}}"
        exp = decimal_print(lit, negate=form.count("-") == 1)
    elif kind == "plural":
        text = "{{plural:" + (form % lit) + "|one|many}}"
        exp = "one" if decimal_print(lit) == "1" else "many"
    elif kind == "formatnum":
        text = "{{formatnum:{{#expr:" + (form % lit) + "}}}}"
        exp = R.f_formatnum(decimal_print(lit), {"decimal_point": ".", "grouping_separator": ",", "grouping_method": [3, 0]})
    else:
        text = "{{#expr:" + (form % lit) + "}}"
        exp = None
    st, got = mon.expand(text)
    obs.check("expr.literal-spelling")
    obs.case("literal:" + text, nontrivial=spelling != "plain")
    obs.add("expr.literal_spellings", spelling)
    if kind == "non-numeral":
        ok = st == "ok" and got.startswith('<strong class="error">')
        exp = "an expression error"
    else:
        ok = st == "ok" and got == exp
    return ok, text, exp, st, got


def literal_cases(mon, obs):
    def report(kind, spelling, fname, form, lit, text, exp, st, got):
        if st != "ok":
            sig = "expr/single-literal/%s" % ("no-return" if st == "no-return" else "raises:" + got)
        elif kind == "non-numeral":
            sig = "expr/single-literal/non-numeral-accepted/form=%s" % fname
        else:
            sig = "%s/single-literal/spelling=%s/form=%s" % ({"expr": "expr", "plural": "plural-of-literal",
                                                              "formatnum": "formatnum-of-expr"}[kind], spelling, fname)
        obs.violation(sig, "%r -> %r, expected %s" % (text, got, exp if kind == "non-numeral" else repr(exp)),
                      {"family": "literal", "kind": kind, "spelling": spelling, "form": form, "lit": lit})

    for spelling, lits in LIT_SPELLINGS.items():
        for lit in lits:
            for fname, form in LIT_FORMS:
                ok, text, exp, st, got = literal_check(mon, obs, "expr", spelling, form, lit)
                if not ok:
                    report("expr", spelling, fname, form, lit, text, exp, st, got)
    # plural selects by number (plain integers only: the English rule for decimals is not asserted)
    for spelling, lits in (("plain", ["0", "1", "2", "11"]), ("leading-zero", ["01", "001", "02", "00", "011", "0001"])):
        for lit in lits:
            for fname, form in LIT_FORMS[:3]:
                ok, text, exp, st, got = literal_check(mon, obs, "plural", spelling, form, lit)
                if not ok:
                    report("plural", spelling, fname, form, lit, text, exp, st, got)
    for spelling, lits in (("plain", ["7", "1234", "1234567.5"]), ("leading-zero", ["07", "01234", "001234567.5"]),
                           ("trailing-zero", ["1234.50", "1234567.500"])):
        for lit in lits:
            for fname, form in LIT_FORMS[:5]:
                ok, text, exp, st, got = literal_check(mon, obs, "formatnum", spelling, form, lit)
                if not ok:
                    report("formatnum", spelling, fname, form, lit, text, exp, st, got)
    for ch in NON_NUMERALS:
        for fname, form in LIT_FORMS[:5]:
            ok, text, exp, st, got = literal_check(mon, obs, "non-numeral", "non-numeral", form, ch)
            if not ok:
                report("non-numeral", "non-numeral", fname, form, ch, text, exp, st, got)


# =============================================================================== replay
def replay(case):
    obs = Obs()
    fam = case["family"]
    if fam == "primitive":
        mon = Mon(obs)
        st, got = mon.expand(case["text"])
        mon.close()
        return {"violations": [] if (st == "ok" and got.strip() == case["exp"]) else ["expr/primitive-value"], "got": got, "expected": case["exp"]}
    if fam in ("docprim", "prefix"):
        mon = Mon(obs)
        if fam == "docprim":
            exp = DOC_PRIMS[case["op"]](eval(case["a"]), eval(case["b"]))
            st, got = mon.expand("{{#expr:%s %s %s}}" % (case["a"], case["op"], case["b"]))
            bad = (st == "ok" and is_number(got.strip())) if isinstance(exp, str) else not (st == "ok" and got in (X.fmt(exp), "-" + X.fmt(exp)))
        else:
            ast = X.to_tuple(case["ast"])
            exp, _ = mon.expected(ast)
            ok, st, got = expr_ok(mon, case["text"], exp, False)
            bad = not ok
        mon.close()
        return {"violations": ["documented value"] if bad else [], "got": got, "expected": str(exp)}
    if fam == "formatnum":
        loc = dict(locales())[case["lang"]]
        mon = Mon(obs, lang=case["lang"])
        fmt_case(mon, obs, case["lang"], loc, case["n"])
        mon.close()
    else:
        mon = Mon(obs)
        if fam == "expr":
            ast = X.to_tuple(case["ast"])
            rng = random.Random(0)
            if case.get("texts"):
                exp, iserr = mon.expected(ast)
                for name, text in case["texts"].items():
                    ok, st, got = expr_ok(mon, text, exp, iserr)
                    if not ok:
                        obs.violation("expr/rendering:" + name, "%r -> %r, expected %r" % (text, got, exp), case)
            expr_case(mon, obs, ast, rng, "replay")
        elif fam == "str":
            str_case(mon, obs, case["fn"], case["args"], case.get("deco"), "replay")
        elif fam == "plural":
            plural_case(mon, obs, case["n"], case["one"], case["other"], case.get("ws", ""), case.get("zeros", 0))
        elif fam == "literal":
            ok, text, exp, st, got = literal_check(mon, obs, case["kind"], case["spelling"], case["form"], case["lit"])
            if not ok:
                obs.violation("single-literal", "%r -> %r, expected %r" % (text, got, exp), case)
        mon.close()
    return {"violations": [(v["sig"], v["msg"]) for v in obs.violations.values()]}
