"""C06 -- Lua code from pages is confined to the sandbox.

Monitors: (1) EXHAUSTIVE reachability scan over the live object graph a page-store module receives: the real
module environment and frame are captured while the product runs a probe #invoke (by wrapping
luaexec.append_lua_stack before initialize_lua binds it), the forbidden identities are taken from the
un-sandboxed host state (ctx.lua.globals()), and a BFS follows table fields, metatables (as sandboxed code sees
them, incl. the string metatable), every capability-returning function reachable by name called with every
candidate name (require / _cached_mod / _new_loader / package.loaders[i] over all names in the host package
table, getParent, newChild, mw.getCurrentFrame, _python_top_env, mw.loadData), and the public attributes and
items of every reachable Python object (exactly what the runtime's attribute_filter admits).
(2) an attack corpus executed for real in a forked child with canaries (file, environment secret, pages table,
context fields, Lua runtime)."""
from __future__ import annotations

import collections
import json
import os
import random
import sqlite3

from vf.core.obs import Obs

LEVEL = "exploration"
RULE = ("states = (context configuration, invocation shape) pairs: top-level #invoke, #invoke inside a template (parent frame), nested "
        "#invoke via frame:preprocess, after N benign/hostile earlier invocations (state accumulated in package/loader/loadData caches), "
        "lang_code variants; for each state the object graph reachable from (module environment, frame) is enumerated completely; "
        "non-trivial = distinct state whose scan visited > 200 nodes and collected >= 25 forbidden identities; plus attack modules "
        "executed for real")
ASSUMPTIONS = ["exhaustive per observed state (finite graph); not a proof about all Lua programs: a path needing a computed capability that is not among the enumerated capability-returning calls would be missed",
               "sandboxed code has no getfenv/debug.getupvalue, so function environments and upvalues are not edges",
               "allowed Python objects: callables handed over by call_set_functions/make_frame (their public attributes ARE followed) and immutable values",
               "Lua stand-ins for the absent Scribunto ustring/libraryUtil files"]
WALL = {"quick": 300, "thorough": 1500}
IMMUTABLE = (str, bytes, int, float, bool, type(None))
HOSTLIBS = ["io", "os", "package", "debug", "python", "_G", "string", "table", "math", "coroutine", "jit", "ffi", "bit", "utf8"]

JSON_PROBES = ['{"1": {"k": "v"}, "a": [1, 2, {"b": 1}], "2": [1], "x": {"3": {"y": [4]}}}', '[{"1": {"k": [1]}}, [2, {"5": {}}]]',
               '{"10": {"1": {"2": {"k": "v"}}}}']
PROBE = "local e = {}\nfunction e.f(frame) return 'probe-ok' end\nfunction e.g(frame) return frame:preprocess('{{#invoke:probe|f|n}}') end\nreturn e"


def floors(tier):
    return {"oracle.scan-complete": 12, "counters.scan.nodes": 4000, "counters.scan.python-objects": 100, "counters.scan.capability-calls": 1000,
            "counters.scan.forbidden-identities": 300, "oracle.attack-canaries-checked": 30, "anchors.luaexec.call_set_functions": 10}


def shards(tier, seed):
    n = {"quick": 16, "thorough": 64}[tier]
    out = []
    langs = ["en", "en", "fr", "de", "zh", "ru", "es", "ja"]
    shapes = ["top", "template", "nested"]
    for i in range(n):
        hist = [0, 0, 20, 60][i % 4] if tier == "quick" else [0, 50, 200, 400][i % 4]
        out.append({"seed": seed * 1000 + i, "idx": i, "history": hist, "lang": langs[(i // 2) % len(langs)], "shape": shapes[i % 3],
                    "attacks": i == 0 or (tier == "thorough" and i % 16 == 0)})
    return out


# ------------------------------------------------------------------ capture + scan
class Capture:
    def __init__(self, lang="en"):
        import wikitextprocessor.luaexec as lx
        from vf.core.wtp import fresh
        self.envs = []
        self.frames = []
        orig = lx.append_lua_stack
        me = self

        def cap(stack, env):
            me.envs.append(env)
            try:
                me.frames.append(me.ctx.lua_frame_stack[-1])
            except Exception:
                me.frames.append(None)
            return orig(stack, env)
        lx.append_lua_stack = cap      # looked up when set_lua_env_funcs() binds it (first #invoke of a context)
        self.cm = fresh(lua=True, lang_code=lang)
        self.ctx = self.cm.__enter__()
        mod = self.ctx.NAMESPACE_DATA["Module"]["name"]
        tmpl = self.ctx.NAMESPACE_DATA["Template"]["name"]
        self.ctx.add_page(mod + ":probe", 828, PROBE, model="Scribunto")
        self.ctx.add_page(mod + ":dat", 828, "return {a = 1, t = {b = 2}}", model="Scribunto")
        # a chunk that hands back the environment it runs in: whatever loader returns a chunk for it is a
        # capability (the chunk's globals become reachable by calling it)
        for i in range(40):
            # (one unused name per loader-like capability: a chunk that was compiled before keeps its environment)
            self.ctx.add_page(mod + ":envprobe%s" % ("" if i == 0 else i), 828, "return {G = _G, io = io, os = os, pkg = package, "
                              "ld = loadstring, dbg = debug, py = python, gf = getfenv, rq = require}", model="Scribunto")
        self.ctx.add_page(tmpl + ":w", 10, "{{#invoke:probe|f|{{{1|}}}|k=v}}")
        self.ctx.add_page(tmpl + ":w2", 10, "{{#invoke:probe|g|{{{1|}}}}}")
        self.ctx.start_page("Pg")

    def close(self):
        self.cm.__exit__(None, None, None)


def forbidden_table(ctx):
    """name -> identity taken from the UN-sandboxed host state."""
    G = ctx.lua.globals()
    f = {"_G": G}
    for lib in ("io", "os", "package", "debug", "python"):
        t = G[lib]
        if t is None:
            continue
        f[lib] = t
        try:
            for k, v in t.items():
                if isinstance(k, str) and v is not None and not isinstance(v, IMMUTABLE):
                    f[lib + "." + k] = v
        except Exception:
            pass
    for n in ("load", "loadstring", "dofile", "loadfile", "getfenv", "setfenv", "require", "module", "newproxy", "collectgarbage"):
        if G[n] is not None:
            f[n] = G[n]
    # the ONE metatable lupa gives every Python object wrapped into this runtime (the Lua-Python bridge's dispatch table)
    try:
        bmt = ctx.lua.eval("function(o) return debug.getmetatable(o) end")(len)
        if bmt is not None:
            f["lupa-bridge-metatable"] = bmt
    except Exception:
        pass
    for k in list(f):
        # whitelisted by the sandbox on purpose
        if k in ("os.clock", "os.date", "os.difftime", "os.time", "debug.traceback"):
            del f[k]
    return f


def scan(cap, env, frame, obs, state_name):
    """BFS over the live graph. Returns (violations, stats)."""
    import lupa.lua51 as lupa
    ctx = cap.ctx
    lua = ctx.lua
    G = lua.globals()
    forb = forbidden_table(ctx)
    helpers = lua.eval(r'''
function(forbidden, spcall)
  -- calls are made the way a module makes them: through the SANDBOX's pcall (what it does to error values is part
  -- of what a module can obtain)
  local pcall = spcall or pcall
  local seen, forb = {}, {}
  for name, obj in pairs(forbidden) do forb[obj] = name end
  local H = {}
  function H.mark(o) if seen[o] then return false end seen[o] = true return true end
  function H.forbidden(o) return forb[o] end
  function H.typ(o) return type(o) end
  function H.mt(o) local m = getmetatable(o) if type(m) == "table" then return m end return nil end
  function H.strmt() return getmetatable("") end
  function H.call1(f, a) return pcall(f, a) end
  function H.call0(f) return pcall(f) end
  function H.callm(f, self, a) return pcall(f, self, a) end
  function H.rawpairs(t)
    local ks, vs, n = {}, {}, 0
    for k, v in next, t do n = n + 1 ks[n] = k vs[n] = v end
    return ks, vs, n
  end
  function H.newtable() return {} end
  function H.callv(f, args, n) return pcall(f, unpack(args, 1, n)) end
  function H.pcall_of(f, a) return pcall(pcall, f, a) end
  return H
end''')(lua.table_from(forb), env["pcall"])
    names = set(HOSTLIBS)
    for tname in ("loaded", "preload"):
        try:
            for k in G.package[tname].keys():
                if isinstance(k, str):
                    names.add(k)
        except Exception:
            pass
    names |= {"mw", "mw_text", "mw_title", "libraryUtil", "ustring:ustring", "_sandbox_phase1", "_sandbox_phase2", "../_sandbox_phase1",
              "Module:probe", "strict", "bit32", "luabit/bit", "mw.uri", "Module:envprobe", "envprobe",
              ctx.NAMESPACE_DATA["Module"]["name"] + ":envprobe"}
    names = sorted(names)
    viol = []
    stats = collections.Counter()
    pyseen = {}
    q = collections.deque()

    def push(o, path, via, depth=0):
        if o is None or isinstance(o, IMMUTABLE):
            return
        if stats["nodes"] + len(q) > 300000:
            stats["node-cap-hit"] = 1
            return
        lt = lupa.lua_type(o)
        if lt is None:
            # a Python object
            if isinstance(o, tuple) and all(isinstance(x, IMMUTABLE) for x in o):
                return
            if id(o) in pyseen:
                return
            pyseen[id(o)] = o
            q.append((o, path, via, "py", depth))
            return
        try:
            new = helpers.mark(o)
        except Exception:
            return
        if new:
            q.append((o, path, via, lt, depth))

    push(env, "env", "root")
    if frame is not None:
        push(frame, "frame", "root")
    push(helpers.strmt(), 'getmetatable("")', "string-metatable")
    CAPS1 = ("require", "_cached_mod", "_new_loader", "_new_loadData", "_new_loadJsonData", "loadData", "loadJsonData")
    while q:
        o, path, via, kind, depth = q.popleft()
        stats["nodes"] += 1
        if kind != "py":
            fn = helpers.forbidden(o)
            if fn is not None:
                viol.append(("host-capability-reachable:%s/via=%s" % (fn.split(".")[0] if fn not in ("load", "loadstring", "dofile", "loadfile") else fn, via),
                             "%s reachable at %s" % (fn, path)))
                stats["forbidden-hits"] += 1
                continue        # no need to look inside
        if kind == "table":
            ks, vs, n = helpers.rawpairs(o)
            for i in range(1, n + 1):
                k, v = ks[i], vs[i]
                stats["edges"] += 1
                kn = str(k) if isinstance(k, IMMUTABLE) else "<%s>" % type(k).__name__
                push(k, path + ".key(" + kn[:20] + ")", via, depth)
                push(v, path + "." + kn[:30], via, depth)
            m = helpers.mt(o)
            if m is not None:
                push(m, path + "<mt>", via, depth)
        elif kind == "function" and depth < 2:
            last = path.rsplit(".", 1)[-1]
            if last in CAPS1 or ".loaders." in path:
                stats["loader-like-functions"] += 1
                fresh_name = ctx.NAMESPACE_DATA["Module"]["name"] + ":envprobe%d" % min(39, stats["loader-like-functions"])
                for nm in names + [fresh_name]:
                    stats["capability-calls"] += 1
                    try:
                        r = helpers.call1(o, nm)
                    except Exception:
                        continue
                    if isinstance(r, tuple) and r and r[0]:
                        for x in r[1:]:
                            push(x, "%s(%r)" % (path, nm), last + "(name)", depth + 1)
                            if lupa.lua_type(x) == "function":
                                # a loader handed out a compiled chunk: running it exposes the chunk's globals
                                stats["capability-calls"] += 1
                                try:
                                    r2 = helpers.call0(x)
                                    if isinstance(r2, tuple) and r2 and r2[0]:
                                        for y in r2[1:]:
                                            push(y, "%s(%r)()" % (path, nm), last + "(name)()", depth + 1)
                                except Exception:
                                    pass
            elif last in ("getCurrentFrame", "_python_top_env", "current_frame_python", "getContentLanguage", "getLanguage"):
                stats["capability-calls"] += 1
                try:
                    r = helpers.call0(o)
                    if isinstance(r, tuple) and r and r[0]:
                        for x in r[1:]:
                            push(x, path + "()", last + "()", depth + 1)
                except Exception:
                    pass
            elif last in ("jsonDecode", "mw_jsondecode_python", "loadJsonData", "_new_loadJsonData"):
                # decoders hand structured values to Lua: they must arrive as Lua tables, never as live Python containers
                for js in JSON_PROBES:
                    for flags in (0, 1):
                        stats["capability-calls"] += 1
                        try:
                            r = helpers.callm(o, js, flags)
                            if isinstance(r, tuple) and r and r[0]:
                                for x in r[1:]:
                                    push(x, "%s(%r,%d)" % (path, js[:30], flags), last + "(json)", depth + 1)
                        except Exception:
                            pass
            elif last in ("getfenv", "setfenv", "getmetatable", "rawget") and depth < 2 and last in ("getfenv",):
                # an environment-introspection function in the sandbox (under whatever identity): exercise every
                # stack level and every reachable function as argument, directly and through pcall (a C frame)
                for lv in (0, 1, 2, 3, 4, 5, 6):
                    for via_pcall in (False, True):
                        stats["capability-calls"] += 1
                        try:
                            r = helpers.pcall_of(o, lv) if via_pcall else helpers.call1(o, lv)
                        except Exception:
                            continue
                        if isinstance(r, tuple) and r and r[0]:
                            for x in r[1:]:
                                push(x, "%s(%d)%s" % (path, lv, " via pcall" if via_pcall else ""), "getfenv(level)", depth + 1)
                for fname in ("require", "pcall", "tostring", "next"):
                    try:
                        fobj = env[fname]
                        r = helpers.call1(o, fobj)
                        if isinstance(r, tuple) and r and r[0]:
                            for x in r[1:]:
                                push(x, "%s(%s)" % (path, fname), "getfenv(function)", depth + 1)
                    except Exception:
                        pass
            elif last in ("getParent", "newChild") and frame is not None:
                stats["capability-calls"] += 1
                try:
                    r = helpers.callm(o, frame, helpers.newtable())
                    if isinstance(r, tuple) and r and r[0]:
                        for x in r[1:]:
                            push(x, path + "(frame)", "frame:" + last + "()", depth + 1)
                except Exception:
                    pass
        elif kind == "userdata":
            stats["lua-userdata"] += 1
        elif kind == "py":
            stats["python-objects"] += 1
            tname = type(o).__module__ + "." + type(o).__qualname__
            obs.add("python-types-reached", tname)
            allowed_callable = callable(o) and not isinstance(o, type)
            if isinstance(o, BaseException):
                # an error VALUE that reached Lua: a Python object that is neither an intended helper nor an immutable
                # argument value, and everything it carries is reachable (requests exceptions carry live connection pools)
                allowed_callable = True
                stats["python-exception-values"] += 1
                viol.append(("python-exception-object-reachable/via=%s" % via, "%s at %s" % (tname, path)))
            # what the SANDBOX's own getmetatable answers for a wrapped Python object
            try:
                sgm = env["getmetatable"]
                if sgm is not None:
                    stats["capability-calls"] += 1
                    r = helpers.call1(sgm, o)
                    if isinstance(r, tuple) and r and r[0]:
                        for x in r[1:]:
                            push(x, "getmetatable(%s)" % path, "getmetatable(python-object)", depth + 1)
            except Exception:
                pass
            if isinstance(o, (tuple, list)):
                for i, x in enumerate(o):
                    push(x, "%s[%d]" % (path, i), via, depth)
                if isinstance(o, list):
                    viol.append(("python-object-reachable:mutable-list/via=%s" % via, path))
            elif isinstance(o, dict):
                viol.append(("python-object-reachable:dict/via=%s" % via, path))
                for k, x in o.items():
                    push(x, "%s[%r]" % (path, k), via, depth)
            elif not allowed_callable:
                viol.append(("python-object-reachable:%s/via=%s" % (tname, via), "%s at %s" % (tname, path)))
                continue
            if callable(o) and not isinstance(o, (type, BaseException)) and depth < 2 and "wikibase" not in path and "wikidata" not in path:
                # a helper handed to Lua: call it the way hostile code would (missing / wrong-typed / unknown
                # arguments) and follow both what it returns and the error values it produces
                title = ctx.title or "Pg"
                for argv in ((), (title,), (title, 99999), (title, 828), (None,), (helpers.newtable(),), (-1, -1, -1), ("{", 0)):
                    stats["capability-calls"] += 1
                    stats["python-helper-calls"] += 1
                    try:
                        t = lua.table_from(list(argv))
                        r = helpers.callv(o, t, len(argv))
                    except Exception:
                        continue
                    if isinstance(r, tuple):
                        for x in r[1:]:
                            push(x, "%s%r" % (path, tuple(str(a)[:12] for a in argv)), "helper-call" + ("" if r[0] else "-error-value"), depth + 1)
            # public attributes = exactly what the runtime's attribute_filter admits
            for a in dir(o):
                if a.startswith("_"):
                    continue
                try:
                    x = getattr(o, a)
                except Exception:
                    continue
                stats["python-attr-edges"] += 1
                push(x, path + "." + a, "python-attr(%s.%s)" % (type(o).__name__, a), depth)
    stats["forbidden-identities"] = len(forb)
    stats["names-tried"] = len(names)
    return viol, stats


# ------------------------------------------------------------------ attacks
IMPOSTOR = r"""
local stash = {raw_pcall = _raw_pcall, append_env = _python_append_env, top_env = _python_top_env, set_timeout = _lua_set_timeout,
               clear_timeout = _lua_clear_timeout_hook, reset_env = _lua_reset_env}
local real = assert(_new_loader("_sandbox\1_phasePHASE", _G))
local ret = real()
_G._leak = stash
return ret
"""
SHADOW = {}      # attack name -> pages of a hostile store added (uncommitted, in the attack's own forked child) first


def attacks(mod_ns="Module"):
    """(name, lua source of function body) -- each tries one route and then tries to do damage with what it got."""
    dmg = r'''
local function damage(x, tag)
  if type(x) ~= "table" and type(x) ~= "userdata" and type(x) ~= "function" then return "" end
  local out = ""
  pcall(function() local f = x.open(PWNFILE .. tag, "w") f:write("pwn") f:close() out = out .. "io;" end)
  pcall(function() out = out .. "ENV=" .. tostring(x.getenv("VF_CANARY_SECRET")) .. ";" end)
  pcall(function() x.execute("touch " .. PWNFILE .. tag .. "x") out = out .. "exec;" end)
  pcall(function() local io2 = x.io; local f = io2.open(PWNFILE .. tag .. "g", "w") f:write("pwn") f:close() end)
  pcall(function() local o = x.os; out = out .. "ENV=" .. tostring(o.getenv("VF_CANARY_SECRET")) .. ";" end)
  pcall(function() x.add_page("Pwned" .. tag, 0, "pwned") out = out .. "add_page;" end)
  pcall(function() x.lua.execute("PWNED_GLOBAL = 1") out = out .. "lua.execute;" end)
  pcall(function() x.db_conn.execute("DELETE FROM pages") out = out .. "db;" end)
  pcall(function() x.builtins.open(PWNFILE .. tag .. "py", "w").write("pwn") out = out .. "pybuiltins;" end)
  pcall(function() x.eval("open('" .. PWNFILE .. tag .. "ev','w').write('pwn')") out = out .. "pyeval;" end)
  return out
end

-- error VALUES: a Python exception that reaches Lua carries whatever Python put into it
local function errdamage(e, tag)
  if type(e) ~= "userdata" and type(e) ~= "table" then return "" end
  local out = ""
  if type(e) == "userdata" then out = "PYEXC;" end
  for _, a in ipairs({"obj", "name", "value", "filename", "filename2", "object", "with_traceback", "add_note", "__traceback__", "__cause__", "__context__", "tb_frame"}) do
    pcall(function() out = out .. damage(e[a], tag .. a) end)
  end
  pcall(function() for i = 0, 3 do out = out .. damage(e.args[i], tag .. "args") end end)
  return out
end
'''
    A = []

    def add(name, body):
        A.append((name, "local e = {}\n" + dmg + "function e.f(frame)\nlocal out = ''\n" + body + "\nreturn 'R:' .. out\nend\nreturn e"))
    for lib in ("io", "os", "_G", "package", "python", "debug", "ffi", "jit"):
        add("require-" + lib, "local ok, m = pcall(require, '%s') if ok then out = out .. damage(m, '%s') end" % (lib, lib))
        add("cached-" + lib, "if _cached_mod then local m = _cached_mod('%s') out = out .. damage(m, 'c%s') end" % (lib, lib))
    add("package-loaded", "if package and package.loaded then for k, v in pairs(package.loaded) do out = out .. damage(v, 'pl') end end")
    add("package-loaders", "if package and package.loaders then for i, l in pairs(package.loaders) do for _, n in ipairs({'io','os','python','_G'}) do local ok, m = pcall(l, n) if ok and type(m) == 'function' then local ok2, r = pcall(m) if ok2 then out = out .. damage(r, 'ld') end end end end end")
    add("global-io", "out = out .. damage(io, 'gio') .. damage(os, 'gos') .. damage(python, 'gpy') .. damage(_G, 'gg') .. damage(_G._G, 'ggg')")
    add("getfenv", "if getfenv then local g = getfenv(0) out = out .. damage(g, 'fe') .. damage(g.io, 'feio') end if setfenv then out = out .. 'setfenv;' end")
    add("loadstring", "for _, n in ipairs({'load','loadstring','dofile','loadfile'}) do local f = _G[n] if f then out = out .. n .. ';' pcall(function() local c = f('return io') out = out .. damage(c(), 'ls') end) end end")
    add("string-metatable", "local mt = getmetatable('') if mt and mt.__index then out = out .. damage(mt.__index, 'smt') end")
    add("helper-partial-args", "for k, v in pairs(_G) do if type(v) == 'userdata' then pcall(function() local a = v.args if a then for i = 0, 3 do pcall(function() out = out .. damage(a[i], 'pa') end) end end end) pcall(function() out = out .. damage(v.func, 'pf') end) pcall(function() out = out .. damage(v.keywords, 'pk') end) end end")
    add("mw-helper-args", "for k, v in pairs(mw) do if type(v) == 'userdata' then pcall(function() for i = 0, 3 do out = out .. damage(v.args[i], 'ma') end end) end end")
    add("frame-method-attrs", "for k, v in pairs(frame) do if type(v) == 'userdata' then for _, a in ipairs({'args','func','keywords','im_self','gi_frame','cr_frame','f_globals','func_globals'}) do pcall(function() out = out .. damage(v[a], 'fm') end) end end end")
    add("frame-args-tuple", "local o = rawget(frame.args, '_orig') if o then for k, v in pairs(o) do if type(v) == 'userdata' then pcall(function() out = out .. damage(v.count, 'tp') end) end end end")
    add("top-env", "if _python_top_env then local t = _python_top_env() out = out .. damage(t, 'te') pcall(function() out = out .. damage(_python_top_env.args[0], 'tea') end) pcall(function() out = out .. damage(_python_append_env.args[0], 'aea') end) end")
    add("loader-traversal", "for _, n in ipairs({'../../../../etc/passwd', '..:..:_sandbox_phase1', '/etc/passwd', '_sandbox_phase1', 'Module:../x'}) do local ok, m = pcall(require, n) if ok and m then out = out .. 'loaded:' .. n .. ';' out = out .. damage(m, 'lt') end end")
    add("loader-chunk", "for _, L in ipairs({_new_loader, package and package.loaders and package.loaders[2]}) do for _, n in ipairs({'%s:envprobe', 'envprobe'}) do local ok, f = pcall(L, n) if ok and type(f) == 'function' then local ok2, t = pcall(f) if ok2 and type(t) == 'table' then for k, v in pairs(t) do out = out .. damage(v, 'lc' .. k) end end end end end" % mod_ns)
    add("jsondecode-python-objects", "local ok, t = pcall(mw.text.jsonDecode, '{\\\"1\\\": {\\\"k\\\": \\\"v\\\"}, \\\"2\\\": [1,2]}') if ok and type(t) == 'table' then for k, v in pairs(t) do if type(v) == 'userdata' then out = out .. 'pyobj:' .. tostring(k) .. ';' pcall(function() v.clear() out = out .. 'mutated;' end) pcall(function() out = out .. damage(v.__class__, 'jd') end) end end end")
    add("loader-host-file", "for _, n in ipairs({HOSTLUA, HOSTLUA:gsub('^/', '//'), '..' .. HOSTLUA, 'x/../../../../../../../..' .. HOSTLUA, HOSTLUA:gsub('/', ':')}) do local ok, m = pcall(require, n) if ok and m then out = out .. 'HOSTFILE=' .. tostring(m) .. ';' end local ok2, d = pcall(mw.loadData, n) if ok2 and d then out = out .. 'HOSTFILE=' .. tostring(d) .. ';' end end")
    add("error-value-objects", "for k, v in pairs(_G) do if type(v) == 'userdata' then for _, a in ipairs({{}, {mw.title.getCurrentTitle().text, 99999}, {1, 2, 3}}) do local ok, e = pcall(v, unpack(a)) if not ok and type(e) == 'userdata' then pcall(function() out = out .. damage(e.obj, 'ev') end) pcall(function() out = out .. damage(e.args, 'eva') end) pcall(function() out = out .. damage(e.__traceback__, 'evt') end) end end end end")
    add("error-values-of-failing-loads", "for _, n in ipairs({'no such module', 'Module:nosuch', '', 'a/b/c', 'mw.nosuch', 'libraryUtil2', string.rep('x', 300)}) do for _, L in ipairs({require, mw.loadData, mw.loadJsonData, package and package.loaders and package.loaders[2], _new_loader}) do if L then local ok, e = pcall(L, n) if not ok then out = out .. errdamage(e, 'el') end end end end")
    add("error-values-of-failing-calls", "local bad = {{}, {frame, {title = 5}}, {frame, {title = 'x', args = 7}}, {frame, {text = {}}}, {frame, {name = {}, content = {}}}, {frame, 5}, {{}}, {nil, nil}, {frame, setmetatable({}, {__index = function() error('idx') end})}} "
        "for _, T in ipairs({frame, mw, mw.title, mw.text, mw.ustring, mw.language, mw.uri, mw.site, mw.html, mw.message, mw.wikibase, mw.hash}) do if type(T) == 'table' then for k, v in pairs(T) do if type(v) == 'function' or type(v) == 'userdata' then for _, a in ipairs(bad) do local ok, e = pcall(v, unpack(a, 1, 2)) if not ok then out = out .. errdamage(e, 'ec') end end end end end end")
    for lib in ("io", "os", "python", "package", "debug", "_G"):
        for bi, body in enumerate(("", "return nil", "local x = 1", "return true")):
            nm = "shadow-page-%s-%d" % (lib, bi)
            SHADOW[nm] = [("Module:" + lib, body)]
            add(nm, "local ok, m = pcall(require, '%s') if ok then out = out .. damage(m, 'sh') end ok, m = pcall(require, 'Module:%s') if ok then out = out .. damage(m, 'shm') end "
                    "if package and package.loaded then out = out .. damage(package.loaded['%s'], 'shl') end out = out .. damage(_G['%s'], 'shg')" % (lib, lib, lib, lib))
    add("error-value-of-network-helper", "for _, n in ipairs({'mw_wikibase_getlabel_python'}) do local h = _G[n] if h then local ok, e = pcall(h, 'Q42') if not ok then out = out .. errdamage(e, 'nw') pcall(function() out = out .. damage(e.args[0].pool, 'nwp') if e.args[0].pool.ConnectionCls then out = out .. 'POOL;' end end) pcall(function() out = out .. damage(e.request, 'nwr') end) end end end")
    add("bridge-metatable", "for k, v in pairs(_G) do if type(v) == 'userdata' then local ok, mt = pcall(getmetatable, v) if ok and type(mt) == 'table' then out = out .. 'BRIDGEMT;' pcall(function() local o = mt.__call mt.__call = function(self, ...) PWNED_CALLS = (PWNED_CALLS or 0) + 1 return o(self, ...) end out = out .. 'BRIDGEMT-WRITTEN;' mt.__call = o end) end break end end")
    add("rel2abs-symlink", "for _, p in ipairs({LNKPATH, '/' .. LNKPATH, '../../../../../../../../' .. LNKPATH}) do pcall(function() out = out .. 'P=' .. tostring(frame:callParserFunction('#rel2abs', p)) .. ';' end) pcall(function() out = out .. 'Q=' .. tostring(frame:preprocess('{{#rel2abs:' .. p .. '}}')) .. ';' end) pcall(function() out = out .. 'W=' .. tostring(frame:callParserFunction('#rel2abs', 'x', p)) .. ';' end) end")
    add("internal-functions", "for _, n in ipairs({'_python_append_env','_python_top_env','_lua_reset_env','_lua_set_python_loader','_cached_mod','_new_loader','_save_mod','_lua_set_timeout','_lua_clear_timeout_hook','_raw_pcall'}) do if _G[n] ~= nil then out = out .. n .. ';' end end "
        "pcall(function() for i = 1, 3 do _python_append_env({}) end end) pcall(function() _save_mod('Module:ok', {f = function() return 'FORGED' end}) end) pcall(function() _save_mod('ok', {f = function() return 'FORGED' end}) end) "
        "pcall(function() _lua_set_python_loader(function(name) return 'return {f = function() return \\'FORGED\\' end}' end) end)")
    # a hostile store page that takes the place of a sandbox bootstrap file (the title under which lua_loader looks
    # "_sandbox_phaseN" up has blanks for the underscores): it would run with the privileged phase-1 functions around
    for ph in ("1", "2"):
        nm = "impostor-sandbox-phase" + ph
        SHADOW[nm] = [("Module: sandbox phase" + ph, IMPOSTOR.replace("PHASE", ph)), ("Module:_sandbox_phase" + ph, IMPOSTOR.replace("PHASE", ph))]
        add(nm, "if _leak then out = out .. 'PRIVILEGED;' pcall(function() _leak.append_env('X') _leak.append_env('X') end) pcall(function() local ok, e = _leak.raw_pcall(mw_jsondecode_python, '{', 0) out = out .. errdamage(e, 'lk') end) end")
    add("getfenv-levels", "if getfenv then for lv = 0, 6 do pcall(function() out = out .. damage(getfenv(lv), 'gf' .. lv) end) local ok, g = pcall(getfenv, lv) if ok then out = out .. damage(g, 'gfp' .. lv) end end end")
    add("loaddata-env", "local ok, d = pcall(mw.loadData, '%s:dat') if ok then out = out .. damage(getmetatable(d), 'ldm') end" % mod_ns)
    add("debug-lib", "if debug then for _, n in ipairs({'getinfo','getupvalue','getregistry','sethook','getfenv','setmetatable','getmetatable'}) do if debug[n] then out = out .. 'debug.' .. n .. ';' end end pcall(function() local r = debug.getregistry() out = out .. damage(r, 'reg') end) end")
    add("tostring-userdata", "for k, v in pairs(_G) do if type(v) == 'userdata' then pcall(function() local s = tostring(v) end) pcall(function() local c = mw.clone(v) out = out .. damage(c, 'cl') end) end end")
    add("error-traceback", "local ok, err = pcall(function() error({io = io, os = os}) end) if type(err) == 'table' then out = out .. damage(err.io, 'et') end pcall(function() local tb = debug.traceback() end)")
    add("os-whitelist", "if os then for k, v in pairs(os) do if k ~= 'clock' and k ~= 'date' and k ~= 'difftime' and k ~= 'time' then out = out .. 'os.' .. k .. ';' end end out = out .. damage(os, 'osw') end")
    return A


def run_attacks(spec, obs):
    """Executed in a forked child; verdict from canaries, not from the modules' own output."""
    from vf.core.wtp import fresh
    tmp = os.environ.get("TMPDIR", "/tmp")
    adir = os.path.join(tmp, "c06_attacks")
    os.makedirs(adir, exist_ok=True)
    pwn = os.path.join(adir, "pwn_")
    os.environ["VF_CANARY_SECRET"] = "s3cr3t-canary-value"
    # a Lua file on the host, OUTSIDE the package's lua directory: modules must not be able to load it
    hostlua = os.path.join(tmp, "c06_hostfile", "secretmod")
    os.makedirs(os.path.dirname(hostlua), exist_ok=True)
    with open(hostlua + ".lua", "w") as f:
        f.write("return 's3cr3t-canary-value'")
    # a symbolic link on the host whose TARGET is the secret: nothing a page can do may reveal where it points
    lnk = os.path.join(tmp, "c06_hostfile", "lnk")
    try:
        os.unlink(lnk)
    except OSError:
        pass
    os.symlink("/nonexistent/s3cr3t-canary-value", lnk)
    results = []
    with fresh(lua=True) as ctx:
        atts = attacks()
        for name, src in atts:
            ctx.add_page("Module:att " + name.replace("_", "-"), 828, src.replace("PWNFILE", json.dumps(pwn)).replace("HOSTLUA", "(" + json.dumps(hostlua) + ")").replace("LNKPATH", "(" + json.dumps(lnk.lstrip("/")) + ")"), model="Scribunto")
        ctx.add_page("Module:dat", 828, "return {a = 1}", model="Scribunto")
        ctx.add_page("Module:ok", 828, "local e = {}\nfunction e.f(fr) return 'ok' end\nreturn e", model="Scribunto")
        ctx.db_conn.commit()
        try:
            type(ctx).get_page.cache_clear()
        except AttributeError:
            pass
        ctx.start_page("Pg")
        ctx.expand("{{#invoke:ok|f}}")          # Lua runtime initialised before forking
        for name, src in atts:
            # one forked child per attack: a successful attack must not disturb the next one
            r, w = os.pipe()
            pid = os.fork()
            if pid == 0:
                os.close(r)
                try:
                    if name.startswith("impostor-"):
                        # these pages must be in the store BEFORE the context initialises its Lua runtime: use a
                        # context of its own, created here in the child
                        cm2 = fresh(lua=True)
                        ctx = cm2.__enter__()
                        ctx.add_page("Module:att " + name.replace("_", "-"), 828,
                                     src.replace("PWNFILE", json.dumps(pwn)).replace("HOSTLUA", "(" + json.dumps(hostlua) + ")").replace("LNKPATH", "(" + json.dumps(lnk.lstrip("/")) + ")"),
                                     model="Scribunto")
                        ctx.add_page("Module:ok", 828, "local e = {}\nfunction e.f(fr) return 'ok' end\nreturn e", model="Scribunto")
                    for t, b in SHADOW.get(name, []):
                        ctx.add_page(t, 828, b, model="Scribunto")
                    if name in SHADOW:
                        try:
                            type(ctx).get_page.cache_clear()
                        except AttributeError:
                            pass
                    if name.startswith("impostor-"):
                        ctx.start_page("Pg")
                        ctx.expand("{{#invoke:ok|f}}")      # the runtime's own bootstrap write happens here
                    npages0 = ctx.db_conn.execute("SELECT count(*), coalesce(sum(length(body)),0) FROM pages").fetchone()
                    fields0 = (ctx.lang_code, ctx.project, str(ctx.db_path))
                    ctx.start_page("Pg")
                    before = set(os.listdir(adir))
                    stacks_before = (list(ctx.expand_stack), len(ctx.lua_env_stack), len(ctx.lua_frame_stack))
                    try:
                        out = ctx.expand("{{#invoke:att %s|f}}" % name.replace("_", "-"), timeout=20)
                    except BaseException as e:   # noqa
                        out = "EXC %s" % type(e).__name__
                    after = set(os.listdir(adir))
                    stacks_after = (list(ctx.expand_stack), len(ctx.lua_env_stack), len(ctx.lua_frame_stack))
                    try:
                        ctx.start_page("Pg2")
                        follow = ctx.expand("{{#invoke:ok|f}}")
                        ctx.start_page("Pg")
                    except BaseException as e:   # noqa
                        follow = "EXC %s" % type(e).__name__
                    try:
                        npages = ctx.db_conn.execute("SELECT count(*), coalesce(sum(length(body)),0) FROM pages").fetchone()
                    except Exception:
                        npages = ("unreadable",)
                    G = ctx.lua.globals()
                    can = {"file-created": sorted(after - before), "secret-leaked": "s3cr3t-canary-value" in out,
                           "pages-table-changed": tuple(npages) != tuple(npages0),
                           "context-fields-changed": (ctx.title, ctx.lang_code, ctx.project, str(ctx.db_path)) != ("Pg",) + fields0,
                           "host-global-set": G["PWNED_GLOBAL"] is not None,
                           "context-stacks-changed(expand_stack,lua_env_stack,lua_frame_stack)": stacks_after != stacks_before,
                           "later-invocation-on-the-context-altered": follow != "ok",
                           "privileged-sandbox-functions-obtained": "PRIVILEGED;" in out,
                           "python-exception-object-obtained": "PYEXC;" in out,
                           "lupa-bridge-metatable-obtained": "BRIDGEMT;" in out,
                           "lupa-bridge-metatable-written": "BRIDGEMT-WRITTEN;" in out,
                           "live-connection-pool-obtained": "POOL;" in out}
                    os.write(w, json.dumps([name, out[:300], can]).encode())
                finally:
                    os._exit(0)
            os.close(w)
            buf = b""
            while True:
                c = os.read(r, 65536)
                if not c:
                    break
                buf += c
            os.close(r)
            os.waitpid(pid, 0)
            for f in os.listdir(adir):
                os.unlink(os.path.join(adir, f))
            if buf:
                results.append(json.loads(buf.decode()))
            else:
                obs.inconclusive.append("attack child %s produced no report" % name)
    for name, out, can in results:
        obs.check("attack-canaries-checked")
        obs.count("attack." + name)
        route = name.split("-")[0]
        for cname, v in can.items():
            if v:
                obs.violation("attack-succeeded:%s/route=%s" % (cname, name), "module output=%r canaries=%r" % (out, can),
                              {"attack": name})
        if out.startswith("R:") and out != "R:":
            obs.add("attack-self-reported-capabilities", name + "=" + out[2:80])


def run_shard(spec):
    import wikitextprocessor.luaexec as lx
    from vf.core import anchors
    obs = Obs()
    rng = random.Random(spec["seed"])
    anchors.watch({"luaexec.initialize_lua": lx.initialize_lua, "luaexec.call_set_functions": lx.call_set_functions,
                   "luaexec.call_lua_sandbox": lx.call_lua_sandbox, "luaexec.lua_loader": lx.lua_loader,
                   "luaexec.make_frame": (lx.call_lua_sandbox, "make_frame")})
    cap = Capture(spec["lang"])
    ctx = cap.ctx
    # history: benign + hostile invocations accumulate state in the caches before the scan
    for i in range(spec["history"]):
        ctx.start_page("H%d" % i)
        try:
            ctx.expand(rng.choice(["{{#invoke:probe|f|a}}", "{{w|x}}", "{{w2|y}}", "{{#invoke:nomod|f}}", "{{#invoke:probe|nofn}}",
                                   "{{#invoke:probe|f|{{w|z}}}}"]))
        except Exception:
            pass
    del cap.envs[:], cap.frames[:]
    ctx.start_page("Pg")
    call = {"top": "{{#invoke:probe|f|a|k=v}}", "template": "{{w|zz}}", "nested": "{{w2|zz}}"}[spec["shape"]]
    out = ctx.expand(call)
    state = "%s/%s/history=%d" % (spec["lang"], spec["shape"], spec["history"])
    if "probe-ok" not in out or not cap.envs:
        obs.inconclusive.append("probe invocation did not run (%r), envs captured=%d" % (out[:100], len(cap.envs)))
        cap.close()
        return obs
    nviol = 0
    for j, (env, frame) in enumerate(list(zip(cap.envs, cap.frames))):   # (the scan itself may trigger nested invokes)
        viol, stats = scan(cap, env, frame, obs, state)
        obs.check("scan-complete")
        for k, v in stats.items():
            obs.count("scan." + k, v)
        obs.maxi("scan.max-nodes-in-one-state", stats["nodes"])
        nontriv = stats["nodes"] > 200 and stats["forbidden-identities"] >= 25
        if stats["forbidden-identities"] < 25:
            obs.inconclusive.append("forbidden identity collection too small: %d" % stats["forbidden-identities"])
        obs.case(state + "/env%d" % j, nontrivial=nontriv,
                 sample={"state": state, "env": j, "nodes": stats["nodes"], "edges": stats["edges"], "python_objects": stats["python-objects"],
                         "capability_calls": stats["capability-calls"], "names_tried": stats["names-tried"]})
        for sig, msg in viol:
            nviol += 1
            obs.violation(sig, "%s [state %s]" % (msg, state), {"state": spec, "kind": "scan"})
    if spec["attacks"]:
        run_attacks(spec, obs)
    cap.close()
    obs.anchors.update(anchors.snapshot())
    return obs


def exhaustive(tier, total):
    return total["oracle"].get("scan-complete", 0) > 0


def replay(case):
    obs = Obs()
    if case.get("kind") == "scan":
        o2 = run_shard(dict(case["state"], attacks=False))
        return {"violations": [v["sig"] for v in o2.violations.values()], "details": [v["msg"] for v in o2.violations.values()][:20]}
    run_attacks({}, obs)
    return {"violations": [v["sig"] for v in obs.violations.values()], "details": [v["msg"] for v in obs.violations.values()][:20]}
