"""C19 -- serialising a parse tree back to wikitext preserves it.

Oracle: metamorphic relation on the real code under the block-boundary normaliser N
(vf.ref.c19_norm):   N(parse(to_wikitext(parse(d)))) == N(parse(d))      [rt1]
                     second round trip is a fixed point under N          [rt2]
                     the same for subtrees / child lists / strings passed to node_to_wikitext directly
                     [sub], [list], [string: literal [[ ]] must come back as text, never as a LINK].
Workload: AST documents from the block/inline grammar (vf.gen.c19_docs, depth 1..4), random bracket
strings, bounded-exhaustive bracket strings.
Signatures: a failed relation is first *explained*: the item is re-serialised through node_handler_fn with
one suspected emitter replaced by the form the input grammar uses (or the protection marker is deleted
where the parser keeps it verbatim); the smallest set of such compensations that makes the relation
hold names the mechanism(s).  What no compensation explains is signed with the first structural
difference that is left after all applicable compensations (what changed, next to which node kind) and
its witness is delta-minimised on the AST.
"""
from __future__ import annotations

import itertools
import os
import random
import re

from vf.core.obs import Obs, cpu_guard, CpuBudget, exc_sig
from vf.core import anchors
from vf.ref.c19_norm import N_list, N_node, first_diff, kinds_of, BRACE, MARK
from vf.gen import c19_docs as G

LEVEL = "exploration"
RULE = ("documents: AST grammar vf.gen.c19_docs (sections 1-6 with inline titles, * # : ; lists incl. nested, one-line and "
        "two-line definition lists, tables with/without table/row/cell/caption attributes, captions, same-line (|| !!) cells, "
        "cells and captions starting with a blank, empty cells, bold/italic, links with text and trails, external links, bare "
        "URLs, templates with named/positional/empty args, parser functions, {{{args}}}, inline and block HTML with URL-safe "
        "attribute values, block HTML containing blocks, void tags, <pre>, leading-blank lines, magic words, nowiki, literal "
        "[[ ]] [ ] text) at depth 1..4 (i mod 4); every document is checked whole (rt1, rt2), then up to 6 self-standing "
        "subtrees and 2 child lists of its tree are passed to node_to_wikitext directly; strings passed directly: random "
        "token strings over words and bracket runs, and ALL strings over {[,],a} up to length 7 (thorough: 8) and all strings "
        "over {[,],a,|,blank} up to length 5 that contain | or a blank; lists of strings passed directly: each of those "
        "strings cut in 2-3 pieces, and ALL 2-piece cuts of all strings over {[,],a} up to length 5. non-trivial = distinct document whose tree has >= 3 "
        "node kinds, or distinct string containing [[ or ]]")
ASSUMPTIONS = [
    "attribute values are URL-safe ([A-Za-z0-9_.~-]) as the statement restricts; other values are not generated",
    "child lists are only passed directly when they start with a node or an alphanumeric character (a list that starts "
    "with a blank or a list/heading marker means something else at line start than it did inside its parent), and never "
    "the children of PRE/PREFORMATTED (verbatim content)",
    "subtrees passed directly are of self-standing kinds (not LIST_ITEM / TABLE_ROW / TABLE_CELL / TABLE_CAPTION, which "
    "are not wikitext on their own) and are not taken from inside brace arguments (text there is less parsed than at top level)",
    "the fixed-point clause (rt2) is judged on documents whose first round trip held; after a failed first trip the "
    "second one starts from a damaged tree and would only restate the first failure",
    "grammar restrictions that keep documents unambiguous (all are parser matters, not serialiser ones): a quote run is not "
    "nested in a run of its own kind; literal [[ is never followed by ]] in one document (documents with literal openers "
    "have no links and no openers inside brace arguments); a leading-blank line is followed by a list/rule/heading or "
    "nothing and never directly follows a heading (the parser otherwise keeps later lines and tables inside PREFORMATTED, "
    "or does not see the line as preformatted at all); a ||-style cell never follows a cell containing '=' (C03 finding); a link with protected bracket text (in its label, at the end "
    "of its label, or in its target) has exactly one such element and otherwise plain words, and is not generated inside "
    "tables (with a template, a second [..] or more protected brackets after a protected pair the parser does not "
    "recognise the link, leaving a loose | that splits a table cell in the middle of bold/italic)",
    "mechanism names come from compensating re-serialisations through node_handler_fn (own code); they only NAME a "
    "failure that the plain relation found, they never decide one",
    "per-case CPU budget 30 s (ITIMER_VIRTUAL) stands for 'returns'",
]
WALL = {"quick": 600, "thorough": 3000}

COMPS = ["magic", "defn", "caption", "marker-args", "marker-pre", "edge", "bare-url", "quote-sep"]
MECH = {"magic": "MAGIC_WORD-emitted-on-a-line-of-its-own",
        "defn": "LIST_ITEM-definition-not-emitted",
        "caption": "TABLE_CAPTION-content-emitted-on-the-next-line",
        "marker-args": "bracket-protection-marker-kept-inside-brace-arguments",
        "marker-pre": "bracket-protection-marker-kept-inside-PRE",
        "edge": "bracket-at-a-string-edge-pairs-with-the-adjacent-emitted-bracket",
        "bare-url": "bare-URL-emitted-in-brackets",
        "quote-sep": "quote-runs-of-adjacent-BOLD-ITALIC-nodes-merge"}


def bare_able(node):
    a = node.largs
    return len(a) == 1 and len(a[0]) == 1 and isinstance(a[0][0], str) and re.match(r"https?://[\w./~-]+$", a[0][0]) is not None


def url_in_bracket_context(x, K):
    """ids of text-less URL nodes that sit where a bracketed form reads differently from the bare form:
    inside a LINK argument, after the opening bracket of an external link whose text they are (the parser
    leaves '[scheme://... ' as a string in front of them), or directly in front of a text that starts with ]."""
    out = set()
    stack = [(x, False)]
    while stack:
        n, inlink = stack.pop()
        if isinstance(n, str):
            continue
        if isinstance(n, (list, tuple)):
            grps = [(n, inlink)]
        else:
            il = inlink or n.kind == K.LINK
            grps = [(n.children, inlink)] + [(a, il) for a in n.largs] + ([(n.definition, inlink)] if n.definition else [])
        for grp, il in grps:
            opened = False
            for j, c in enumerate(grp):
                if isinstance(c, str):
                    if "[" in c or "]" in c:
                        opened = c.rfind("[") > c.rfind("]")
                    continue
                nxt = grp[j + 1] if j + 1 < len(grp) else None
                if c.kind == K.URL and bare_able(c) and (il or opened or (isinstance(nxt, str) and nxt.startswith("]"))):
                    out.add(id(c))
                stack.append((c, il))
    return out


def edge_marked(x, K, mutate=True):
    """(copy of x, n): the protection marker added wherever a bracket at the edge of a string would pair up with
    the bracket that the serialiser writes next to it -- a string ending in '[' in front of a LINK / URL node, a
    string starting with ']' behind a URL node, a LINK argument that ends in ']' (or in a URL node) in front of the
    closing ']]', two adjacent strings whose brackets meet.  n = number of such places (0: x itself is returned).
    Brace arguments are left alone (the parser keeps the marker there).  Own code, used to NAME the mechanism."""
    import copy
    x2 = copy.deepcopy(x) if mutate else x
    n = [0]
    BR = (K.LINK, K.URL)

    def fix_list(lst, closes_link=False):
        for i in range(len(lst) - 1):
            a, b = lst[i], lst[i + 1]
            sa, sb = isinstance(a, str), isinstance(b, str)
            if sa and sb:
                if a and b and a[-1] == b[0] and a[-1] in "[]":
                    if mutate:
                        lst[i] = a + MARK
                    n[0] += 1
            elif sa and not sb:
                if a.endswith("[") and b.kind in BR:
                    if mutate:
                        lst[i] = a + MARK
                    n[0] += 1
            elif sb and not sa:
                if b.startswith("]") and a.kind == K.URL:
                    if mutate:
                        lst[i + 1] = MARK + b
                    n[0] += 1
        if closes_link and lst:
            z = lst[-1]
            if isinstance(z, str):
                if z.endswith("]"):
                    if mutate:
                        lst[-1] = z + MARK
                    n[0] += 1
            elif z.kind == K.URL:
                if mutate:
                    lst.append(MARK)
                n[0] += 1
        for c in lst:
            if not isinstance(c, str):
                walk(c)

    def walk(node):
        fix_list(node.children)
        if node.definition:
            fix_list(node.definition)
        if node.kind.name in BRACE:
            return
        for j, a in enumerate(node.largs):
            fix_list(a, closes_link=(node.kind == K.LINK and j == len(node.largs) - 1))

    if isinstance(x2, str):
        return x, 0
    if isinstance(x2, (list, tuple)):
        x2 = list(x2) if mutate else x2
        fix_list(x2)
    else:
        walk(x2)
    return (x2, n[0]) if n[0] else (x, 0)


def to_attrs_ref(node):
    """own attribute writer for the compensating handler (values are URL-safe in this workload)"""
    return " ".join(k if not v else '%s="%s"' % (k, v) for k, v in node.attrs.items())


SELF_STANDING = {"LEVEL1", "LEVEL2", "LEVEL3", "LEVEL4", "LEVEL5", "LEVEL6", "LIST", "TABLE", "HTML", "BOLD", "ITALIC",
                 "LINK", "TEMPLATE", "PARSER_FN", "TEMPLATE_ARG", "URL", "HLINE", "PRE", "PREFORMATTED", "MAGIC_WORD"}
ALL_KINDS = 26


def floors(tier):
    return {"oracle.rt1": 15000, "oracle.rt2": 5000, "oracle.sub": 50000, "oracle.list": 15000, "oracle.string": 10000,
            "anchors.node_expand.to_wikitext": 100000, "anchors.node_expand.to_wikitext.recurse": 1000000,
            "anchors.node_expand.to_attrs": 100000, "anchors.Wtp.node_to_wikitext": 100000, "anchors.Wtp.parse": 100000,
            "sets.emitted_kinds": ALL_KINDS, "sets.subtree_kinds": 20, "sets.childlist_parents": 6, "sets.features": 150,
            "counters.strings.exhaustive": 5000, "counters.strings.random": 5000,
            "counters.protected-brackets-emitted": 1000, "counters.docs.with-literal-brackets": 1000,
            "counters.docs.with-html-attrs": 5000, "counters.docs.with-list": 5000, "counters.docs.with-table": 5000,
            "counters.docs.with-template": 5000, "counters.docs.with-parserfn": 3000, "counters.docs.with-section": 5000,
            "counters.depth.4": 3000, "nontrivial": 15000,
            # literal double brackets as text in the first tree, per position (what the protection is for)
            "counters.lit.closer-only.in=LINK-arg": 800, "counters.lit.opener-only.in=LINK-arg": 500,
            "counters.lit.both.in=LINK-arg": 100,
            "counters.lit.closer-only.in=LINK>BOLD": 200, "counters.lit.closer-only.in=LINK>ITALIC": 200,
            "counters.lit.closer-only.in=LINK>HTML": 200,
            "counters.lit.closer-only.in=TABLE_CELL": 300, "counters.lit.opener-only.in=TABLE_CELL": 200,
            "counters.lit.closer-only.in=LIST_ITEM": 400, "counters.lit.opener-only.in=LIST_ITEM": 300,
            "counters.lit.closer-only.in=LEVEL-arg": 70, "counters.lit.closer-only.in=TABLE_CAPTION": 10,
            "counters.lit.closer-only.in=HTML": 100, "counters.lit.closer-only.in=BOLD": 100,
            "counters.docs.with-protected-literal": 3000, "counters.docs.with-plit-in-link": 2000,
            "counters.docs.with-plit-in-extlink": 700, "counters.docs.with-protected-literal-in-link-target": 150,
            # brackets at the edge of a text, touching the bracket the serialiser writes next to it
            "oracle.strlist": 5000, "counters.strlists.with-a-bracket-pair-across-pieces": 1000,
            "counters.t1.brackets-at-string-edge-next-to-markup": 1000, "counters.docs.with-bracket-at-string-edge": 1000,
            "counters.docs.with-label-ends-in-bracket-text": 100, "counters.docs.with-label-ends-in-extlink": 60,
            "counters.docs.with-text-bracket-touching-link": 150}


def shards(tier, seed):
    n = 16
    per = {"quick": 1250, "thorough": 40000}[tier]
    ns = {"quick": 500, "thorough": 20000}[tier]
    if os.environ.get("VERIF_C19_DOCS"):            # development aid: smaller run of the same code
        per = int(os.environ["VERIF_C19_DOCS"])
        ns = max(50, per // 3)
    return [{"seed": seed * 1000 + i, "n": per, "nstr": ns, "idx": i, "nsh": n, "tier": tier} for i in range(n)]


# ------------------------------------------------------------------ monitor

class Monitor:
    def __init__(self, obs):
        from vf.core.wtp import fresh
        import wikitextprocessor.node_expand as NE
        import wikitextprocessor.parser as P
        from wikitextprocessor import Wtp
        self.obs = obs
        self.K = P.NodeKind
        self.NE = NE
        self.to_attrs = to_attrs_ref
        self.cm = fresh(lua=False)
        self.ctx = self.cm.__enter__()
        anchors.watch({"node_expand.to_wikitext": NE.to_wikitext,
                       "node_expand.to_wikitext.recurse": (NE.to_wikitext, "recurse"),
                       "node_expand.to_attrs": NE.to_attrs,
                       "Wtp.node_to_wikitext": Wtp.node_to_wikitext,
                       "Wtp.parse": Wtp.parse,
                       "parser.parse_encoded": P.parse_encoded})

    def close(self):
        self.cm.__exit__(None, None, None)

    # -- primitives on the real code
    def ser(self, x):
        return self.ctx.node_to_wikitext(x)

    def parse(self, text):
        self.ctx.start_page("Pg")
        return self.ctx.parse(text)

    def direct(self, x):
        """node / list / string passed directly: canonical children of the re-parsed serialisation."""
        w = self.ser(x)
        t = self.parse(w)
        return w, N_node(t)[4]

    # -- naming the mechanism of a failed round trip (never decides a violation)
    def handler(self, comps, x):
        K = self.K
        QUOTE = (K.BOLD, K.ITALIC)
        sep_before = set()
        bare = url_in_bracket_context(x, K) if "bare-url" in comps else set()
        if "quote-sep" in comps:
            # quote nodes that directly follow another quote node: their '' runs would merge
            stack = [x] if not isinstance(x, (list, tuple)) else [x]
            while stack:
                n = stack.pop()
                grps = [n] if isinstance(n, (list, tuple)) else [n.children] + list(n.largs) + ([n.definition] if n.definition else [])
                for grp in grps:
                    prev = None
                    for c in grp:
                        if not isinstance(c, str):
                            stack.append(c)
                            if c.kind in QUOTE and prev is not None and not isinstance(prev, str) and prev.kind in QUOTE:
                                sep_before.add(id(c))
                        prev = c

        def h(node):
            k = node.kind
            if k == K.MAGIC_WORD and "magic" in comps:
                return node.sarg
            if k == K.LIST_ITEM and node.definition and "defn" in comps:
                ch = list(node.children)
                two_lines = bool(ch) and (ch[-1].endswith("\n") if isinstance(ch[-1], str) else ch[-1].kind == K.LIST)
                return [node.sarg] + ch + [(node.sarg[:-1] if two_lines else "") + ":"] + list(node.definition)
            if k == K.TABLE_CAPTION and "caption" in comps:
                a = self.to_attrs(node)
                return ["\n|+" + (" " + a + " |" if a else "")] + list(node.children) + ["\n"]
            if k == K.URL and id(node) in bare:
                return list(node.largs[0])
            if id(node) in sep_before:
                sep_before.discard(id(node))
                return [MARK, node]
            return None
        return h

    def applicable(self, x, w):
        K = self.K
        app = set()
        stack = [x]
        brk = pre = brace = False
        while stack:
            n = stack.pop()
            if isinstance(n, str):
                if "[[" in n or "]]" in n:
                    brk = True
                continue
            if isinstance(n, (list, tuple)):
                grps = [n]
            else:
                k = n.kind
                if k == K.MAGIC_WORD:
                    app.add("magic")
                elif k == K.LIST_ITEM and n.definition:
                    app.add("defn")
                elif k == K.TABLE_CAPTION:
                    app.add("caption")
                elif k == K.URL and bare_able(n) and "bare-url" not in app and url_in_bracket_context(x, K):
                    app.add("bare-url")
                elif k == K.PRE:
                    pre = True
                elif k.name in BRACE:
                    brace = True
                grps = [n.children] + list(n.largs) + ([n.definition] if n.definition else [])
            for grp in grps:
                prev = None
                for c in grp:
                    stack.append(c)
                    if not isinstance(c, str):
                        if c.kind in (K.BOLD, K.ITALIC) and prev is not None and not isinstance(prev, str) \
                                and prev.kind in (K.BOLD, K.ITALIC):
                            app.add("quote-sep")
                    prev = c
        if edge_marked(x, K, mutate=False)[1]:
            app.add("edge")
        if brk and brace:
            app.add("marker-args")
        if brk and pre:
            app.add("marker-pre")
        return [c for c in COMPS if c in app]

    def explain(self, x, w, whole, want_fn=None):
        """Smallest set of compensations (fixed order) under which x survives the round trip, or None.
        Compensations re-serialise x with node_handler_fn (the API's own hook) writing the suspected
        construct the way the input grammar writes it, or delete the protection marker where the
        parser is known to keep it verbatim.  Only used to NAME a failure that the plain relation found."""
        app = self.applicable(x, w)
        if not app:
            return None, None
        last = {}

        def ok(comps):
            self.obs.count("explain.attempts")
            try:
                with cpu_guard(30):
                    x2 = edge_marked(x, self.K)[0] if "edge" in comps else x
                    w2 = self.ctx.node_to_wikitext(x2, node_handler_fn=self.handler(comps, x2))
                    t = self.parse(w2)
            except BaseException:
                return False
            relax = tuple(c for c in comps if c.startswith("marker"))
            if "quote-sep" in comps:
                relax += ("marker-args",)       # the separator itself is kept verbatim inside brace arguments
            if want_fn is not None:
                a, b = want_fn(relax), N_node(t, relax)[4]
            elif whole:
                a, b = N_node(x, relax), N_node(t, relax)
            else:
                a, b = N_list(x if isinstance(x, (list, tuple)) else [x], True, relax), N_node(t, relax)[4]
            last["ab"] = (a, b)
            return a == b

        cur = tuple(app)
        if not ok(cur):
            residual = last.get("ab")
            # not monotone in rare cases: look for a small explaining set before giving up
            for size in (1, 2):
                for comps in itertools.combinations(app, size):
                    if len(comps) < len(app) and ok(comps):
                        return comps, None
            # what is left when every known mechanism is compensated names the unknown one
            return None, (first_diff(*residual) if residual else None)
        changed = True
        while changed and len(cur) > 1:    # 1-minimal subset, fixed order (repeated: a compensation can
            changed = False                # turn out to be unnecessary once another one has been dropped)
            for c in app:
                if c not in cur or len(cur) == 1:
                    continue
                trial = tuple(y for y in cur if y != c)
                if ok(trial):
                    cur = trial
                    changed = True
        return cur, None

    def judge(self, P, rule, x, w, want, got, whole, where, want_fn=None):
        """want/got: canonical forms.  Records nothing when equal."""
        if want == got:
            return
        comps, residual = self.explain(x, w, whole, want_fn)
        msg = "%s: w=%r want=%s got=%s" % (where, w[:300], str(want)[:400], str(got)[:400])
        if comps is not None:
            for c in comps:
                P("%s:%s" % (rule, MECH[c]), msg)
            return
        P("%s:%s" % (rule, residual or first_diff(want, got)), msg)

    # -- one document
    def eval_doc(self, text, rng=None, count=True):
        """Returns (problems [(sig, msg)], info).  rng=None: check every subtree / child list."""
        obs = self.obs
        probs = []
        seen = set()

        def P(sig, msg):
            if sig not in seen:
                seen.add(sig)
                probs.append((sig, msg))

        info = {"kinds": {}}
        try:
            with cpu_guard(30):
                t1 = self.parse(text)
                w1 = self.ser(t1)
                t2 = self.parse(w1)
                w2 = self.ser(t2)
                t3 = self.parse(w2)
        except CpuBudget as e:
            return [("no-return-within-cpu-budget", str(e)[-400:])], info
        except Exception as e:
            return [("raises:" + exc_sig(e), repr(e)[:300])], info
        c1, c2, c3 = N_node(t1), N_node(t2), N_node(t3)
        info["kinds"] = kinds_of(t1)
        if count:
            for key, v in literal_positions(t1).items():
                obs.count(key, v)
            ne = edge_marked(t1, self.K, mutate=False)[1]
            if ne:
                obs.count("t1.brackets-at-string-edge-next-to-markup", ne)
                obs.count("docs.with-bracket-at-string-edge")
        info["w1"] = w1
        if count:
            obs.check("rt1")
            if MARK in w1:
                obs.count("protected-brackets-emitted")
        self.judge(P, "rt1", t1, w1, c1, c2, True, "text=%r" % text[:300])
        if c1 == c2:
            # fixed-point clause: judged on trees that survived the first trip (after a failed first
            # trip the second one starts from an already damaged tree and only restates that failure)
            if count:
                obs.check("rt2")
            self.judge(P, "rt2", t2, w2, c2, c3, True, "second round trip of text=%r w1=%r" % (text[:300], w1[:300]))
        elif count:
            obs.count("rt2-skipped-after-failed-rt1")
        # subtrees and child lists of the first tree, passed directly (not from inside brace
        # arguments: text there is less parsed than the same text at top level)
        subs, lists = [], []
        stack = [t1]
        while stack:
            n = stack.pop()
            k = n.kind.name
            grps = [n.children] + ([n.definition] if n.definition else [])
            if k not in BRACE:
                grps += list(n.largs)
            for grp in grps:
                for c in grp:
                    if not isinstance(c, str):
                        stack.append(c)
            if k in SELF_STANDING:
                subs.append(n)
            if k not in ("ROOT", "PRE", "PREFORMATTED") and n.children and list_ok(n.children):
                lists.append(n)
        if rng is not None:
            if len(subs) > 6:
                subs = rng.sample(subs, 6)
            if len(lists) > 2:
                lists = rng.sample(lists, 2)
        for n in subs:
            k = n.kind.name
            try:
                with cpu_guard(30):
                    w, got = self.direct(n)
            except CpuBudget as e:
                P("sub:no-return-within-cpu-budget", str(e)[-400:])
                continue
            except Exception as e:
                P("sub:raises:" + exc_sig(e), "%s %r" % (k, e))
                continue
            if count:
                obs.check("sub")
                obs.add("subtree_kinds", k)
            # the same mechanism seen on a part gets the same signature as on the whole document
            self.judge(P, "rt1", n, w, (N_node(n),), got, False, "subtree %s of text=%r" % (str(n)[:200], text[:200]))
        for n in lists:
            try:
                with cpu_guard(30):
                    w, got = self.direct(n.children)
            except CpuBudget as e:
                P("list:no-return-within-cpu-budget", str(e)[-400:])
                continue
            except Exception as e:
                P("list:raises:" + exc_sig(e), "%s %r" % (n.kind.name, e))
                continue
            if count:
                obs.check("list")
                obs.add("childlist_parents", n.kind.name)
            self.judge(P, "rt1", n.children, w, N_list(n.children, True), got, False,
                       "child list of %s of text=%r" % (str(n)[:200], text[:200]))
        return probs, info

    # -- a list of strings passed directly (the API accepts lists; node_handler_fn may return such lists)
    def eval_strlist(self, parts, count=True):
        """The text of the list is the concatenation of its strings: it must come back as that text."""
        probs = []

        def P(sig, msg):
            if sig not in [p[0] for p in probs]:
                probs.append((sig, msg))
        try:
            with cpu_guard(30):
                w, got = self.direct(parts)
        except CpuBudget as e:
            return [("strlist:no-return-within-cpu-budget", str(e)[-400:])]
        except Exception as e:
            return [("strlist:raises:" + exc_sig(e), repr(e)[:300])]
        if count:
            self.obs.check("strlist")
        whole = "".join(parts)
        want = N_list([whole], True)
        self.judge(P, "rt1", list(parts), w, want, got, False, "string list %r" % (parts,),
                   want_fn=lambda relax: N_list([whole], True, relax))
        return probs

    # -- one string passed directly
    def eval_string(self, s, count=True):
        try:
            with cpu_guard(30):
                w, got = self.direct(s)
        except CpuBudget as e:
            return [("string:no-return-within-cpu-budget", str(e)[-400:])]
        except Exception as e:
            return [("string:raises:" + exc_sig(e), repr(e)[:300])]
        if count:
            self.obs.check("string")
        want = N_list([s], True)
        if got == want:
            return []
        if has_link(got):
            # which bracket runs are needed: collapse every run of 3+ to 2 and look again
            s2 = re.sub(r"\]{3,}", "]]", re.sub(r"\[{3,}", "[[", s))
            run = "2"
            if s2 != s:
                try:
                    with cpu_guard(30):
                        if not has_link(self.direct(s2)[1]):
                            run = "3+"
                except Exception:
                    pass
            d = "literal-brackets-become-LINK/bracket-run=" + run
        else:
            d = first_diff(want, got)
        return [("string:" + d, "s=%r w=%r got=%r" % (s, w, got))]


def split_string(rng, s):
    """s cut into 2 or 3 non-empty pieces."""
    k = 2 if len(s) < 3 or rng.random() < 0.6 else 3
    cuts = sorted(rng.sample(range(1, len(s)), k - 1))
    return [s[a:b] for a, b in zip([0] + cuts, cuts + [len(s)])]


def has_link(canon_list):
    return any(not isinstance(x, str) and x[0] == "LINK" for x in canon_list)


def literal_positions(root):
    """Where the first tree holds text with ]] but no [[ ('closer-only'), [[ but no ]] ('opener-only') or both:
    {'closer-only.in=LINK-arg': n, ...}.  Position = kind owning the string (LEVELn folded to LEVEL; '-arg' /
    '-definition' for those fields), prefixed with 'LINK>' when the string sits deeper inside a link argument."""
    out = {}
    stack = [(root, False)]
    while stack:
        n, inlink = stack.pop()
        k = n.kind.name
        kk = "LEVEL" if k.startswith("LEVEL") else k
        fields = [(n.children, ""), (n.definition or [], "-definition")] + [(a, "-arg") for a in n.largs]
        for lst, suffix in fields:
            il = inlink or (k == "LINK" and suffix == "-arg")
            for c in lst:
                if isinstance(c, str):
                    o, cl = "[[" in c, "]]" in c
                    if o or cl:
                        what = "both" if o and cl else ("opener-only" if o else "closer-only")
                        pos = ("LINK>" if inlink else "") + kk + suffix
                        key = "lit.%s.in=%s" % (what, pos)
                        out[key] = out.get(key, 0) + 1
                else:
                    stack.append((c, il))
    return out


def list_ok(lst):
    """A child list can be passed directly iff its first character is not line-start sensitive."""
    x = lst[0]
    if isinstance(x, str):
        return x[:1].isalnum()
    return x.kind.name not in ("LIST_ITEM", "TABLE_ROW", "TABLE_CELL", "TABLE_HEADER_CELL", "TABLE_CAPTION") and \
        not any((not isinstance(c, str)) and c.kind.name in ("LIST_ITEM", "TABLE_ROW", "TABLE_CELL", "TABLE_HEADER_CELL",
                                                             "TABLE_CAPTION") for c in lst)


def bracket_run(s):
    m = 0
    for ch in "[]":
        for k, g in itertools.groupby(s, lambda c: c == ch):
            if k:
                m = max(m, len(list(g)))
    return m


def min_string(mon, s, sig):
    """Delete characters while the same rule keeps failing."""
    def bad(x):
        return any(p[0] == sig for p in mon.eval_string(x, count=False))
    changed = True
    while changed:
        changed = False
        for i in range(len(s)):
            c = s[:i] + s[i + 1:]
            if c and bad(c):
                s = c
                changed = True
                break
    return s


# ------------------------------------------------------------------ workload

STR_TOKENS = ["[[", "]]", "[", "]", "[[[", "]]]", "|", " ", " ", "a", "foo", "b c", "é", "x:y", "[[a]]", "[[a|b]]",
              "[a]", "]][[", "\nz"]


def gen_string(rng):
    return "".join(rng.choice(STR_TOKENS) for _ in range(rng.randint(1, 8))).strip(" ")


def exhaustive_strings(tier):
    a = 8 if tier == "thorough" else 7
    for L in range(1, a + 1):
        for t in itertools.product("[]a", repeat=L):
            yield "".join(t)
    for L in range(1, 6):
        for t in itertools.product("[]a| ", repeat=L):
            s = "".join(t)
            if s[0] != " " and ("|" in s or " " in s):
                yield s


def report_doc(mon, obs, doc, text, probs, budget_left):
    """Record violations of one document; delta-minimise the witness for the first few of each signature."""
    for sig, msg in probs:
        case = {"kind": "doc", "text": text}
        named = sig.split(":", 1)[-1] in MECH.values()
        tried = budget_left[1]
        if doc is not None and budget_left[0] > 0 and not sig.startswith(("no-return", "raises")) and \
                (len(text) < 250 or not named) and tried.get(sig, 0) < 3:
            tried[sig] = tried.get(sig, 0) + 1
            def pred(v, sig=sig):
                budget_left[0] -= 1
                pp, _ = mon.eval_doc(G.render(v), rng=None, count=False)
                return any(p[0] == sig for p in pp)
            small = G.minimise(doc, pred, budget=min(100, budget_left[0]))
            stext = G.render(small)
            if len(stext) < len(text):
                pp, _ = mon.eval_doc(stext, rng=None, count=False)
                m2 = [p[1] for p in pp if p[0] == sig]
                if m2:
                    case = {"kind": "doc", "text": stext, "features": sorted(G.features(small)), "minimised_from": text[:400]}
                    msg = m2[0]
                    obs.count("witnesses-minimised")
        obs.violation(sig, msg, case)


def run_shard(spec):
    obs = Obs()
    rng = random.Random(spec["seed"])
    mon = Monitor(obs)
    budget_left = [400, {}]
    n = spec["n"]
    for i in range(n):
        depth = 1 + (i % 4)
        doc = G.gen(rng, depth)
        text = G.render(doc)
        feats = G.features(doc)
        gen = "c19_docs"
        probs, info = mon.eval_doc(text, rng=rng)
        kinds = info["kinds"]
        obs.case(text, nontrivial=len(kinds) >= 3, sample={"gen": gen, "depth": depth, "text": text[:300]})
        obs.count("gen." + gen)
        obs.count("depth.%d" % depth)
        for f in feats:
            obs.add("features", f)
        for f in ("literal-brackets", "list", "table", "deflist", "caption", "magic-word", "section", "template", "parserfn",
                  "protected-literal", "plit-in-link", "plit-in-extlink", "plit-in-cell", "plit-in-list-item",
                  "plit-in-heading", "protected-literal-in-link-target", "label-ends-in-bracket-text",
                  "label-ends-in-extlink", "text-bracket-touching-link"):
            if f in feats:
                obs.count("docs.with-" + f)
        if any(f.endswith("-attrs") for f in feats):
            obs.count("docs.with-html-attrs")
        for k, v in kinds.items():
            obs.add("emitted_kinds", k)
            obs.count("emit." + k, v)
        obs.maxi("max_doc_len", len(text))
        obs.maxi("max_nodes", sum(kinds.values()))
        if probs:
            obs.count("docs.with-disagreement")
            report_doc(mon, obs, doc, text, probs, budget_left)
    # strings passed directly
    strs = [("random", gen_string(rng)) for _ in range(spec["nstr"])]
    strs += [("exhaustive", s) for j, s in enumerate(exhaustive_strings(spec.get("tier", "quick"))) if j % spec["nsh"] == spec["idx"]]
    smin = {}
    for src, s in strs:
        if not s.strip():
            continue
        probs = mon.eval_string(s)
        obs.case("S:" + s, nontrivial=("[[" in s or "]]" in s), sample=None)
        obs.count("strings." + src)
        obs.maxi("max_bracket_run", bracket_run(s))
        for sig, msg in probs:
            if smin.get(sig, 0) < 6 and not sig.startswith(("string:no-return", "string:raises")):
                smin[sig] = smin.get(sig, 0) + 1
                s2 = min_string(mon, s, sig)
                pp = [p for p in mon.eval_string(s2, count=False) if p[0] == sig]
                if pp:
                    s, msg = s2, pp[0][1]
                obs.violation(sig, msg, {"kind": "string", "s": s})
            else:
                obs.violation(sig, msg, {"kind": "string", "s": s})
    # lists of strings passed directly: every string above cut in 2-3 pieces at random places, plus ALL 2-piece
    # cuts of all strings over {[,],a} up to length 5
    lists = [split_string(rng, s) for _, s in strs if len(s) >= 2 and "\n" not in s]
    j = 0
    for L in range(2, 6):
        for t in itertools.product("[]a", repeat=L):
            for c in range(1, L):
                if j % spec["nsh"] == spec["idx"]:
                    lists.append(["".join(t[:c]), "".join(t[c:])])
                j += 1
    for parts in lists:
        if not "".join(parts).strip() or parts[0][:1].isspace():
            continue
        probs = mon.eval_strlist(parts)
        whole = "".join(parts)
        obs.case("L:" + "\x00".join(parts), nontrivial=("[[" in whole or "]]" in whole), sample=None)
        obs.count("strlists")
        if any(a and b and a[-1] == b[0] and a[-1] in "[]" for a, b in zip(parts, parts[1:])):
            obs.count("strlists.with-a-bracket-pair-across-pieces")
        for sig, msg in probs:
            obs.violation(sig, msg, {"kind": "strlist", "parts": parts})
    mon.close()
    obs.anchors.update(anchors.snapshot())
    return obs


def replay(case):
    obs = Obs()
    mon = Monitor(obs)
    try:
        if case.get("kind") == "strlist":
            return {"violations": mon.eval_strlist(case["parts"])}
        if case.get("kind") == "string":
            s = case["s"]
            probs = mon.eval_string(s)
            return {"violations": probs}
        probs, info = mon.eval_doc(case["text"], rng=None)
        return {"violations": probs, "w1": info.get("w1")}
    finally:
        mon.close()
