"""C04 -- template expansion agrees with the reference transclusion semantics.

Monitor: reference-model differential.  vf.ref.transclusion evaluates the AST the page and the
template bodies were rendered from; Wtp.expand runs on the rendered wikitext.  Disagreements are
delta-minimised over the AST; the mechanism signature is the feature set of the minimal witness.
"""
from __future__ import annotations

import random
import time

from vf.core.obs import Obs, cpu_guard, CpuBudget, exc_sig, h64
from vf.core import anchors
from vf.gen import expansion as G
from vf.ref.transclusion import Ref, Cycle, key_of

LEVEL = "exploration"
RULE = ("(library, page) pairs: acyclic libraries of <=5 templates, bodies/pages from the expansion grammar "
        "(text | param ref with/without default | call with positional/named/numeric args | #if | #ifeq | #switch | "
        "include tags), depth <=4, alphabet [a-z0-9é語] + blank/tab/newline + list/table markers at value starts; "
        "widenings applied to a share of the main cases: '=' in text wherever the call syntax does not read it as the "
        "name/value separator (body/page text, named values, defaults, #if/#ifeq arguments, #switch results), lone #switch "
        "cases that are parameter references, include tags nested in each other (onlyinclude inside noinclude/includeonly, "
        "noinclude inside includeonly ...), calls nested up to 3 deep inside argument NAMES (with a template that echoes "
        "a key, so that the computed name shows), names with a run of blanks / tab / newline inside ('k  k' vs 'k k'), "
        "a template forwarding a parameter positionally / as a lone #switch case to a template that shows it; "
        "classes: main, pos-trailing-newline (tagged), numeric-comparands (tagged). non-trivial = distinct pair with >=1 call "
        "resolving to an existing template and >=1 parameter reference evaluated by the reference")
ASSUMPTIONS = [
    "reference = the rules named in the property statement, evaluated on the generating AST (never parses wikitext)",
    "text alphabet contains no '|', braces or brackets (they would change the argument structure); '=' never stands at the "
    "top level of a positional argument, an argument name, the #switch subject or a lone #switch case in the SOURCE text "
    "(there it is the name/value separator)",
    "an undefined parameter without default stays literal = the reference text as written, blanks in the name included",
    "argument and parameter names are trimmed, not normalised: a run of blanks inside a name is part of the name; an "
    "argument name is not empty in the source text",
    "onlyinclude present anywhere in the body (also inside noinclude) selects the transcluded text",
]
WALL = {"quick": 900, "thorough": 5400}
CLASSES = ["main", "main", "main", "main", "main", "main", "pos-trailing-newline", "numeric-comparands"]


def floors(tier):
    return {"oracle.expand==reference": 2000, "counters.rule.template-expanded": 100, "counters.rule.arg-named-trimmed": 100,
            "counters.rule.arg-positional-verbatim": 100, "counters.rule.later-duplicate-wins": 5,
            "counters.rule.param-undefined-literal": 20, "counters.rule.param-default": 20,
            "counters.rule.missing-template-link": 20, "counters.rule.newline-prepended": 20,
            "counters.rule.if-true": 10, "counters.rule.ifeq-eq": 5, "counters.rule.switch-match": 5,
            "counters.tag.noinclude": 5, "counters.tag.onlyinclude": 5, "counters.tag.includeonly": 5,
            "counters.tag.comment-with-inclusion-tag": 5,
            "counters.tag.equals-in-text": 300, "counters.tag.switch-lone-case-param": 20,
            "counters.tag.forwarded-positional-param": 100, "counters.tag.name-blank-run": 200,
            "counters.rule.arg-name-blank-run": 100,
            "counters.tag.include-tags-nested": 50, "counters.tag.onlyinclude-in-noinclude": 20,
            "counters.tag.call-in-arg-name": 100, "counters.tag.call-in-arg-name-depth3": 20,
            "counters.rule.arg-name-computed": 100, "counters.rule.param-undefined-literal-blank-name": 20,
            "counters.rule.equals-in-param-value": 50, "counters.rule.onlyinclude-inside-noinclude": 10,
            "anchors.core.Wtp._template_to_body": 100, "anchors.parserfns.if_fn": 10}


def shards(tier, seed):
    per = {"quick": 1500, "thorough": 22000}[tier]
    return [{"seed": seed * 1000 + i, "n": per} for i in range(16)]


def make_case(rng, cls):
    tags = set()
    cfg = G.Cfg()
    n = rng.randint(1, 5)
    lib = G.gen_library(rng, n, rng.randint(1, 3), cfg, tags)
    page = G.seq(rng, rng.randint(1, 4), list(lib), False, cfg, tags)
    if cls == "pos-trailing-newline":
        # put a trailing newline on some positional argument values
        def addnl(a):
            k = a[0]
            if k == "S":
                return ("S", [addnl(x) for x in a[1]])
            if k == "C":
                args = []
                for x in a[3]:
                    if x[0] == "pos" and rng.random() < 0.6:
                        args.append(("pos", ("S", list(addnl(x[1])[1]) + [("T", "\n")])))
                    elif x[0] == "pos":
                        args.append(("pos", addnl(x[1])))
                    else:
                        args.append(x[:3] + (addnl(x[3]),) + x[4:])
                return ("C", a[1], a[2], args)
            return a
        page = addnl(page)
    if cls == "numeric-comparands":
        page = ("S", page[1] + [("EQ", ("S", [("T", rng.choice(["1", "01", "1.0", "+1"]))]),
                                 ("S", [("T", rng.choice(["1", "01", "1.0"]))]), ("S", [("T", "same")]), ("S", [("T", "diff")]))])
    if cls == "main":
        lib, page = widen(rng, lib, page, tags)
    return lib, page, tags


# ---------------------------------------------------------------------------------------------
# widenings of the main workload (C04 only; the shared grammar generator stays as it is)

EQ_TEXTS = ["=", "k=v", "n=b", "1=z", "m =", " = ", "=x", "2=", "a=b=c"]
NAME_TAILS = ["", "", "", "", "z", " "]
NAME_VALUES = ["b", "c", "x1", " a", "", "2"]


def _walk_eq(a, free, fn):
    """Rebuild AST a; fn(textnode) is applied to T nodes standing where MediaWiki does NOT read an '=' as the
    name/value separator (free=True).  Not free: top level of a positional argument, of an argument name, of the
    #switch subject and of a lone #switch case."""
    k = a[0]
    if k == "T":
        return fn(a) if free else a
    if k == "S":
        return ("S", [_walk_eq(x, free, fn) for x in a[1]])
    if k == "P":
        return a if a[3] is None else ("P", a[1], a[2], _walk_eq(a[3], True, fn))
    if k == "C":
        args = []
        for x in a[3]:
            if x[0] == "pos":
                args.append(("pos", _walk_eq(x[1], False, fn)))
            elif x[0] == "cnamed":
                args.append(("cnamed", _walk_eq(x[1], False, fn), _walk_eq(x[2], True, fn), x[3], x[4]))
            else:
                args.append(x[:3] + (_walk_eq(x[3], True, fn),) + x[4:])
        return ("C", a[1], a[2], args)
    if k in ("IF", "EQ"):
        return (k,) + tuple(_walk_eq(x, True, fn) for x in a[1:])
    if k == "SW":
        return ("SW", _walk_eq(a[1], False, fn),
                [(c, _walk_eq(v, c is not None, fn)) for c, v in a[2]])
    if k in ("NOINC", "ONLYINC", "INCONLY"):
        return (k, _walk_eq(a[1], free, fn))
    return a


def wellformed(a):
    """False if an '=' stands where the source text would make it a name/value separator (minimisation steps
    that hoist a value into a positional argument can do that): such a rendering no longer means the AST."""
    def walk(a, free):
        k = a[0]
        if k == "T":
            return free or "=" not in a[1]
        if k == "S":
            return all(walk(x, free) for x in a[1])
        if k == "P":
            return a[3] is None or walk(a[3], True)
        if k == "C":
            for x in a[3]:
                if x[0] == "pos":
                    ok = walk(x[1], False)
                elif x[0] == "cnamed":
                    # (an empty name in the source is outside the grammar: the statement's named arguments have one)
                    ok = walk(x[1], False) and walk(x[2], True) and G.render(x[1]).strip() != ""
                else:
                    ok = walk(x[3], True)
                if not ok:
                    return False
            return True
        if k in ("IF", "EQ"):
            return all(walk(x, True) for x in a[1:])
        if k == "SW":
            return walk(a[1], False) and all(walk(v, c is not None) for c, v in a[2])
        if k in ("NOINC", "ONLYINC", "INCONLY"):
            return walk(a[1], free)
        return True
    return walk(a, True)


def inject_equals(rng, a, tags, p=0.25):
    def fn(t):
        if rng.random() < p:
            tags.add("equals-in-text")
            e = rng.choice(EQ_TEXTS)
            i = rng.randint(0, len(t[1]))
            return ("T", t[1][:i] + e + t[1][i:])
        return t
    return _walk_eq(a, True, fn)


def switch_lone_params(rng, a, tags, p=0.4):
    """Template bodies: a lone #switch case may be a parameter reference."""
    k = a[0]
    if k == "S":
        return ("S", [switch_lone_params(rng, x, tags, p) for x in a[1]])
    if k == "SW":
        cases = []
        for c, v in a[2]:
            if c is None and rng.random() < p:
                key = rng.choice(G.KEYS)
                v = ("S", [("P", key, key, None if rng.random() < 0.6 else v)])
                tags.add("switch-lone-case-param")
            cases.append((c, v))
        return ("SW", a[1], cases)
    if k in ("NOINC", "ONLYINC", "INCONLY"):
        return (k, switch_lone_params(rng, a[1], tags, p))
    return a


def _has(a, kind):
    if a[0] == kind:
        return True
    if a[0] == "S":
        return any(_has(x, kind) for x in a[1])
    if a[0] in ("NOINC", "ONLYINC", "INCONLY"):
        return _has(a[1], kind)
    return False


def nest_include_tags(rng, body, tags):
    """Wrap a run of top-level parts of a body in <noinclude> / <includeonly>: the run may contain include tags
    itself (onlyinclude inside noinclude = documentation around the payload).  Never noinclude inside noinclude or
    around a part that has one, never onlyinclude inside onlyinclude (the statement does not say what those mean)."""
    parts = body[1]
    only = [i for i, x in enumerate(parts) if _has(x, "ONLYINC")]
    if only and rng.random() < 0.6:
        i = rng.choice(only)
        lo, hi = rng.randint(max(0, i - 1), i), rng.randint(i + 1, min(len(parts), i + 2))
    else:
        lo = rng.randint(0, len(parts) - 1)
        hi = rng.randint(lo + 1, len(parts))
    run = parts[lo:hi]
    inner = ("S", run)
    kind = "NOINC" if (not _has(inner, "NOINC") and rng.random() < 0.65) else "INCONLY"
    if any(_has(x, k) for x in run for k in ("NOINC", "ONLYINC", "INCONLY")):
        tags.add("include-tags-nested")
    if kind == "NOINC" and _has(inner, "ONLYINC"):
        tags.add("onlyinclude-in-noinclude")
    tags.add({"NOINC": "noinclude", "INCONLY": "includeonly"}[kind])
    return ("S", parts[:lo] + [(kind, inner)] + parts[hi:])


def name_chain(rng, pool, depth, same):
    """AST of an argument NAME: text and calls only (closed: no parameter references), calls nested in the names
    of calls up to `depth`; `same` = name of the enclosing call, preferred so that one template is entered again
    from its own argument name (the library stays acyclic: no BODY calls it)."""
    name = same if (same in pool and rng.random() < 0.7) else rng.choice(pool)
    args = []
    if depth > 1 and rng.random() < 0.85:
        args.append(("cnamed", name_chain(rng, pool, depth - 1, name), ("S", [("T", rng.choice(NAME_VALUES))]), "", ""))
    elif rng.random() < 0.3:
        args.append(("pos", ("S", [("T", rng.choice(G.ATOMS))])))
    return ("S", [("C", name, name, args), ("T", rng.choice(NAME_TAILS))])


def echo_body(rng):
    """A template whose output is usable as an argument name and depends on the argument of that name:
    'n{{{n|}}}' -- so that WHICH name a nested call computed shows in the expansion."""
    key = rng.choice(G.KEYS)
    raw = rng.choice(["", " "]) + key + rng.choice(["", " "])
    return ("S", [("T", key), ("P", raw, key, ("S", [("T", "")]))])


def echo_call(rng, pool, echo, tags):
    d = rng.randint(1, 3)
    tags.add("call-in-arg-name")
    if d == 3:
        tags.add("call-in-arg-name-depth3")
    return ("C", echo, echo, [("cnamed", name_chain(rng, pool, d, echo), ("S", [("T", rng.choice(NAME_VALUES))]),
                              rng.choice(["", " "]), rng.choice(["", " "]))])


def add_name_calls(rng, a, pool, tags, p):
    """Give some calls an extra argument whose NAME is computed by nested calls."""
    k = a[0]
    if k == "S":
        return ("S", [add_name_calls(rng, x, pool, tags, p) for x in a[1]])
    if k == "P":
        return a if a[3] is None else ("P", a[1], a[2], add_name_calls(rng, a[3], pool, tags, p))
    if k == "C":
        args = []
        for x in a[3]:
            if x[0] == "pos":
                args.append(("pos", add_name_calls(rng, x[1], pool, tags, p)))
            elif x[0] == "named":
                args.append(x[:3] + (add_name_calls(rng, x[3], pool, tags, p),) + x[4:])
            else:
                args.append(x)
        if pool and rng.random() < p:
            d = rng.randint(1, 3)
            tags.add("call-in-arg-name")
            if d == 3:
                tags.add("call-in-arg-name-depth3")
            args.insert(rng.randint(0, len(args)),
                        ("cnamed", name_chain(rng, pool, d, a[2]), ("S", [("T", rng.choice(G.ATOMS))]),
                         rng.choice(["", " "]), rng.choice(["", " "])))
        return ("C", a[1], a[2], args)
    if k in ("IF", "EQ"):
        return (k,) + tuple(add_name_calls(rng, x, pool, tags, p) for x in a[1:])
    if k == "SW":
        return ("SW", a[1], [(c, add_name_calls(rng, v, pool, tags, p) if c is not None else v) for c, v in a[2]])
    if k in ("NOINC", "ONLYINC", "INCONLY"):
        return (k, add_name_calls(rng, a[1], pool, tags, p))
    return a


def add_forwarder(rng, lib, page, names, tags):
    """A template that passes one of its parameters on -- as a positional argument of a nested call, or as a lone
    #switch case -- to a template that shows what it received; the page calls it with a value containing '='."""
    i = rng.randrange(len(names) - 1)
    j = rng.randrange(i + 1, len(names))
    key = rng.choice(G.KEYS)
    raw = rng.choice(["", " "]) + key + rng.choice(["", " "])
    ref = ("P", raw, key, None if rng.random() < 0.7 else ("S", [("T", rng.choice(EQ_TEXTS))]))
    if rng.random() < 0.7:
        fwd = ("C", names[j], names[j], [("pos", ("S", [("T", rng.choice(["", "", " "])), ref]))])
        k2 = rng.choice(G.KEYS)
        show = [("T", "["), ("P", "1", "1", None), ("P", k2, k2, ("S", [("T", "-")])), ("T", "]")]
        b = lib[names[j]]
        lib[names[j]] = ("S", b[1] + show)
        tags.add("forwarded-positional-param")
    else:
        subj = rng.choice(["x", "a", "2"])
        fwd = ("SW", ("S", [("T", subj)]), [(None, ("S", [ref])), ("y", ("S", [("T", "Y")])),
                                             (None, ("S", [("T", rng.choice(["d", subj]))]))])
        tags.add("switch-lone-case-param")
    b = lib[names[i]]
    k = rng.randint(0, len(b[1]))
    lib[names[i]] = ("S", b[1][:k] + [fwd] + b[1][k:])
    val = ("S", [("T", rng.choice(EQ_TEXTS + ["x=q", "a=", "2 = 2"]))])
    tags.add("equals-in-text")
    call = ("C", names[i], names[i], [("named", raw, key, val, rng.choice(["", " "]), rng.choice(["", " "]))])
    k = rng.randint(0, len(page[1]))
    return lib, ("S", page[1][:k] + [call] + page[1][k:])


BLANK_RUNS = ["  ", "\t", "\n", " \t", "   "]


def vary_name_blanks(rng, a, tags, p):
    """Names with a blank inside ('k k'): sometimes written with a run of blanks / a tab / a newline instead.  That
    is a different name (names are trimmed, not normalised)."""
    def fn(a):
        if a[0] == "P" and " " in a[2] and rng.random() < p:
            run = rng.choice(BLANK_RUNS)
            tags.add("name-blank-run")
            return ("P", a[1].replace(a[2], a[2].replace(" ", run)), a[2].replace(" ", run), a[3])
        if a[0] == "C" and any(x[0] == "named" and " " in x[2] for x in a[3]):
            args = []
            for x in a[3]:
                if x[0] == "named" and " " in x[2] and rng.random() < p:
                    run = rng.choice(BLANK_RUNS)
                    tags.add("name-blank-run")
                    args.append(("named", x[1].replace(x[2], x[2].replace(" ", run)), x[2].replace(" ", run)) + x[3:])
                else:
                    args.append(x)
            return ("C", a[1], a[2], args)
        return a
    return _map(a, fn)


def widen(rng, lib, page, tags):
    names = list(lib)
    if rng.random() < 0.5:
        p = rng.choice([0.2, 0.5])
        lib = {n: vary_name_blanks(rng, b, tags, p) for n, b in lib.items()}
        page = vary_name_blanks(rng, page, tags, p)
    r = rng.random()
    if r < 0.30:
        lib = {n: inject_equals(rng, switch_lone_params(rng, b, tags), tags) for n, b in lib.items()}
        page = inject_equals(rng, page, tags)
        if len(names) >= 2 and rng.random() < 0.6:
            lib, page = add_forwarder(rng, lib, page, names, tags)
    elif r < 0.45:
        # (on the page only, and at most one echo call per body below: name calls in every body multiply through the
        #  call DAG and make single expansions take many seconds)
        page = add_name_calls(rng, page, names, tags, rng.choice([0.1, 0.3]))
        if rng.random() < 0.8:
            # one template echoes a key; calls of it with computed names are placed on the page and in the bodies of
            # the templates before it
            j = rng.randrange(len(names))
            echo = names[j]
            lib[echo] = echo_body(rng)
            tags.add("echo-template")
            for i in range(j):
                if rng.random() < 0.4:
                    b = lib[names[i]]
                    k = rng.randint(0, len(b[1]))
                    lib[names[i]] = ("S", b[1][:k] + [echo_call(rng, names[i + 1:], echo, tags)] + b[1][k:])
            k = rng.randint(0, len(page[1]))
            page = ("S", page[1][:k] + [echo_call(rng, names, echo, tags)] + page[1][k:])
    lib = {n: (nest_include_tags(rng, b, tags) if cfg_tags(b) and rng.random() < 0.5 else b) for n, b in lib.items()}
    return lib, page


def cfg_tags(body):
    return any(_has(body, k) for k in ("NOINC", "ONLYINC", "INCONLY"))


# ---------------------------------------------------------------------------------------------
# reference: the shared evaluator, with the C04 reading where the shared one follows the implementation

def includable4(body):
    """outside noinclude, inside onlyinclude IF PRESENT (anywhere, also within noinclude/includeonly), includeonly
    unwrapped, comments removed."""
    onlys = []

    def find(a, in_noinc):
        k = a[0]
        if k == "ONLYINC":
            onlys.append((a[1], in_noinc))
        elif k == "S":
            for x in a[1]:
                find(x, in_noinc)
        elif k in ("NOINC", "INCONLY"):
            find(a[1], in_noinc or k == "NOINC")

    def strip(a):
        if a[0] != "S":
            return a
        out = []
        for x in a[1]:
            if x[0] in ("NOINC", "COMMENT"):
                continue
            out.append(strip(x[1]) if x[0] in ("INCONLY", "ONLYINC") else strip(x))
        return ("S", out)
    find(body, False)
    if onlys:
        return ("S", [strip(x) for x, _ in onlys]), any(n for _, n in onlys)
    return strip(body), False


class Ref4(Ref):
    def __init__(self, lib, **kw):
        super().__init__(lib, **kw)
        self.only_in_noinc = set()
        for k, v in lib.items():
            self.lib[k], flag = includable4(v)
            if flag:
                self.only_in_noinc.add(k)

    @staticmethod
    def key(name):
        """Key of an argument / parameter name: trimmed, nothing else (a run of blanks inside a name is part of the
        name); a positive decimal number is the positional index.  Returned in a spelling the shared evaluator
        (which collapses blank runs in keys) leaves alone: blanks inside the name become private-use characters."""
        k = name.strip(" \t\n")
        if k.isdigit() and int(k) > 0:
            return int(k)
        return "".join(chr(0xE000 + ord(c)) if c in " \t\n" else c for c in k)

    def ev(self, a, frame, stack=(), full=None):
        k = a[0]
        if k == "P":
            kk = self.key(a[2])
            if frame is not None and kk in frame:
                self.hit("param-defined")
                if frame[kk].endswith("\n"):
                    self.hit("CLASS:pos-trailing-newline")
                if "=" in frame[kk]:
                    self.hit("equals-in-param-value")
                return frame[kk]
            if a[3] is not None:
                self.hit("param-default")
                return self.ev(a[3], frame, stack, full)
            # stays literal: the reference as written, not a normalised spelling of it
            self.hit("param-undefined-literal")
            if a[1] != a[2]:
                self.hit("param-undefined-literal-blank-name")
            return "{{{" + a[1] + "}}}"
        if k == "C":
            if a[2] in self.only_in_noinc:
                self.hit("onlyinclude-inside-noinclude")
            args = []
            for x in a[3]:
                if x[0] == "cnamed":
                    # the name is expanded in the caller's frame like the value; then it is an ordinary named argument
                    nm = self.ev(x[1], frame, stack, True)
                    self.hit("arg-name-computed")
                    args.append(("named", nm, str(self.key(nm)), x[2], x[3], x[4]))
                elif x[0] == "named":
                    kk = self.key(x[2])
                    if isinstance(kk, str) and any(0xE000 <= ord(c) < 0xE100 for c in kk) and " ".join(x[2].split()) != x[2].strip():
                        self.hit("arg-name-blank-run")
                    args.append(x[:2] + (str(kk),) + x[3:])
                else:
                    args.append(x)
            a = ("C", a[1], a[2], args)
        return super().ev(a, frame, stack, full)


_CTX = None


def shared_ctx():
    """One context per shard; the template namespace is reset for every case (rows deleted, page
    memo cleared) so that cases stay independent without paying a Wtp() construction each."""
    global _CTX
    if _CTX is None:
        from vf.core.wtp import fresh
        cm = fresh()
        _CTX = (cm, cm.__enter__())
        import atexit
        atexit.register(lambda: cm.__exit__(None, None, None))
    return _CTX[1]


def load_library(ctx, lib):
    ctx.db_conn.execute("DELETE FROM pages WHERE namespace_id = 10")
    for n, b in lib.items():
        ctx.add_page("Template:" + n, 10, G.render(b))
    try:
        type(ctx).get_page.cache_clear()
    except AttributeError:
        pass


def run_real(lib, page, kw=None):
    """Expand the rendered page with the rendered library on the real code."""
    ctx = shared_ctx()
    load_library(ctx, lib)
    ctx.start_page("Pg")
    LAST["loop-warning"] = False
    try:
        with cpu_guard(20):
            return ctx.expand(G.render(page), **(kw or {}))
    except CpuBudget:
        return "<<CPU-BUDGET>>"
    except Exception as e:
        return "<<EXC " + exc_sig(e) + ">>"
    finally:
        try:
            LAST["loop-warning"] = any("Template loop detected" in w.get("msg", "") for w in ctx.warnings)
        except Exception:
            pass


LAST = {"loop-warning": False}


def reference(lib, page):
    r = Ref4(lib)
    try:
        return r.ev(page, None), r
    except Cycle:
        return None, r


def disagree(lib, page):
    if not (wellformed(page) and all(wellformed(b) for b in lib.values())):
        return None
    exp, r = reference(lib, page)
    if exp is None:
        return None
    got = run_real(lib, page)
    if got != exp:
        return (exp, got)
    return None


MINIMISE_CPU = 20.0     # CPU seconds per witness (a witness whose single expansion is slow is reported less minimal)


def minimise(lib, page, budget=2500):
    """Greedy delta-minimisation over page and library ASTs while the disagreement persists."""
    steps = 0
    improved = True
    t0 = time.process_time()
    while improved and steps < budget:
        improved = False
        if time.process_time() - t0 > MINIMISE_CPU:
            break
        for cand in G.shrinks(page):
            steps += 1
            if steps > budget or time.process_time() - t0 > MINIMISE_CPU:
                break
            if disagree(lib, cand):
                page = cand
                improved = True
                break
        if improved:
            continue
        for name in list(lib):
            # drop the template altogether
            l2 = {k: v for k, v in lib.items() if k != name}
            steps += 1
            if disagree(l2, page):
                lib = l2
                improved = True
                break
            for cand in G.shrinks(lib[name]):
                steps += 1
                if steps > budget or time.process_time() - t0 > MINIMISE_CPU:
                    break
                l2 = dict(lib)
                l2[name] = cand
                if disagree(l2, page):
                    lib = l2
                    improved = True
                    break
            if improved or steps > budget:
                break
    return lib, page


def features(lib, page):
    f = set()

    def walk(a, in_body):
        k = a[0]
        if k == "T":
            s = a[1]
            if "\n" in s:
                f.add("nl-in-text")
            if s.startswith(tuple("*#:;")) or s.startswith("{|"):
                f.add("marker-start")
            if s != s.strip(" \t") and s.strip(" \t\n"):
                f.add("blank-edge")
            if "=" in s:
                f.add("equals-in-text")
        elif k == "S":
            for x in a[1]:
                walk(x, in_body)
        elif k == "P":
            f.add("param-default" if a[3] is not None else "param")
            if a[1] != a[2]:
                f.add("param-name-blanks")
            if _one_blank(a[2]) != a[2].strip(" \t\n"):
                f.add("name-blank-run")
            if a[3] is not None:
                walk(a[3], in_body)
        elif k == "C":
            f.add("call-in-body" if in_body else "call")
            if a[2] == "missing":
                f.add("missing")
            for x in a[3]:
                if x[0] == "pos":
                    f.add("pos-arg")
                    walk(x[1], in_body)
                    if G.render(x[1]).endswith("\n"):
                        f.add("pos-trailing-nl")
                elif x[0] == "cnamed":
                    f.add("call-in-arg-name")
                    walk(x[1], in_body)
                    walk(x[2], in_body)
                else:
                    f.add("named-arg")
                    if x[4] or x[5] or x[1] != x[2]:
                        f.add("named-pad")
                    if _one_blank(x[2]) != x[2].strip(" \t\n"):
                        f.add("name-blank-run")
                    walk(x[3], in_body)
        elif k in ("IF", "EQ"):
            f.add(k.lower())
            for x in a[1:]:
                walk(x, in_body)
        elif k == "SW":
            f.add("switch")
            walk(a[1], in_body)
            for c, v in a[2]:
                walk(v, in_body)
        elif k in ("NOINC", "ONLYINC", "INCONLY", "COMMENT"):
            f.add(k.lower())
            if k != "COMMENT":
                if any(_has(a[1], t) for t in ("NOINC", "ONLYINC", "INCONLY")):
                    f.add("include-tags-nested")
                walk(a[1], in_body)
    walk(page, False)
    for b in lib.values():
        walk(b, True)
    return f


# Causal classes: an input feature is the mechanism's trigger if taking exactly that feature out of the witness
# (leaving everything else as it is) makes implementation and reference agree.

def _map(a, fn):
    """Rebuild AST bottom-up; fn(node) may replace any node (called after its children were rebuilt)."""
    k = a[0]
    if k == "S":
        a = ("S", [_map(x, fn) for x in a[1]])
    elif k == "P":
        a = a if a[3] is None else ("P", a[1], a[2], _map(a[3], fn))
    elif k == "C":
        args = []
        for x in a[3]:
            if x[0] == "pos":
                args.append(("pos", _map(x[1], fn)))
            elif x[0] == "cnamed":
                args.append(("cnamed", _map(x[1], fn), _map(x[2], fn), x[3], x[4]))
            else:
                args.append(x[:3] + (_map(x[3], fn),) + x[4:])
        a = ("C", a[1], a[2], args)
    elif k in ("IF", "EQ"):
        a = (k,) + tuple(_map(x, fn) for x in a[1:])
    elif k == "SW":
        a = ("SW", _map(a[1], fn), [(c, _map(v, fn)) for c, v in a[2]])
    elif k in ("NOINC", "ONLYINC", "INCONLY"):
        a = (k, _map(a[1], fn))
    return fn(a)


def _abl_equals(lib, page):
    fn = lambda a: ("T", a[1].replace("=", "e")) if a[0] == "T" else a
    return {n: _map(b, fn) for n, b in lib.items()}, _map(page, fn)


def _abl_param_blanks(lib, page):
    fn = lambda a: ("P", a[2].strip(" \t\n"), a[2], a[3]) if a[0] == "P" else a
    return {n: _map(b, fn) for n, b in lib.items()}, _map(page, fn)


def _one_blank(k):
    return " ".join(k.split())


def _abl_key_blank_runs(lib, page):
    """Every run of blanks inside an argument / parameter name becomes one blank."""
    def one(raw, key):
        # only the run inside the name changes; blanks around the name stay as written
        k = key.strip(" \t\n")
        return (raw.replace(k, _one_blank(key)) if k in raw else _one_blank(key)), _one_blank(key)

    def fn(a):
        if a[0] == "P" and _one_blank(a[2]) != a[2].strip(" \t\n"):
            return ("P",) + one(a[1], a[2]) + (a[3],)
        if a[0] == "C":
            args = [(("named",) + one(x[1], x[2]) + x[3:])
                    if x[0] == "named" and _one_blank(x[2]) != x[2].strip(" \t\n") else x for x in a[3]]
            return ("C", a[1], a[2], args)
        return a
    return {n: _map(b, fn) for n, b in lib.items()}, _map(page, fn)


def _abl_only_in_noinc(lib, page):
    """Move every onlyinclude section out of the noinclude around it: <noinclude>a<onlyinclude>b</onlyinclude>c
    </noinclude> -> <noinclude>a</noinclude><onlyinclude>b</onlyinclude><noinclude>c</noinclude>."""
    def fn(a):
        if a[0] != "S":
            return a
        out = []
        for x in a[1]:
            if x[0] == "NOINC" and _has(x[1], "ONLYINC") and x[1][0] == "S":
                run = []
                for y in fn(x[1])[1]:
                    if _has(y, "ONLYINC"):
                        if run:
                            out.append(("NOINC", ("S", run)))
                            run = []
                        out.append(y)
                    else:
                        run.append(y)
                if run:
                    out.append(("NOINC", ("S", run)))
            else:
                out.append(x)
        return ("S", out)
    return {n: _map(b, fn) for n, b in lib.items()}, page


def _abl_name_calls(lib, page):
    """Replace every computed argument name by the text the reference computes for it (names are closed ASTs:
    text and calls only, so their value does not depend on the frame)."""
    r = Ref4(lib)

    def fn(a):
        if a[0] != "C" or not any(x[0] == "cnamed" for x in a[3]):
            return a
        args = []
        for x in a[3]:
            if x[0] == "cnamed":
                nm = r.ev(x[1], None)
                args.append(("named", nm, nm, x[2], x[3], x[4]))
            else:
                args.append(x)
        return ("C", a[1], a[2], args)
    return {n: _map(b, fn) for n, b in lib.items()}, _map(page, fn)


ABLATIONS = [("equals-from-expansion", "equals-in-text", _abl_equals),
             ("undefined-param-name-blanks", "param-name-blanks", _abl_param_blanks),
             ("name-blank-run-collapsed", "name-blank-run", _abl_key_blank_runs),
             ("onlyinclude-inside-noinclude", "include-tags-nested", _abl_only_in_noinc),
             ("call-in-arg-name", "call-in-arg-name", _abl_name_calls)]


PEELABLE = {"equals-from-expansion", "undefined-param-name-blanks", "name-blank-run-collapsed", "onlyinclude-inside-noinclude"}
CLASS_PREFIX = "expand!=reference/class="


NOT_PEELED = {"call-in-arg-name"}


def ablation_classes(lib, page, got, first_only=False, only=None):
    f = features(lib, page)
    out = []
    for name, feat, fn in ABLATIONS:
        if feat not in f or (only is not None and name not in only):
            continue
        try:
            l2, p2 = fn(lib, page)
        except Cycle:
            continue
        if (l2, p2) == (lib, page) or not (wellformed(p2) and all(wellformed(b) for b in l2.values())):
            continue
        if reference(l2, p2)[0] is not None and disagree(l2, p2) is None:
            if name == "call-in-arg-name":
                # what the computed name ran into
                run_real(lib, page)
                if LAST["loop-warning"]:       # the library is acyclic (the reference evaluated it)
                    name += ":false-template-loop"
                elif _numeric_computed_name(lib, page):
                    name += ":numeric-name"
            out.append(name)
            if first_only:
                break
    return out


def _numeric_computed_name(lib, page):
    r = Ref4(lib)
    hit = []

    def fn(a):
        if a[0] == "C":
            for x in a[3]:
                if x[0] == "cnamed":
                    try:
                        if isinstance(Ref4.key(r.ev(x[1], None)), int):
                            hit.append(1)
                    except Cycle:
                        pass
        return a
    for b in list(lib.values()) + [page]:
        _map(b, fn)
    return bool(hit)


def classify(lib, page, exp, got, cls):
    if got.startswith("<<EXC"):
        return "raises:" + got[6:-2]
    if got == "<<CPU-BUDGET>>":
        return "no-return-within-cpu-budget"
    # tagged classes are decided dynamically by the reference run of the (minimal) witness
    _, r = reference(lib, page)
    classes = sorted(k[6:] for k in r.rules if k.startswith("CLASS:"))
    if classes:
        return "expand!=reference/class=" + "+".join(classes)
    ab = ablation_classes(lib, page, got)
    if ab:
        return "expand!=reference/class=" + "+".join(ab)
    f = features(lib, page)
    return "expand!=reference/" + "+".join(sorted(f))


def run_shard(spec):
    import wikitextprocessor.core as core
    import wikitextprocessor.parserfns as PF
    from wikitextprocessor.common import add_newline_to_expansion
    obs = Obs()
    rng = random.Random(spec["seed"])
    anchors.watch({"core.Wtp._template_to_body": core.Wtp._template_to_body,
                   "core.expand_args": (core.Wtp.expand, "expand_args"),
                   "core.expand_recurse": (core.Wtp.expand, "expand_recurse"),
                   "common.add_newline_to_expansion": add_newline_to_expansion,
                   "parserfns.if_fn": PF.if_fn, "parserfns.ifeq_fn": PF.ifeq_fn, "parserfns.switch_fn": PF.switch_fn})
    minimised = 0
    reported = {}
    for i in range(spec["n"]):
        cls = CLASSES[i % len(CLASSES)]
        lib, page, tags = make_case(rng, cls)
        t0 = time.process_time()
        exp, r = reference(lib, page)
        if exp is None:
            obs.count("reference-cycle-skipped")
            continue
        if time.process_time() - t0 > 0.5 or len(exp) > 20000:
            # the call DAG multiplied: one expansion of such a case costs many seconds
            obs.count("oversized-case-skipped")
            continue
        got = run_real(lib, page)
        if LAST["loop-warning"]:
            obs.count("loop-warning-on-acyclic-library")
        obs.check("expand==reference")
        for k, v in r.rules.items():
            obs.count("rule." + k, v)
        in_class = any(k.startswith("CLASS:") for k in r.rules)
        for t in tags:
            obs.count("tag." + t)
        obs.count("class." + cls)
        src = G.render(page)
        nontriv = r.rules.get("template-expanded", 0) > 0 and (
            r.rules.get("param-defined", 0) + r.rules.get("param-default", 0) + r.rules.get("param-undefined-literal", 0)) > 0
        obs.case([src, {n: G.render(b) for n, b in lib.items()}], nontrivial=nontriv,
                 sample={"page": src[:200], "library": {n: G.render(b)[:120] for n, b in lib.items()}, "expected": exp[:200]})
        if got != exp:
            obs.count("disagreements")
            # Classes that were already minimised and reported three times in this shard are taken out of the case
            # (their trigger feature is ablated); what still disagrees then has another mechanism in it and goes to
            # the minimiser, what agrees is only counted.  Keeps a frequent class from using up the minimiser budget.
            lib1, page1, d = lib, page, (exp, got)
            peeled = []
            f = features(lib, page)
            for name, feat, fn in ABLATIONS:
                if name in PEELABLE and reported.get(name, 0) >= 3 and feat in f:
                    try:
                        l2, p2 = fn(lib1, page1)
                    except Cycle:
                        continue
                    lib1, page1 = l2, p2          # (these ablations keep the call structure: still acyclic, well-formed)
                    peeled.append(name)
            if peeled:
                d = disagree(lib1, page1)
                if d is None:
                    obs.count("disagreements-of-reported-class." + "+".join(peeled))
                    continue
            pre = (ablation_classes(lib1, page1, d[1], first_only=True, only=NOT_PEELED) or [None])[0]
            if pre is not None and reported.get(pre, 0) >= 3:
                obs.count("disagreements-of-reported-class." + pre)
                continue
            if minimised < 60:
                minimised += 1
                lib2, page2 = minimise(lib1, page1)
                d2 = disagree(lib2, page2)
                if d2 is None:   # should not happen; fall back to the unminimised case
                    lib2, page2, d2 = lib1, page1, d
                sig = classify(lib2, page2, d2[0], d2[1], cls)
                if sig.startswith(CLASS_PREFIX):
                    for label in sig[len(CLASS_PREFIX):].split("+"):
                        reported[label] = reported.get(label, 0) + 1
                obs.violation(sig, "page=%r lib=%r expected=%r got=%r" % (
                    G.render(page2), {n: G.render(b) for n, b in lib2.items()}, d2[0], d2[1]),
                    {"lib": lib2, "page": page2, "cls": cls})
            else:
                obs.count("disagreements-not-minimised")
    obs.anchors.update(anchors.snapshot())
    return obs


def replay(case):
    lib = {k: G.fromjson(v) for k, v in case["lib"].items()}
    page = G.fromjson(case["page"])
    exp, r = reference(lib, page)
    got = run_real(lib, page)
    out = {"page": G.render(page), "library": {n: G.render(b) for n, b in lib.items()}, "expected": exp, "got": got,
           "violations": []}
    if exp is not None and got != exp:
        out["violations"].append(classify(lib, page, exp, got, case.get("cls", "main")))
    return out
