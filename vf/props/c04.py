"""C04 -- template expansion agrees with the reference transclusion semantics.

Monitor: reference-model differential.  vf.ref.transclusion evaluates the AST the page and the
template bodies were rendered from; Wtp.expand runs on the rendered wikitext.  Disagreements are
delta-minimised over the AST; the mechanism signature is the feature set of the minimal witness.
"""
from __future__ import annotations

import random

from vf.core.obs import Obs, cpu_guard, CpuBudget, exc_sig, h64
from vf.core import anchors
from vf.gen import expansion as G
from vf.ref.transclusion import Ref, Cycle

LEVEL = "exploration"
RULE = ("(library, page) pairs: acyclic libraries of <=5 templates, bodies/pages from the expansion grammar "
        "(text | param ref with/without default | call with positional/named/numeric args | #if | #ifeq | #switch | "
        "include tags), depth <=4, alphabet [a-z0-9é語] + blank/tab/newline + list/table markers at value starts; "
        "classes: main, pos-trailing-newline (tagged), numeric-comparands (tagged). non-trivial = distinct pair with >=1 call "
        "resolving to an existing template and >=1 parameter reference evaluated by the reference")
ASSUMPTIONS = [
    "reference = the rules named in the property statement, evaluated on the generating AST (never parses wikitext)",
    "text alphabet contains no '=', '|', braces or brackets (they would change the argument structure)",
]
WALL = {"quick": 900, "thorough": 5400}
CLASSES = ["main", "main", "main", "main", "main", "main", "pos-trailing-newline", "numeric-comparands"]


def floors(tier):
    return {"oracle.expand==reference": 2000, "counters.rule.template-expanded": 100, "counters.rule.arg-named-trimmed": 100,
            "counters.rule.arg-positional-verbatim": 100, "counters.rule.later-duplicate-wins": 5,
            "counters.rule.param-undefined-literal": 20, "counters.rule.param-default": 20,
            "counters.rule.missing-template-link": 20, "counters.rule.newline-prepended": 20,
            "counters.rule.if-true": 10, "counters.rule.ifeq-eq": 5, "counters.rule.switch-match": 5,
            "counters.tag.noinclude": 5, "counters.tag.onlyinclude": 5, "counters.tag.includeonly": 5,
            "counters.tag.comment-with-inclusion-tag": 5,
            "anchors.core.Wtp._template_to_body": 100, "anchors.parserfns.if_fn": 10}


def shards(tier, seed):
    per = {"quick": 1500, "thorough": 22000}[tier]
    return [{"seed": seed * 1000 + i, "n": per} for i in range(16)]


def make_case(rng, cls):
    tags = set()
    cfg = G.Cfg()
    n = rng.randint(1, 5)
    lib = G.gen_library(rng, n, rng.randint(1, 3), cfg, tags)
    page = G.seq(rng, rng.randint(1, 4), list(lib), False, cfg, tags)
    if cls == "pos-trailing-newline":
        # put a trailing newline on some positional argument values
        def addnl(a):
            k = a[0]
            if k == "S":
                return ("S", [addnl(x) for x in a[1]])
            if k == "C":
                args = []
                for x in a[3]:
                    if x[0] == "pos" and rng.random() < 0.6:
                        args.append(("pos", ("S", list(addnl(x[1])[1]) + [("T", "\n")])))
                    elif x[0] == "pos":
                        args.append(("pos", addnl(x[1])))
                    else:
                        args.append(x[:3] + (addnl(x[3]),) + x[4:])
                return ("C", a[1], a[2], args)
            return a
        page = addnl(page)
    if cls == "numeric-comparands":
        page = ("S", page[1] + [("EQ", ("S", [("T", rng.choice(["1", "01", "1.0", "+1"]))]),
                                 ("S", [("T", rng.choice(["1", "01", "1.0"]))]), ("S", [("T", "same")]), ("S", [("T", "diff")]))])
    return lib, page, tags


_CTX = None


def shared_ctx():
    """One context per shard; the template namespace is reset for every case (rows deleted, page
    memo cleared) so that cases stay independent without paying a Wtp() construction each."""
    global _CTX
    if _CTX is None:
        from vf.core.wtp import fresh
        cm = fresh()
        _CTX = (cm, cm.__enter__())
        import atexit
        atexit.register(lambda: cm.__exit__(None, None, None))
    return _CTX[1]


def load_library(ctx, lib):
    ctx.db_conn.execute("DELETE FROM pages WHERE namespace_id = 10")
    for n, b in lib.items():
        ctx.add_page("Template:" + n, 10, G.render(b))
    try:
        type(ctx).get_page.cache_clear()
    except AttributeError:
        pass


def run_real(lib, page, kw=None):
    """Expand the rendered page with the rendered library on the real code."""
    ctx = shared_ctx()
    load_library(ctx, lib)
    ctx.start_page("Pg")
    try:
        with cpu_guard(20):
            return ctx.expand(G.render(page), **(kw or {}))
    except CpuBudget:
        return "<<CPU-BUDGET>>"
    except Exception as e:
        return "<<EXC " + exc_sig(e) + ">>"


def reference(lib, page):
    r = Ref(lib)
    try:
        return r.ev(page, None), r
    except Cycle:
        return None, r


def disagree(lib, page):
    exp, r = reference(lib, page)
    if exp is None:
        return None
    got = run_real(lib, page)
    if got != exp:
        return (exp, got)
    return None


def minimise(lib, page, budget=2500):
    """Greedy delta-minimisation over page and library ASTs while the disagreement persists."""
    steps = 0
    improved = True
    while improved and steps < budget:
        improved = False
        for cand in G.shrinks(page):
            steps += 1
            if steps > budget:
                break
            if disagree(lib, cand):
                page = cand
                improved = True
                break
        if improved:
            continue
        for name in list(lib):
            # drop the template altogether
            l2 = {k: v for k, v in lib.items() if k != name}
            steps += 1
            if disagree(l2, page):
                lib = l2
                improved = True
                break
            for cand in G.shrinks(lib[name]):
                steps += 1
                if steps > budget:
                    break
                l2 = dict(lib)
                l2[name] = cand
                if disagree(l2, page):
                    lib = l2
                    improved = True
                    break
            if improved or steps > budget:
                break
    return lib, page


def features(lib, page):
    f = set()

    def walk(a, in_body):
        k = a[0]
        if k == "T":
            s = a[1]
            if "\n" in s:
                f.add("nl-in-text")
            if s.startswith(tuple("*#:;")) or s.startswith("{|"):
                f.add("marker-start")
            if s != s.strip(" \t") and s.strip(" \t\n"):
                f.add("blank-edge")
        elif k == "S":
            for x in a[1]:
                walk(x, in_body)
        elif k == "P":
            f.add("param-default" if a[3] is not None else "param")
            if a[3] is not None:
                walk(a[3], in_body)
        elif k == "C":
            f.add("call-in-body" if in_body else "call")
            if a[2] == "missing":
                f.add("missing")
            for x in a[3]:
                if x[0] == "pos":
                    f.add("pos-arg")
                    walk(x[1], in_body)
                    if G.render(x[1]).endswith("\n"):
                        f.add("pos-trailing-nl")
                else:
                    f.add("named-arg")
                    if x[4] or x[5] or x[1] != x[2]:
                        f.add("named-pad")
                    walk(x[3], in_body)
        elif k in ("IF", "EQ"):
            f.add(k.lower())
            for x in a[1:]:
                walk(x, in_body)
        elif k == "SW":
            f.add("switch")
            walk(a[1], in_body)
            for c, v in a[2]:
                walk(v, in_body)
        elif k in ("NOINC", "ONLYINC", "INCONLY", "COMMENT"):
            f.add(k.lower())
            if k != "COMMENT":
                walk(a[1], in_body)
    walk(page, False)
    for b in lib.values():
        walk(b, True)
    return f


def classify(lib, page, exp, got, cls):
    if got.startswith("<<EXC"):
        return "raises:" + got[6:-2]
    if got == "<<CPU-BUDGET>>":
        return "no-return-within-cpu-budget"
    # tagged classes are decided dynamically by the reference run of the (minimal) witness
    _, r = reference(lib, page)
    classes = sorted(k[6:] for k in r.rules if k.startswith("CLASS:"))
    if classes:
        return "expand!=reference/class=" + "+".join(classes)
    f = features(lib, page)
    return "expand!=reference/" + "+".join(sorted(f))


def run_shard(spec):
    import wikitextprocessor.core as core
    import wikitextprocessor.parserfns as PF
    from wikitextprocessor.common import add_newline_to_expansion
    obs = Obs()
    rng = random.Random(spec["seed"])
    anchors.watch({"core.Wtp._template_to_body": core.Wtp._template_to_body,
                   "core.expand_args": (core.Wtp.expand, "expand_args"),
                   "core.expand_recurse": (core.Wtp.expand, "expand_recurse"),
                   "common.add_newline_to_expansion": add_newline_to_expansion,
                   "parserfns.if_fn": PF.if_fn, "parserfns.ifeq_fn": PF.ifeq_fn, "parserfns.switch_fn": PF.switch_fn})
    minimised = 0
    for i in range(spec["n"]):
        cls = CLASSES[i % len(CLASSES)]
        lib, page, tags = make_case(rng, cls)
        exp, r = reference(lib, page)
        if exp is None:
            obs.count("reference-cycle-skipped")
            continue
        got = run_real(lib, page)
        obs.check("expand==reference")
        for k, v in r.rules.items():
            obs.count("rule." + k, v)
        in_class = any(k.startswith("CLASS:") for k in r.rules)
        for t in tags:
            obs.count("tag." + t)
        obs.count("class." + cls)
        src = G.render(page)
        nontriv = r.rules.get("template-expanded", 0) > 0 and (
            r.rules.get("param-defined", 0) + r.rules.get("param-default", 0) + r.rules.get("param-undefined-literal", 0)) > 0
        obs.case([src, {n: G.render(b) for n, b in lib.items()}], nontrivial=nontriv,
                 sample={"page": src[:200], "library": {n: G.render(b)[:120] for n, b in lib.items()}, "expected": exp[:200]})
        if got != exp:
            obs.count("disagreements")
            if minimised < 60:
                minimised += 1
                lib2, page2 = minimise(lib, page)
                d = disagree(lib2, page2)
                if d is None:   # should not happen; fall back to the unminimised case
                    lib2, page2, d = lib, page, (exp, got)
                sig = classify(lib2, page2, d[0], d[1], cls)
                obs.violation(sig, "page=%r lib=%r expected=%r got=%r" % (
                    G.render(page2), {n: G.render(b) for n, b in lib2.items()}, d[0], d[1]),
                    {"lib": lib2, "page": page2, "cls": cls})
            else:
                obs.count("disagreements-not-minimised")
    obs.anchors.update(anchors.snapshot())
    return obs


def replay(case):
    lib = {k: G.fromjson(v) for k, v in case["lib"].items()}
    page = G.fromjson(case["page"])
    exp, r = reference(lib, page)
    got = run_real(lib, page)
    out = {"page": G.render(page), "library": {n: G.render(b) for n, b in lib.items()}, "expected": exp, "got": got,
           "violations": []}
    if exp is not None and got != exp:
        out["violations"].append(classify(lib, page, exp, got, case.get("cls", "main")))
    return out
