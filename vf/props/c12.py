"""C12 -- dump ingestion stores exactly the selected pages, byte for byte.

Workload: generated MediaWiki XML dumps (vf.gen.c12_dumps; lxml does the escaping, bz2 single- or multi-stream)
over every namespace of the language data of 6 lang_codes, hostile titles/bodies, every content model, redirects,
duplicates, documentation/testcases subpages, helper templates present/absent.
Monitor: the real process_dump() and, separately, parse_dump_xml()+add_default_templates() ingest the file into a
fresh Wtp; Wtp.get_all_pages() is compared (exact strings) with the table computed by vf.ref.c12_model from the
page list (rule of the property statement; template bodies by the independent scanner vf.ref.c12_includable, which
is itself cross-checked against the includable text the generator knows by construction).  For process_dump a
second Wtp opened on the same db file must see the same table.
Every disagreement is delta-minimised (context pages, dump options, page fields, title and body characters) and
signed by rule + the features of the minimal witness.
"""
from __future__ import annotations

import os
import random
import re
import shutil
import tempfile
import time

from vf.core.obs import Obs, cpu_guard, CpuBudget, exc_sig, h64
from vf.core import anchors
from vf.ref import c12_model as M
from vf.ref.c12_includable import includable
from vf.gen import c12_dumps as G

LEVEL = "exploration"
RULE = ("case = one generated .xml.bz2 dump (10-60 pages; per shard first 3 systematic sweeps: one page in EVERY namespace of the "
        "language data x rotating title shape / content model / redirect state for one of 6 lang_codes, then seeded random page "
        "sets: titles with Main:-like and namespace-like prefixes, colons, slashes, /documentation and /testcases (and near "
        "misses), unicode, quotes/ampersands, lower-case initials, up to 240 chars; bodies with & < > \" ' ]]> CR, edge blanks, "
        "empty, blank-only, up to 2.2 MB, include tags and comments; templates from an include-tag AST; 13 content models; "
        "redirects; duplicates (body / to-redirect / to-dropped-model / identical); helper templates present / redirect / "
        "dropped model / near-miss names; namespace selections {0,10,828} / all / none / random; export-0.10/0.11/no xmlns, "
        "siteinfo, revision metadata, indentation, multistream bz2, bzcat or python bz2) ingested by both routes; in ~55% of the "
        "dumps the ingesting context is NOT fresh: it first answers a seeded handful of page_exists/get_page/get_page_body/"
        "get_page_resolve_redirect/expand lookups (helper templates ! = (( )), titles the dump is about to define in up to 10 "
        "spellings, undefined titles) and in ~1/3 of those it has already ingested an earlier small dump into the same database "
        "(process_dump | parse_dump_xml+add_default_templates | parse_dump_xml alone; own helper templates, duplicates across the two "
        "dumps: last wins) followed by more lookups -- the expected table is unchanged by reads. "
        "distinct = page list + options; non-trivial = >=1 dump page stored AND >=1 excluded AND >=3 title shapes")
ASSUMPTIONS = [
    "a redirect page may be stored with body None or with its '#REDIRECT [[..]]' text (statement is silent); target, model, title are checked",
    "helper templates ((/)) may be stored as literal braces or as the equivalent character entities",
    "template bodies are restricted to nestings of comment/noinclude/includeonly/onlyinclude on which every reading of the "
    "MediaWiki transclusion rules agrees (no onlyinclude inside noinclude, no self-closing include tags, no stray closers)",
    "titles carry the local namespace prefix of the language data (as real dumps do); only namespaces present in the language data",
    "pages whose title ends in /documentation or contains /testcases are excluded in every namespace; kept models: wikitext, "
    "Scribunto, json -- redirect pages included (the statement excludes the other content models without exception)",
    "'templates reduced to their includable part' is read as: wikitext pages of the Template namespace; a json / Scribunto page "
    "that lives in the Template namespace keeps its exact text",
    "characters that XML 1.0 cannot carry are not generated; text nodes stay below libxml2's 10 MB limit (MediaWiki's page limit is 2 MiB)",
    "interwiki map fetch stubbed (no network)",
    "second ingestion into a non-empty store: rows of the earlier dump stay unless the later dump stores the same (title, ns) "
    "(last wins); lookups made by the context before/between ingestions are not judged (C10 does that), they must only not "
    "change what the ingestion stores",
]
WALL = {"quick": 900, "thorough": 5400}
ROUTES = ("process_dump", "parse_dump_xml")
CPU_S = 120


def shards(tier, seed):
    n = 16
    per = {"quick": 60, "thorough": 1200}[tier]
    per = int(os.environ.get("VERIF_C12_PER", per))
    return [{"seed": seed * 1000 + i, "n": per, "idx": i, "nsh": n, "tier": tier} for i in range(n)]


def floors(tier):
    nspairs = sum(len(G.nsdata(l)["names"]) for l in G.LANGS)
    f = {"oracle.table.process_dump": 300, "oracle.table.parse_dump_xml": 300, "oracle.table.second-connection": 50,
         "oracle.includable.selfcheck": 1000,
         "counters.excluded.ns-not-selected": 100, "counters.excluded.documentation": 50, "counters.excluded.testcases": 50,
         "counters.excluded.model": 50, "counters.excluded.model.redirect-page": 30, "counters.kept.template-ns-non-wikitext": 60,
         "counters.kept.template-ns-non-wikitext.with-include-markup": 20, "counters.kept.redirect": 50, "counters.kept.template": 200, "counters.kept.module": 100,
         "counters.dup.pairs": 50, "counters.dup.last-wins-decides": 20, "counters.default.provided-by-dump": 20,
         "counters.default.added": 500,
         "counters.opt.multistream": 20, "counters.opt.decomp=py": 20, "counters.opt.xmlns=none": 20, "counters.opt.xmlns=0.11": 20,
         "counters.body.large": 5, "counters.body.edge-ws": 100, "counters.body.cdata-end": 50, "counters.body.cr": 50,
         "counters.body.include-markup(non-template)": 100, "counters.tbody.onlyinclude": 30, "counters.tbody.noinclude": 100,
         "counters.title.mainlike-prefix": 20,
         "counters.ctx.used": 300, "counters.ctx.fresh": 300, "counters.ctx.reads": 1500, "counters.ctx.second-ingestion": 80,
         "counters.ctx.reads-between-dumps": 40, "counters.ctx.helper-looked-up-before-the-dump-that-defines-it": 15,
         "counters.ctx.read.page_exists": 200, "counters.ctx.read.get_page": 200, "counters.ctx.read.get_page_body": 200,
         "counters.ctx.read.expand": 100, "counters.dup.across-dumps": 40, "counters.dup.across-dumps.both-stored": 15,
         "sets.read_relations": 5, "anchors.Wtp.get_page": 2000,
         "sets.langs": len(G.LANGS), "sets.ns_covered": nspairs, "sets.models": 10, "sets.title_shapes": 14,
         "anchors.dumpparser.parse_dump_xml": 600, "anchors.dumpparser.process_dump": 300,
         "anchors.dumpparser.add_default_templates": 600, "anchors.Wtp.add_page": 10000, "anchors.Wtp._template_to_body": 1000,
         "anchors.dumpparser.decompress_dump_file": 600, "nontrivial": 250}
    return f


# ------------------------------------------------------------------ running the real ingestion

class Runner:
    def __init__(self):
        self.dir = tempfile.mkdtemp(prefix="c12_")
        self.nopath = os.path.join(self.dir, "emptybin")
        os.makedirs(self.nopath)
        self.n = 0
        self.runs = 0
        self.reads_done = 0
        self.read_raised = {}

    def close(self):
        shutil.rmtree(self.dir, ignore_errors=True)

    def do_reads(self, ctx, reads):
        """Lookups through the public read API; whatever they return (or raise) is not judged here."""
        if not reads:
            return
        try:
            with cpu_guard(30):
                for kind, title, ns in reads:
                    try:
                        if kind == "page_exists":
                            ctx.page_exists(title, ns)
                        elif kind == "get_page":
                            ctx.get_page(title, ns)
                        elif kind == "get_page_body":
                            ctx.get_page_body(title, ns)
                        elif kind == "resolve":
                            ctx.get_page_resolve_redirect(title, ns)
                        elif kind == "expand":
                            ctx.start_page("Reader page")
                            ctx.expand(title)
                        self.reads_done += 1
                    except Exception as e:
                        self.read_raised[type(e).__name__] = self.read_raised.get(type(e).__name__, 0) + 1
        except CpuBudget:
            self.read_raised["CpuBudget"] = self.read_raised.get("CpuBudget", 0) + 1

    def ingest(self, pages, opts, route, second=False):
        """-> {"stored": {(title, ns): rec} | None, "exc": sig | None, "msg", "second": table | None, "rows": n}"""
        import wikitextprocessor.dumpparser as DP
        from vf.core.wtp import fresh
        self.n += 1
        self.runs += 1
        d = os.path.join(self.dir, "r%d" % self.n)
        os.makedirs(d)
        path = os.path.join(d, "dump-pages-articles.xml.bz2")
        path0 = os.path.join(d, "earlier-pages-articles.xml.bz2")
        dbp = os.path.join(d, "pages.db")
        out = {"stored": None, "exc": None, "msg": "", "second": None, "raw": 0}
        oldpath = os.environ.get("PATH", "")
        early, main, pre = split_phases(pages, opts)

        def run(rt, pth, sel):
            if rt == "process_dump":
                DP.process_dump(ctx, pth, set(sel))
            else:
                DP.parse_dump_xml(ctx, pth, set(sel))
                if rt != "parse_only":
                    DP.add_default_templates(ctx)
        try:
            out["raw"] = G.write_dump(path, main, opts)
            if pre.get("earlier_route"):
                G.write_dump(path0, early, opts)
            if opts.get("decomp") == "py":
                os.environ["PATH"] = self.nopath
            with fresh(title=None, lang_code=opts["lang"], db_path=dbp) as ctx:
                try:
                    # a context that is not fresh: it answered lookups / ingested an earlier dump (never changes what
                    # the dump under test must leave in the store)
                    self.do_reads(ctx, pre.get("reads0"))
                    if pre.get("earlier_route"):
                        with cpu_guard(CPU_S):
                            run(pre["earlier_route"], path0, pre.get("earlier_selected") or ())
                        self.do_reads(ctx, pre.get("reads1"))
                    with cpu_guard(CPU_S):
                        run(route, path, opts["selected"])
                        out["stored"], dupe = read_store(ctx)
                    if dupe:
                        out["exc"], out["msg"] = "store-has-two-rows-for-one-key", repr(dupe)
                    if second and out["exc"] is None:
                        with fresh(title=None, lang_code=opts["lang"], db_path=dbp) as ctx2:
                            out["second"], _ = read_store(ctx2)
                except CpuBudget as e:
                    out["exc"], out["msg"] = "no-return-within-cpu-budget", str(e)[-500:]
                except Exception as e:  # ingestion of a well-formed dump must not raise
                    out["exc"], out["msg"] = "raises:" + exc_sig(e), repr(e)[:300]
        finally:
            os.environ["PATH"] = oldpath
            shutil.rmtree(d, ignore_errors=True)
        return out


def split_phases(pages, opts):
    """-> (pages of the earlier dump, pages of the dump under test, pre)"""
    pre = opts.get("pre") or {}
    if pre.get("earlier_route"):
        return [p for p in pages if p.get("phase") == 0], [p for p in pages if p.get("phase") != 0], pre
    return [], [p for p in pages if p.get("phase") != 0], pre


def read_store(ctx):
    stored, dupe = {}, None
    for p in ctx.get_all_pages():
        k = (p.title, p.namespace_id)
        if k in stored:
            dupe = k
        stored[k] = {"body": p.body, "model": p.model, "redirect": p.redirect_to}
    return stored, dupe


def expected(pages, opts):
    """Reference table for (earlier dump, reads, dump under test): reads change nothing; the earlier dump's table is the
    base on which the dump under test is applied (last wins)."""
    tp = G.nsdata(opts["lang"])["template"]
    early, main, pre = split_phases(pages, opts)
    if pre.get("earlier_route"):
        base, r0 = M.expected_table(early, pre.get("earlier_selected") or (), tp, defaults=pre["earlier_route"] != "parse_only")
        table, reasons = M.expected_table(main, opts["selected"], tp, base=base)
        reasons.update(r0)
        return table, reasons, early + main
    table, reasons = M.expected_table(main, opts["selected"], tp)
    return table, reasons, main


def evaluate(runner, pages, opts, route, second=False):
    """Real ingestion vs reference table -> list of diffs (vf.ref.c12_model.diff format)."""
    table, reasons, allp = expected(pages, opts)
    r = runner.ingest(pages, opts, route, second=second)
    if r["exc"] is not None:
        return [{"rule": r["exc"], "key": None, "uids": [], "detail": r["msg"], "exc": True}], table, r
    diffs = M.diff(allp, table, reasons, r["stored"])
    if second and r["second"] is not None and r["second"] != r["stored"]:
        a, b = r["stored"], r["second"]
        k = sorted(set(a) ^ set(b) or [k for k in a if a[k] != b.get(k)])[:1]
        diffs.append({"rule": "second-connection-sees-other-table", "key": k[0] if k else None, "uids": [],
                      "detail": "a second Wtp on the same db file sees %d pages, the ingesting one %d; first difference %r" % (len(b), len(a), k)})
    return diffs, table, r


# ------------------------------------------------------------------ features of a (minimal) witness

def split_title(lang, p):
    pre = G.prefix(lang, p["ns"])
    if pre and p["title"].startswith(pre):
        return pre, p["title"][len(pre):]
    return "", p["title"]


def title_feats(rest):
    f = []
    r = rest
    if r == "":
        return ["empty"]
    if r.startswith("Main:"):
        f.append("Main-prefix")
        r = r[5:]
    if "/testcases" in r:
        f.append("testcases")
        r = r.replace("/testcases", "")
    if "/documentation" in r:
        f.append("documentation")
        r = r.replace("/documentation", "")
    if ":" in r:
        f.append("colon")
    if "/" in r:
        f.append("slash")
    if re.search(r"[^\x00-\x7f]", r):
        f.append("non-ascii")
    if r[:1].islower():
        f.append("lower-initial")
    if re.search(r"[&\"'<>]", r):
        f.append("xml-special")
    if re.search(r"\s", r):
        f.append("space")
    if len(r) > 100:
        f.append("long")
    return f


def body_feats(t):
    f = []
    if t == "":
        return ["empty"]
    if t != t.strip():
        f.append("edge-ws")
    rest = re.sub(r"(?i)<!--|-->|<\s*/?\s*(noinclude|onlyinclude|includeonly)\s*/?>?", "", t)
    if rest != t:
        f.append("include-markup")   # comment opener or include tag: what the template reduction acts on
    if "]]>" in t:
        f.append("cdata-end")
    if re.search(r"[&\"'<>]", rest):
        f.append("xml-special")
    if "\r" in t:
        f.append("cr")
    if re.search(r"[^\x00-\x7f]", t):
        f.append("non-ascii")
    if len(t) > 60000:
        f.append("large")
    return f or ["other"]


def _norm_title(lang, t):
    t = t.replace("_", " ").strip()
    for i, name in G.nsdata(lang)["names"].items():
        if i and t.lower().startswith(name.lower() + ":"):
            t = t[len(name) + 1:]
            break
    return t.lower()


def read_relation(rd, pages, lang):
    """What a lookup made before the ingestion was about: helper-template | dump-page | other (+ :expand)."""
    kind, t, ns = rd
    suffix = ":expand" if kind == "expand" else ""
    if kind == "expand":
        names = re.findall(r"\{\{([^{}|]*)", t)
    else:
        names = [t]
    names = [_norm_title(lang, n) for n in names]
    if any(n in M.DEFAULTS for n in names):
        return "helper-template" + suffix
    have = {_norm_title(lang, p["title"]) for p in pages}
    if any(n in have for n in names):
        return "dump-page" + suffix
    return "other" + suffix


def ns_class(lang, ns):
    return G.nsdata(lang)["canon"].get(ns, str(ns))


# ------------------------------------------------------------------ delta minimisation

def _ddmin(seq, test, budget):
    seq = list(seq)
    n = 2
    while seq and budget[0] > 0:
        if len(seq) == 1:
            if test([]):
                seq = []
            break
        chunk = max(1, len(seq) // n)
        reduced = False
        for i in range(0, len(seq), chunk):
            cand = seq[:i] + seq[i + chunk:]
            if test(cand):
                seq, n, reduced = cand, max(n - 1, 2), True
                break
            if budget[0] <= 0:
                break
        if not reduced:
            if chunk == 1:
                break
            n = min(len(seq), n * 2)
    return seq


def _neutral(chars, neutral, test, limit=24):
    """Replace every character the failure does not depend on by a neutral one (stable feature tags)."""
    chars = list(chars)
    if len(chars) > limit:
        return chars
    for i, c in enumerate(chars):
        if c != neutral:
            cand = chars[:i] + [neutral] + chars[i + 1:]
            if test(cand):
                chars = cand
    return chars


PRIORITY = ["raises", "no-return", "store-has", "stored-under-other-title", "merged-into-other-title", "lost",
            "excluded-page-stored", "unexpected-page", "altered", "default-template", "second-connection"]


def _prio(rule):
    for i, p in enumerate(PRIORITY):
        if rule.startswith(p):
            return i
    return len(PRIORITY)


class Minimiser:
    """Reduce (pages, opts, route, target uid | rule) to a minimal witness and sign it."""

    def __init__(self, runner, budget=260):
        self.runner = runner
        self.budget = [budget]

    def bad(self, pages, opts, route, uid, rule0):
        # the known Main:-prefix mechanism is kept out of every minimisation step (see split_by_main_prefix)
        pages = neutralise_main_titles(pages)
        diffs, _, _ = evaluate(self.runner, pages, opts, route, second=rule0.startswith("second-connection"))
        if uid is None:
            # no page of the dump is involved (helper templates, phantom pages, exceptions): same family of rule
            fam = rule0.split("/")[0].split("(")[0].split(":")[0]
            hit = [d for d in diffs if d["rule"].startswith(fam)]
        else:
            hit = [d for d in diffs if uid in d["uids"] or d.get("exc")]
        hit.sort(key=lambda d: _prio(d["rule"]))
        return hit

    def minimise(self, pages, opts, route, uid, rule0, _nested=False):
        pages = [dict(p) for p in pages]
        opts = dict(opts)
        lang = opts["lang"]
        B = self.budget

        def test(pp, oo=None, rr=None):
            B[0] -= 1
            return bool(self.bad(pp, oo or opts, rr or route, uid, rule0))

        tgt = next((p for p in pages if p["uid"] == uid), None)
        # A. context pages
        if tgt is not None and test([tgt]):
            pages = [tgt]
        else:
            others = [p for p in pages if p["uid"] != uid]

            def with_t(sel):
                keep = {p["uid"] for p in sel} | {uid}
                return [p for p in pages if p["uid"] in keep]
            others = _ddmin(others, lambda sel: test(with_t(sel)), B)
            pages = with_t(others)
        # A+. blame: when another page of the witness is wrong all by itself, it is the culprit (e.g. a page that must not
        # be stored but is, and thereby overwrites / shadows the page the disagreement was first attributed to)
        if len(pages) > 1:
            for c in pages:
                if c["uid"] != uid:
                    B[0] -= 1
                    if self.bad([c], opts, route, c["uid"], rule0):
                        pages, uid = [c], c["uid"]
                        break
        # A++. big step first: the page reduced to its discrete attributes, alone, in a plain English dump, fresh context
        if len(pages) == 1 and pages[0]["uid"] == uid:
            p0 = pages[0]
            en = G.nsdata("en")["names"]
            plain_opts = {"lang": "en", "selected": sorted(en), "xmlns": "0.10", "siteinfo": False, "extras": False,
                          "indent": False, "splits": [], "decomp": "bzcat", "level": 9}
            red = p0.get("redirect") is not None
            q0 = {"uid": uid, "title": "P", "ns": 0, "model": p0["model"], "text": "x", "redirect": "R" if red else None}
            cands = [q0]
            if p0["ns"] != 0 and p0["ns"] in en:
                q1 = dict(q0, ns=p0["ns"], title=G.prefix("en", p0["ns"]) + "P")
                cands.append(q1)
                if not red:
                    cands.append(dict(q1, text=p0["text"]))
            elif not red:
                cands.append(dict(q0, text=p0["text"]))
            for q in cands:
                if test([q], plain_opts):
                    pages, opts, lang = [q], plain_opts, "en"
                    break
        # A'. what the context did before the ingestion
        pre = opts.get("pre")
        if pre:
            o2 = {k: v for k, v in opts.items() if k != "pre"}
            pp = [p for p in pages if p.get("phase") != 0]
            if test(pp, o2):
                pages, opts, pre = pp, o2, None
        if pre and pre.get("earlier_route"):
            allids = sorted(G.nsdata(lang)["names"])
            for k, v in (("earlier_route", "parse_dump_xml"), ("earlier_selected", allids)):
                if pre[k] != v:
                    o2 = dict(opts, pre=dict(pre, **{k: v}))
                    if test(pages, o2):
                        opts, pre = o2, o2["pre"]
            if opts["selected"] != allids:
                o2 = dict(opts, selected=allids)
                if test(pages, o2):
                    opts = o2
        if pre and pre.get("earlier_route") in ROUTES and any(p.get("phase") == 0 for p in pages):
            # the earlier ingestion alone (it becomes the ingestion under test)
            o2 = dict(opts, selected=list(pre["earlier_selected"]),
                      pre=dict(pre, earlier_route=None, earlier_selected=[], reads1=[]))
            pp = [{k: v for k, v in p.items() if k != "phase"} for p in pages if p.get("phase") == 0]
            if test(pp, o2, pre["earlier_route"]):
                pages, opts, pre, route = pp, o2, o2["pre"], pre["earlier_route"]
        if pre and pre.get("earlier_route"):
            # one dump instead of two (all pages in the dump under test, reads kept)
            o2 = dict(opts, pre=dict(pre, earlier_route=None, earlier_selected=[], reads0=list(pre["reads0"]) + list(pre["reads1"]), reads1=[]))
            pp = [{k: v for k, v in p.items() if k != "phase"} for p in pages]
            if test(pp, o2):
                pages, opts, pre = pp, o2, o2["pre"]
        if pre:
            for k in ("reads0", "reads1"):
                if pre[k]:
                    rs = _ddmin(pre[k], lambda sel, k=k: test(pages, dict(opts, pre=dict(pre, **{k: sel}))), B)
                    if rs != pre[k] and test(pages, dict(opts, pre=dict(pre, **{k: rs}))):
                        pre = dict(pre, **{k: rs})
                        opts = dict(opts, pre=pre)
                # the kind of lookup rarely matters: get_page is the neutral one
                for i, rd in enumerate(pre[k]):
                    if rd[0] != "get_page" and rd[0] != "expand":
                        rs = pre[k][:i] + [["get_page", rd[1], rd[2]]] + pre[k][i + 1:]
                        if test(pages, dict(opts, pre=dict(pre, **{k: rs}))):
                            pre = dict(pre, **{k: rs})
                            opts = dict(opts, pre=pre)
            if not pre["reads0"] and not pre["reads1"] and not pre.get("earlier_route"):
                opts = {k: v for k, v in opts.items() if k != "pre"}
                pre = None
        # B. dump options
        for k, v in (("decomp", "bzcat"), ("splits", []), ("xmlns", "0.10"), ("extras", False), ("siteinfo", False),
                     ("indent", False), ("level", 9), ("selected", sorted(G.nsdata(lang)["names"]))):
            if opts.get(k) != v:
                o2 = dict(opts)
                o2[k] = v
                if test(pages, o2):
                    opts = o2
        # C. fields of every remaining page (target last so that its tags are final)
        def edit(uids, **kw):
            return [dict(x, **kw) if x["uid"] in uids else x for x in pages]

        def attempt(uids, **kw):
            nonlocal pages
            pp = edit(uids, **kw)
            if pp != pages and test(pp):
                pages = pp
                return True
            return False

        def cur(u):
            return next(x for x in pages if x["uid"] == u)

        order = [p["uid"] for p in pages if p["uid"] != uid] + [p["uid"] for p in pages if p["uid"] == uid]
        for u in order:
            one = {u}
            for _pass in range(2):   # model and redirect state depend on each other (a redirect is kept whatever its model)
                if cur(u)["model"] != "wikitext":
                    # (a non-wikitext Template-namespace body may lie outside the unambiguous include-tag language: it can
                    # become a wikitext template only together with a plain body)
                    unsafe = cur(u)["ns"] == M.TEMPLATE_NS and cur(u).get("redirect") is None
                    ok = attempt(one, model="wikitext", text="x") if unsafe else attempt(one, model="wikitext")
                    if not ok and cur(u)["model"] in M.KEPT_MODELS:
                        attempt(one, model="json")   # one canonical non-wikitext kept model
                if cur(u).get("redirect") is not None:
                    if not attempt(one, redirect=None, text="x"):
                        attempt(one, redirect="R")
            # title / namespace: all pages of the witness that share this (title, ns) move together
            p = cur(u)
            group = {x["uid"] for x in pages if (x["title"], x["ns"]) == (p["title"], p["ns"])}
            pre, rest = split_title(lang, p)
            if p["ns"] != 0 and pre:
                if attempt(group, ns=0, title=rest):
                    pre = ""
            if rest != "P" and not attempt(group, title=pre + "P"):
                chars = _ddmin(list(rest), lambda cs: test(edit(group, title=pre + "".join(cs))), B)
                attempt(group, title=pre + "".join(chars))
                chars = _neutral(chars, "A", lambda cs: test(edit(group, title=pre + "".join(cs))))
                attempt(group, title=pre + "".join(chars))
            p = cur(u)
            if p.get("redirect") is None and p["text"] != "x":
                if not attempt(one, text="x"):
                    if p["ns"] == M.TEMPLATE_NS and p["model"] == "wikitext":
                        # keep the body inside the unambiguous include-tag language: whole-feature removers only
                        for fn in (lambda t: t.strip(), lambda t: re.sub(r"(?s)<!--.*?-->", "", t),
                                   lambda t: re.sub(r"(?is)<(/?)(noinclude|includeonly|onlyinclude)\s*>", r"(\1\2)", t),
                                   lambda t: re.sub(r"[&<>\"']", "-", t), lambda t: re.sub(r"[^\x00-\x7f]", "u", t),
                                   lambda t: t.replace("\r", ""), lambda t: re.sub(r"[A-Za-z0-9]+", "w", t)):
                            t2 = fn(cur(u)["text"])
                            if "<!--" in t2 and "-->" not in t2.split("<!--")[-1] and "<!--" not in cur(u)["text"]:
                                continue
                            attempt(one, text=t2)
                    else:
                        t = p["text"]
                        while len(t) > 4000 and B[0] > 0:   # halve big bodies first
                            h = len(t) // 2
                            if test(edit(one, text=t[:h])):
                                t = t[:h]
                            elif test(edit(one, text=t[h:])):
                                t = t[h:]
                            else:
                                break
                        # tokens first (markup, blanks, words), then characters
                        toks = re.findall(r"(?s)<!--|-->|</?\w+\s*/?>|\s+|\w+|.", t)
                        toks = _ddmin(toks, lambda ts: test(edit(one, text="".join(ts))), B)
                        attempt(one, text="".join(toks))
                        t = "".join(toks)
                        chars = list(t) if len(t) > 60 else _ddmin(list(t), lambda cs: test(edit(one, text="".join(cs))), B)
                        attempt(one, text="".join(chars))
                        chars = _neutral(chars, "x", lambda cs: test(edit(one, text="".join(cs))))
                        attempt(one, text="".join(chars))
        # C'. language of the dump (after pages were moved to the main namespace where possible)
        if lang != "en" and all(p["ns"] in G.nsdata("en")["names"] for p in pages):
            pp = []
            for p in pages:
                pre, rest = split_title(lang, p)
                q = dict(p)
                q["title"] = (G.prefix("en", p["ns"]) if pre else "") + rest
                if q.get("redirect") is not None:
                    q["redirect"] = "R"
                pp.append(q)
            o2 = dict(opts)
            o2["lang"] = "en"
            o2["selected"] = [i for i in opts["selected"] if i in G.nsdata("en")["names"]]
            if o2.get("pre"):
                def conv(rd):
                    kind, t, ns = rd
                    names = G.nsdata(lang)["names"]
                    for i in ([ns] if ns else sorted(names)):
                        nm = names.get(i)
                        if i and nm and t.lower().startswith(nm.lower() + ":") and i in G.nsdata("en")["names"]:
                            return [kind, G.nsdata("en")["names"][i] + t[len(nm):], ns]
                    return [kind, t, ns]
                o2["pre"] = dict(o2["pre"], reads0=[conv(r) for r in o2["pre"]["reads0"]], reads1=[conv(r) for r in o2["pre"]["reads1"]],
                                 earlier_selected=[i for i in o2["pre"]["earlier_selected"] if i in G.nsdata("en")["names"]])
            if test(pp, o2):
                pages, opts, lang = pp, o2, "en"
        pages = neutralise_main_titles(pages)
        if len(pages) > 1 and not _nested:
            for c in pages:
                B[0] -= 1
                if self.bad([c], opts, route, c["uid"], rule0):
                    return self.minimise([c], opts, route, c["uid"], rule0, _nested=True)
        # D. route
        other = ROUTES[1 - ROUTES.index(route)]
        route_tag = None if test(pages, opts, other) else route
        # E. sign
        hits = self.bad(pages, opts, route, uid, rule0)
        if not hits:
            return None
        d = hits[0]
        tags = []
        tgt = next((p for p in pages if p["uid"] == uid), None)
        if tgt is None and d["uids"]:
            tgt = next((p for p in pages if p["uid"] == d["uids"][0]), None)
        if tgt is not None:
            pre, rest = split_title(lang, tgt)
            if tgt["ns"] != 0:
                tags.append("ns=" + ns_class(lang, tgt["ns"]))
            if tgt["ns"] not in opts["selected"]:
                tags.append("ns-not-selected")
            if tgt.get("redirect") is not None:
                tags.append("redirect")
            if tgt["model"] != "wikitext":
                tags.append("model=" + (tgt["model"] if tgt["model"] in M.KEPT_MODELS else "(not wikitext/Scribunto/json)"))
            if rest != "P":
                tags += ["title:" + f for f in title_feats(rest)]
            if tgt.get("redirect") is None and tgt["text"] != "x":
                tags += ["body:" + f for f in body_feats(tgt["text"])]
            if tgt.get("phase") == 0 and (opts.get("pre") or {}).get("earlier_route"):
                tags.append("page-of-earlier-dump")
        ctx = [p for p in pages if tgt is None or p["uid"] != tgt["uid"]]
        if ctx:
            rel = set()
            for c in ctx:
                e = "earlier-" if c.get("phase") == 0 and (opts.get("pre") or {}).get("earlier_route") else ""
                if tgt is None:
                    rel.add(e + "page")
                elif (c["title"], c["ns"]) == (tgt["title"], tgt["ns"]):
                    rel.add(e + "same-title")
                elif c["title"].endswith(tgt["title"]) or tgt["title"].endswith(c["title"]):
                    rel.add(e + "title-suffix")
                else:
                    rel.add(e + "other")
            tags.append("with:" + "+".join(sorted(rel)))
        pre = opts.get("pre") or {}
        if pre.get("earlier_route"):
            tags.append("second-ingestion" + ("(earlier=%s)" % pre["earlier_route"] if pre["earlier_route"] != "parse_dump_xml" else ""))
        for k, name in (("reads0", "after-read"), ("reads1", "after-read-between-dumps")):
            if pre.get(k):
                tags.append("%s(%s)" % (name, "+".join(sorted({read_relation(rd, pages, lang) for rd in pre[k]}))))
        if opts["lang"] != "en":
            tags.append("lang=" + opts["lang"])
        for k, dflt in (("xmlns", "0.10"), ("decomp", "bzcat")):
            if opts.get(k) != dflt:
                tags.append("%s=%s" % (k, opts[k]))
        for k in ("extras", "siteinfo", "indent"):
            if opts.get(k):
                tags.append(k)
        if opts.get("splits"):
            tags.append("multistream")
        if route_tag:
            tags.append("route=" + route_tag)
        sig = d["rule"] + ("/" + ",".join(tags) if tags else "")
        # renumber so that the same minimal witness is the same JSON whatever dump it came from
        renum = {p["uid"]: i for i, p in enumerate(pages)}
        pages = [dict(p, uid=renum[p["uid"]]) for p in pages]
        return {"sig": sig, "msg": d["detail"],
                "case": {"pages": pages, "opts": opts, "route": route, "uid": renum.get(uid), "rule": d["rule"]}}


# ------------------------------------------------------------------ the known Main:-prefix mechanism

# Mechanism signature of the one defect of the pinned tree: add_page() strips a leading "Main:" from every title.
# A disagreement IS that mechanism when it disappears once every main-namespace title that starts with "Main:" is
# renamed (the prefix's colon replaced) in the dump -- whatever rule variant (stored under other title / merged / lost /
# unexpected page / altered partner) and whatever other features the pages have.  Disagreements that persist on the
# renamed dump are minimised and signed ON THE RENAMED DUMP, so this mechanism can neither mask nor colour them.
MAIN_PREFIX_SIG = "stored-under-other-title(prefix-dropped)/title:Main-prefix"


def has_main_titles(pages):
    return any(p["ns"] == 0 and p["title"].startswith("Main:") for p in pages)


def neutralise_main_titles(pages):
    out = []
    for p in pages:
        if p["ns"] == 0 and p["title"].startswith("Main:"):
            p = dict(p, title="Main-" + p["title"][5:])   # "Main:Main:x" -> "Main-Main:x": no prefix left at the start
        out.append(p)
    return out


def split_by_main_prefix(runner, diffs, pages, opts, route, second):
    """-> (disagreements explained by the Main:-prefix mechanism, (pages2, disagreements that persist without it))"""
    if not diffs or not has_main_titles(pages):
        return [], (pages, diffs)
    pages2 = neutralise_main_titles(pages)
    diffs2, _, _ = evaluate(runner, pages2, opts, route, second=second)
    explained = []
    for d in diffs:
        if d.get("exc"):
            gone = not any(x.get("exc") for x in diffs2)
        elif d["uids"]:
            gone = not any(d["uids"][0] in x["uids"] for x in diffs2)
        else:
            gone = not any(x["rule"] == d["rule"] and x["key"] == d["key"] for x in diffs2)
        if gone:
            explained.append(d)
    return explained, (pages2, diffs2)


# ------------------------------------------------------------------ one dump

class Monitor:
    def __init__(self, obs, tier="quick"):
        import wikitextprocessor.dumpparser as DP
        from wikitextprocessor import Wtp
        self.obs = obs
        self.runner = Runner()
        self.memo = {}
        self.jmemo = {}
        self.main_case = None
        self.min_spent = 0.0
        self.min_budget = {"quick": 150.0, "thorough": 1500.0}.get(tier, 150.0)
        anchors.watch({"dumpparser.parse_dump_xml": DP.parse_dump_xml, "dumpparser.process_dump": DP.process_dump,
                       "dumpparser.add_default_templates": DP.add_default_templates,
                       "dumpparser.decompress_dump_file": DP.decompress_dump_file,
                       "dumpparser.analyze_and_overwrite_pages": DP.analyze_and_overwrite_pages,
                       "Wtp.add_page": Wtp.add_page, "Wtp._template_to_body": Wtp._template_to_body,
                       "Wtp.get_all_pages": Wtp.get_all_pages, "Wtp.page_exists": Wtp.page_exists,
                       "Wtp.get_page": Wtp.get_page, "Wtp.get_page_body": Wtp.get_page_body, "Wtp.expand": Wtp.expand})

    def close(self):
        self.runner.close()

    def coarse(self, d, pages, opts, info, route):
        """Memo key of a disagreement: rule + the raw features that can matter for it."""
        uid = d["uids"][0] if d["uids"] else None
        p = next((x for x in pages if x["uid"] == uid), None)
        pre = opts.get("pre") or {}
        used = (bool(pre.get("reads0") or pre.get("reads1")), bool(pre.get("earlier_route")))
        if p is None:
            return (d["rule"], route, used)
        fe = info["feats"].get(uid, set())
        _, rest = split_title(opts["lang"], p)
        key = [d["rule"], d.get("hint", ""), ns_class(opts["lang"], p["ns"]) if p["ns"] in (0, 10, 828) else "other-ns", p["model"],
               p.get("redirect") is not None] + sorted(f for f in fe if f.startswith(("title:", "dup:"))) + title_feats(rest)
        if d["rule"].startswith("altered"):
            key += sorted(f for f in fe if f.startswith(("body:", "tbody:")))
        key += [used, p.get("phase")] + sorted(f for f in fe if f.startswith("xdup:"))
        return tuple(key)

    def main_prefix_case(self, pages, opts, route):
        """A small witness of the Main:-prefix mechanism taken from this dump (checked once per shard)."""
        if self.main_case is None:
            w = [{"uid": 0, "title": "Main:baz", "ns": 0, "model": "wikitext", "text": "x", "redirect": None}]
            o = {"lang": "en", "selected": sorted(G.nsdata("en")["names"]), "xmlns": "0.10", "siteinfo": False, "extras": False,
                 "indent": False, "splits": [], "decomp": "bzcat", "level": 9}
            d, _, _ = evaluate(self.runner, w, o, route)
            if d and split_by_main_prefix(self.runner, d, w, o, route, False)[0]:
                self.main_case = {"pages": w, "opts": o, "route": route, "uid": 0, "rule": d[0]["rule"]}
            else:
                small = [q if len(q["text"]) < 2000 else dict(q, text=q["text"][:2000]) for q in pages]
                return {"pages": small, "opts": opts, "route": route, "uid": None, "rule": "main-prefix"}
        return self.main_case

    PLAIN = {"lang": "en", "xmlns": "0.10", "siteinfo": False, "extras": False, "indent": False, "splits": [], "decomp": "bzcat", "level": 9}

    def quick_sign(self, d, pages, opts, route):
        """Cheap path before the full minimisation: a page involved in the disagreement (or sharing its title) reduced to
        its discrete attributes (namespace, model, redirect or not; title 'P'; body 'x', then its own body), alone, in a
        plain English dump ingested by a fresh context.  When that still disagrees with the reference, the page is wrong
        all by itself and is minimised / signed from there (memoised on the discrete attributes)."""
        if not d["uids"]:
            return None
        lang = opts["lang"]
        en = G.nsdata("en")["names"]
        plain = dict(self.PLAIN, selected=sorted(en))
        inv = [p for p in pages if p["uid"] in d["uids"]]
        keys = {(p["title"], p["ns"]) for p in inv}
        inv += [p for p in pages if (p["title"], p["ns"]) in keys and p not in inv]
        mini = Minimiser(self.runner)
        for p in inv:
            red = p.get("redirect") is not None
            ns = p["ns"] if p["ns"] in en else 0
            q0 = {"uid": 0, "title": "P", "ns": 0, "model": p["model"], "text": "x", "redirect": "R" if red else None}
            cands = [q0] + ([dict(q0, ns=ns, title=G.prefix("en", ns) + "P")] if ns else [])
            for q in cands:
                key = ("jump", q["ns"], q["model"] if q["model"] in M.KEPT_MODELS else "(excluded model)", red)
                if key not in self.jmemo:
                    hits = mini.bad([q], plain, route, 0, d["rule"])
                    self.jmemo[key] = Minimiser(self.runner).minimise([q], plain, route, 0, hits[0]["rule"]) if hits else None
                    if hits:
                        self.obs.count("minimisations")
                if self.jmemo[key]:
                    return self.jmemo[key]
            if not red and p["text"] != "x":
                q = dict(cands[-1], text=p["text"])
                hits = mini.bad([q], plain, route, 0, d["rule"])
                if hits:
                    key = ("jump-body", hits[0]["rule"], hits[0].get("hint"), q["ns"], q["model"], tuple(f for f in body_feats(q["text"]) if f in ("include-markup", "edge-ws", "empty", "large")))
                    if key not in self.jmemo:
                        self.obs.count("minimisations")
                        self.jmemo[key] = Minimiser(self.runner).minimise([q], plain, route, 0, hits[0]["rule"])
                    if self.jmemo[key]:
                        return self.jmemo[key]
        return None

    def handle(self, diffs, pages, opts, info, route, gen, second=False):
        explained, (pages2, diffs) = split_by_main_prefix(self.runner, diffs, pages, opts, route, second)
        for d in explained:
            self.obs.count("disagreements-explained-by-Main-prefix")
            self.obs.violation(MAIN_PREFIX_SIG, d["detail"] + " || disappears when the main-namespace titles starting with 'Main:' are renamed",
                               self.main_prefix_case(pages, opts, route))
        pages = pages2   # what persists is minimised and signed on the dump WITHOUT such titles
        for d in diffs:
            ck = self.coarse(d, pages, opts, info, route)
            res = self.memo.get(ck)
            if res is None and self.min_spent <= self.min_budget:
                t0 = time.time()
                res = self.quick_sign(d, pages, opts, route)
                self.min_spent += time.time() - t0
                if res is not None:
                    self.obs.count("disagreements-signed-by-quick-path")
            if res is None and self.min_spent > self.min_budget:
                # only on trees with very many different disagreements: report the rest un-minimised
                self.obs.count("disagreements-reported-unminimised")
                small = [p if len(p["text"]) < 5000 else dict(p, text=p["text"][:5000]) for p in pages]
                self.obs.violation(d["rule"] + "/unminimised(minimisation time budget of the shard used up)", d["detail"],
                                   {"pages": small, "opts": opts, "route": route, "uid": d["uids"][0] if d["uids"] else None,
                                    "rule": d["rule"]})
                continue
            if res is None:
                t0 = time.time()
                self.obs.count("minimisations")
                mini = Minimiser(self.runner)
                uid = d["uids"][0] if d["uids"] else None
                res = mini.minimise(pages, opts, route, uid, d["rule"])
                if res is None:   # not reproducible on re-ingestion of the very same dump: report as is
                    res = {"sig": d["rule"] + "/not-reproduced-on-rerun", "msg": d["detail"],
                           "case": {"pages": pages, "opts": opts, "route": route, "uid": uid, "rule": d["rule"]}}
                self.obs.maxi("minimisation_runs_max", 260 - mini.budget[0])
                self.memo[ck] = res
                self.min_spent += time.time() - t0
            self.obs.violation(res["sig"], res["msg"] + " || first seen as: " + d["detail"][:200], res["case"])

    def check_dump(self, pages, opts, info, gen, second):
        obs = self.obs
        lang = opts["lang"]
        nd = G.nsdata(lang)
        table, reasons, allp = expected(pages, opts)
        # --- what the workload contains (observation counters)
        shapes = set()
        seen = {}
        pre = opts.get("pre") or {}
        reads = list(pre.get("reads0") or ()) + list(pre.get("reads1") or ())
        obs.count("ctx.used" if pre else "ctx.fresh")
        if pre:
            obs.count("ctx.reads", len(reads))
            for rd in reads:
                obs.count("ctx.read." + rd[0])
                obs.add("read_relations", read_relation(rd, allp, lang))
            if pre.get("earlier_route"):
                obs.count("ctx.second-ingestion")
                obs.count("ctx.earlier_route=" + pre["earlier_route"])
                if pre.get("reads1"):
                    obs.count("ctx.reads-between-dumps")
            # the dump under test defines a helper template that the context looked up (and did not find) before
            helper_keys = {(nd["template"] + ":" + n, 10) for n in M.DEFAULTS}
            asked0 = {(rd[1], rd[2]) for rd in pre.get("reads0") or () if rd[0] != "expand"} & helper_keys
            own = {(p["title"], p["ns"]) for p in allp if p.get("phase") != 0 and reasons[p["uid"]] is None} & helper_keys
            if asked0 & own:
                obs.count("ctx.helper-looked-up-before-the-dump-that-defines-it")
        for p in allp:
            r = reasons[p["uid"]]
            fe = info["feats"].get(p["uid"], set())
            obs.count("pages.written")
            obs.add("ns_covered", "%s:%d" % (lang, p["ns"]))
            obs.add("models", p["model"] or "(empty)")
            for f in fe:
                if f.startswith("title:"):
                    shapes.add(f)
                    obs.add("title_shapes", f[6:])
                    obs.count("title." + f[6:])
                elif f.startswith("body:"):
                    obs.count("body." + f[5:] + ("(non-template)" if f == "body:include-markup" else ""))
                elif f.startswith("tbody:"):
                    obs.count("tbody." + f[6:])
                elif f.startswith("dup:"):
                    obs.count("dup." + f[4:])
                elif f.startswith("xdup:"):
                    obs.count("dup.across-dumps." + f[5:])
            if r is None:
                obs.count("pages.expected-stored")
                obs.count("kept.redirect" if p.get("redirect") is not None else
                          "kept.template" if p["ns"] == 10 else "kept.module" if p["ns"] == nd["module_id"] else
                          "kept.main" if p["ns"] == 0 else "kept.other-ns")
                obs.count("kept.model=" + p["model"])
                if p["ns"] == 10 and p["model"] != "wikitext" and p.get("redirect") is None:
                    obs.count("kept.template-ns-non-wikitext")
                    if "body:include-markup" in fe:
                        obs.count("kept.template-ns-non-wikitext.with-include-markup")
            else:
                obs.count("excluded." + r)
                if r == "model" and p.get("redirect") is not None:
                    obs.count("excluded.model.redirect-page")
            k = (p["title"], p["ns"])
            if k in seen and seen[k].get("phase") == 0 and p.get("phase") != 0:
                obs.count("dup.across-dumps")
                if r is None and reasons[seen[k]["uid"]] is None:
                    obs.count("dup.across-dumps.both-stored")
            if k in seen:
                obs.count("dup.pairs")
                if r is None and reasons[seen[k]["uid"]] is None and (seen[k]["text"], seen[k]["redirect"]) != (p["text"], p["redirect"]):
                    obs.count("dup.last-wins-decides")
                if r is not None and reasons[seen[k]["uid"]] is None:
                    obs.count("dup.later-one-excluded")
            seen[k] = p
            obs.maxi("body_bytes_max", len(p["text"].encode("utf-8")))
            obs.maxi("title_chars_max", len(p["title"]))
        for k, e in table.items():
            if e["default"] is not None:
                obs.count("default.added")
        for name in M.DEFAULTS:
            k = (nd["template"] + ":" + name, 10)
            if table[k]["default"] is None:
                obs.count("default.provided-by-dump")
        obs.count("default.situation=" + info.get("default_situation", "?"))
        obs.add("langs", lang)
        obs.count("opt.xmlns=" + opts["xmlns"])
        obs.count("opt.decomp=" + opts["decomp"])
        for k in ("siteinfo", "extras", "indent"):
            if opts.get(k):
                obs.count("opt." + k)
        if opts.get("splits"):
            obs.count("opt.multistream")
        if not opts["selected"]:
            obs.count("opt.no-namespace-selected")
        obs.count("gen." + gen)
        obs.count("dumps")
        nstored = sum(1 for e in table.values() if e["default"] is None)
        nexcl = sum(1 for r in reasons.values() if r is not None)
        key = [[p["title"], p["ns"], p["model"], h64(p["text"]), p["redirect"], p.get("phase")] for p in pages] + [opts]
        obs.case(key, nontrivial=(nstored >= 1 and nexcl >= 1 and len(shapes) >= 3),
                 sample={"gen": gen, "opts": opts, "npages": len(pages), "expected_stored": nstored, "excluded": nexcl,
                         "titles": [p["title"] for p in pages[:8]]})
        # --- the real ingestion, both routes
        total = 0
        for route in ROUTES:
            sec = second and route == "process_dump"
            diffs, _, r = evaluate(self.runner, pages, opts, route, second=sec)
            obs.check("table." + route)
            if sec and r["second"] is not None:
                obs.check("table.second-connection")
            if r["stored"] is not None:
                obs.count("pages.stored." + route, len(r["stored"]))
                obs.check("page-records-compared", len(set(r["stored"]) | set(table)))
            obs.maxi("dump_xml_bytes_max", r["raw"])
            if diffs:
                obs.count("dumps-with-disagreement." + route)
                self.handle(diffs, pages, opts, info, route, gen, second=sec)
            total += len(diffs)
        return total


def selfcheck(obs, pages, info):
    """The scanner must agree with the includable text known by construction; otherwise the page is
    taken out of the template language (its body becomes a plain word) and the event is noted."""
    for p in pages:
        inc = info["incl"].get(p["uid"])
        if inc is None:
            continue
        obs.check("includable.selfcheck")
        if includable(p["text"]) != inc:
            obs.count("includable.selfcheck-disagree")
            obs.notes.append("includable scanner != construction on %r" % p["text"][:120])
            p["text"] = "T"


def run_shard(spec):
    obs = Obs()
    rng = random.Random(spec["seed"])
    mon = Monitor(obs, spec.get("tier", "quick"))
    try:
        i = spec["idx"]
        # systematic part: this shard's language, all three selection variants
        lang = G.LANGS[i % len(G.LANGS)]
        for variant in range(3):
            pages, opts, info = G.sweep_dump(rng, lang, variant + 3 * (i // len(G.LANGS)))
            if variant == 1:
                pages = G.used_context(rng, lang, pages, opts, info, p_used=1.0, p_earlier=0.5)
            selfcheck(obs, pages, info)
            mon.check_dump(pages, opts, info, "sweep", second=True)
        for k in range(spec["n"]):
            pages, opts, info = G.random_dump(rng, npages=rng.choice([12, 40, 40, 40]))
            pages = G.used_context(rng, opts["lang"], pages, opts, info)
            selfcheck(obs, pages, info)
            mon.check_dump(pages, opts, info, "random", second=(k % 3 == 0))
    finally:
        mon.close()
    obs.anchors.update(anchors.snapshot())
    obs.count("ingestions", mon.runner.runs)
    obs.count("ctx.reads-executed(incl. minimisation)", mon.runner.reads_done)
    for k, v in mon.runner.read_raised.items():
        obs.count("ctx.read-raised:" + k, v)
    return obs


def replay(case):
    obs = Obs()
    mon = Monitor(obs)
    try:
        pages, opts = case["pages"], case["opts"]
        out = []
        for route in ([case["route"]] if case.get("route") else ROUTES):
            diffs, table, r = evaluate(mon.runner, pages, opts, route, second=True)
            explained, (pages2, diffs) = split_by_main_prefix(mon.runner, diffs, pages, opts, route, True)
            for d in explained:
                out.append((MAIN_PREFIX_SIG, d["detail"]))
            for d in diffs:
                uid = d["uids"][0] if d["uids"] else None
                res = Minimiser(mon.runner).minimise(pages2, opts, route, uid, d["rule"])
                if res is None:
                    out.append((d["rule"] + "/not-reproduced-on-rerun", d["detail"]))
                else:
                    out.append((res["sig"], res["msg"]))
            stored = r["stored"]
        return {"violations": out,
                "stored": sorted([k[0], k[1], M._short(v)] for k, v in (stored or {}).items())[:50],
                "expected": sorted([k[0], k[1], M._short({"body": v["body"], "model": v["model"], "redirect": v["redirect"]})]
                                   for k, v in table.items())[:50]}
    finally:
        mon.close()
