"""C11 -- restoring the page database from its backup is crash-safe.

Fault enumeration with real processes and real files:
  * a generated scenario (chain of processes on one db path: create / commit / backup_db / override flow /
    overwrite / close / reopen) is first run once with sys.settrace to list its kill points;
  * for every kill point k a child forked from this (package-imported, db-never-opened) process runs the
    victim script and dies with os._exit(137) right before traced line k (or before op k); in the thorough
    tier the victim is also run as a separate interpreter under
    `strace -e inject=<syscall>:signal=SIGKILL:when=k` for every file-mutating syscall;
  * the files the dead process left are then opened by a *fresh* process with the real Wtp (twice: the
    first open performs the restore), PRAGMA integrity_check is run and every row is read with
    get_all_pages();
  * vf.ref.c11_restore (state machine over the public-level event marks of the scenario, written from the
    property statement) says which contents are allowed at that point.
On a disagreement the saved post-kill files are re-verified with single files removed (stale -wal/-shm,
the backup file): the file whose removal makes the disagreement disappear names the mechanism in the sig.
Every scenario process also reads all rows right after its own Wtp() returned (digest mark): when that
content is already not allowed (the scenario's own reopen restored wrongly) the case gets the signature of
the kill point "before the victim started" and its later steps are not judged.  A victim that is not
killed and does not finish (twice, 60 s each) is reported as scenario-step-hangs.
"""
from __future__ import annotations

import json
import os
import random
import select
import shutil
import signal
import subprocess
import sys
import tempfile
import time

from vf.core.obs import Obs, exc_sig
from vf.core import anchors
from vf.gen import c11_scn as S
from vf.ref.c11_restore import RestoreModel, ModelError, row as mrow, key as mkey

LEVEL = "fault_enumeration"
RULE = ("case = (generated scenario, kill point): scenarios are seeded chains of processes on one database path over 9 kinds "
        "(override flow via analyze_and_overwrite_pages / process_dump with JSON and old-format inputs, plain backup_db + add_page "
        "overwrites, restore itself killed, second backup, no backup, re-run of the override flow, backup_db / override flow while a "
        "second process holds an older read snapshot (BEGIN + SELECT) on the database) x start state "
        "(cleanly closed / killed with un-checkpointed WAL / both) x clean close or not x database file name (pages.db; every 4th scenario "
        "one of pages[en].db, p*g?s.db, 'a b.db', a non-ASCII name, a leading dash, a percent sign; a suffix-less name) x location "
        "(every 10th scenario: database directly in the processes' temp dir; every 10th: the database path is a symbolic link to a "
        "file in another directory), random page sets (5 namespaces, "
        "redirects, bodies 0-30 kB) + bulk-overwrite kinds (200-260 pages of 12-20 kB, all overwritten by ONE overwrite_pages() "
        "transaction of 3-6 MB, with / without a preceding backup; kill points SAMPLED: 14 spread over the overwrite loop, the 8 "
        "events around its commit line, every backup_db/close_db_conn line, every op boundary); kill points of the other kinds = EVERY traced source line of create_db, backup_db, close_db_conn, add_page, "
        "overwrite_pages, overwrite_single_page, analyze_and_overwrite_pages, add_default_templates, process_dump, "
        "init_wikidata_cache + every op boundary of the victim script + run to completion; thorough adds every "
        "pwrite64/write/rename/unlink/ftruncate/fsync/fdatasync call of the victim (strace SIGKILL injection). "
        "non-trivial = the victim really died at the requested point (exit 137 / SIGKILL) or ran to completion, and the "
        "fresh-process verifier evaluated the allowed-content oracle")
ASSUMPTIONS = [
    "crash = process kill (os._exit / SIGKILL): files and the OS page cache survive; power loss is out of scope (as in the statement)",
    "observation hooks in the scenario process only (sqlite3.connect factory whose commit() writes begin/end marks, wrappers around "
    "Wtp.backup_db / Wtp.add_page): they tell the reference model which public-level step was in flight; the verifier process has no hooks",
    "after a restore that is not followed by a new backup both readings of the statement are accepted (restored snapshot or last committed content)",
    "while a FIRST backup_db() is in flight the original content, the original + its own commit and the new snapshot are accepted; "
    "while a later backup_db() is in flight (a completed backup exists) only that previous backup is accepted, and the new snapshot "
    "only when the backup file the dead process left, opened on its own, already holds it (the new backup has been installed)",
    "location dimension: in every 10th scenario TMPDIR of the victim and of the reopening processes is the directory of the "
    "database (tempfile.tempdir set in those processes; the setup processes ran with another TMPDIR); a disagreement there is "
    "re-run without that setting to name the cause",
    "a reader process a dead victim leaves behind ends by itself (pipe EOF); the verifier starts after it has gone, so "
    "the files it sees are stable",
    "delta-minimisation of a disagreement: post-kill files re-verified without -wal/-shm, without the backup file, renamed to "
    "pages.db*; the same kill point re-run without the concurrent reader",
    "page bodies contain no '<' (template bodies are stored verbatim then) so the expected rows are exactly the rows asked for",
    "a scenario step (not killed) that raises or does not return within 2 x 60 s is reported as a violation of its own "
    "(scenario-step-raises / scenario-step-hangs): the statement presupposes that backup / overwrite / close / reopen complete",
    "kill points are exhaustive per generated scenario (every traced line, every op boundary; thorough: every listed syscall); "
    "the scenarios themselves are a seeded sample (quick 36, thorough 126); the bulk-overwrite scenarios (quick 3, thorough 12) have "
    "~10 000 line events each and are sampled (~30-45 points each), so exhaustive is reported False",
]
WALL = {"quick": 900, "thorough": 5400}

TARGETS = {"create_db", "backup_db", "backup_db_path", "close_db_conn", "add_page", "overwrite_pages",
           "overwrite_single_page", "analyze_and_overwrite_pages", "add_default_templates", "process_dump",
           "init_wikidata_cache"}
SYSCALLS = ["pwrite64", "write", "rename", "unlink", "ftruncate", "fsync", "fdatasync"]
NSH = 16


def floors(tier):
    f = {"oracle.open1.content": 800, "oracle.open2.content": 800, "oracle.open1.integrity": 800,
         "counters.victim.killed": 800, "counters.victim.completed": 4,
         "counters.expect.backup-snapshot": 100, "counters.expect.last-committed": 100,
         "counters.expect.original-or-snapshot": 10,
         "counters.killfn.create_db": 10, "counters.killfn.backup_db": 10, "counters.killfn.close_db_conn": 5,
         "counters.killfn.add_page": 50, "counters.killfn.overwrite_pages": 50,
         "counters.killfn.analyze_and_overwrite_pages": 5,
         "counters.files.wal-nonempty-at-kill": 50, "counters.files.backup-present-at-kill": 50,
         "counters.phase.kill-inside-restoring-Wtp()": 10, "counters.phase.kill-after-restore-in-victim": 10,
         "anchors.core.create_db": 800, "anchors.core.backup_db": 4, "anchors.core.close_db_conn": 100,
         "anchors.dumpparser.analyze_and_overwrite_pages": 1, "anchors.dumpparser.overwrite_pages": 2,
         "sets.kinds": 4, "sets.starts": 2, "nontrivial": 800,
         "counters.victim.with-concurrent-read-snapshot": 50, "sets.dbname-classes": 3,
         "counters.victim.db-path-is-symlink": 50, "counters.victim.db-directly-in-tempdir": 50}
    if tier == "thorough":
        f.update({"counters.points.syscall": 500, "counters.syscall.pwrite64": 100, "counters.syscall.rename": 1,
                  "counters.syscall.unlink": 1, "sets.kinds": 8, "sets.starts": 3})
    return f


def shards(tier, seed):
    return [{"seed": seed, "tier": tier, "idx": i, "nsh": NSH} for i in range(NSH)]


# ---------------------------------------------------------------------------
# scenarios of a run (same list in every shard; the kill points are what is sharded)

def plan(tier, seed):
    """[(si, kind, scale, strace?)] -- scenario si is generated from Random((seed, si)).
    quick: 4 instances of each of the 9 kinds, ~9 pages, line/op kill points only.
    thorough: 14 instances of each kind, 6..40 pages; the instances of round 2 and 3 (14 and 24 pages) also get
    every file-mutating syscall as a kill point.  VERIF_C11_REPS overrides the number of rounds (dev/testing)."""
    out = []
    reps = {"quick": 4, "thorough": 14}[tier]
    if os.environ.get("VERIF_C11_REPS"):
        reps = int(os.environ["VERIF_C11_REPS"])
    si = 0
    for rep in range(reps):
        for kind in S.KINDS:
            sc = 9
            if tier == "thorough":
                sc = [6, 9, 14, 24, 40][rep % 5]
            out.append((si, kind, sc, tier == "thorough" and rep in (2, 3)))
            si += 1
    # bulk overwrite (sampled kill points): the no-backup kind twice as often as the backup kind
    si = 10000
    for rep in range({"quick": 1, "thorough": 4}[tier]):
        for kind in ("bulk-overwrite", "bulk-overwrite-backup", "bulk-overwrite"):
            out.append((si, kind, 0, False))
            si += 1
    return out


BULK_SHARDS = 4


def bulk_owner(si, idx, nsh):
    """bulk scenarios are expensive to set up: only BULK_SHARDS shards work on one (-> rank of idx among them, or None)"""
    if nsh <= BULK_SHARDS:
        return idx, nsh
    own = [(si * 5 + j * (nsh // BULK_SHARDS)) % nsh for j in range(BULK_SHARDS)]
    return (own.index(idx), BULK_SHARDS) if idx in own else (None, BULK_SHARDS)


def sample_points(log, seed, si):
    """Kill points of a bulk scenario: 14 spread (seeded jitter) over the overwrite loop, the last 8 events of the
    loop (the lines around overwrite_pages()'s commit), every line of backup_db/backup_db_path/close_db_conn and
    every op boundary."""
    rng = random.Random("c11-sample/%d/%d" % (seed, si))
    loop = [k for k in range(1, len(log) + 1) if log[k - 1][0] in ("overwrite_pages", "overwrite_single_page", "add_page")]
    sel = {k for k in range(1, len(log) + 1)
           if log[k - 1][0] in ("backup_db", "backup_db_path", "close_db_conn") or log[k - 1][0].startswith("op:")}
    if loop:
        m = 14
        for j in range(m):
            lo = len(loop) * j // m
            hi = max(lo + 1, len(loop) * (j + 1) // m)
            sel.add(loop[rng.randrange(lo, hi)])
        sel.update(loop[-8:])
    return sorted(sel)


def scenario(seed, si, kind, scale):
    rng = random.Random("c11/%d/%d" % (seed, si))
    # every 4th regular scenario works on a database whose file name is unusual (kinds rotate with period 9, so every
    # kind meets every name class over the seeds); the others and the bulk ones use pages.db
    name = S.DBNAMES[0]
    if si < 10000 and si % 4 == 1:
        name = S.DBNAMES[1 + (si // 4 + seed) % (len(S.DBNAMES) - 1)]
    scn = S.gen_scenario(rng, kind, scale, name)
    # every 10th regular scenario: TMPDIR of the victim and of the reopening processes is the directory of the database
    # (the setup processes ran with another TMPDIR); half of them with a suffix-less database name
    # every 10th regular scenario: the database path is a symbolic link to a file in another directory (ordinary file name)
    if si < 10000 and si % 10 == 7:
        scn["dbname"], scn["tags"]["dbname"] = S.DBNAMES[0]
        scn["tags"]["path"] = "symlink"
    if si < 10000 and si % 10 == 3:
        scn["tags"]["location"] = "tempdir"
        if (si // 10 + seed) % 2 == 0 and scn["tags"]["dbname"] == "ordinary":
            scn["dbname"], scn["tags"]["dbname"] = "pagesdb", "no-suffix"
    return scn


# ---------------------------------------------------------------------------
# process helpers

class Timeout(Exception):
    pass


def _alarm(signum, frame):
    raise Timeout()


def wait_child(pid, seconds=120):
    old = signal.signal(signal.SIGALRM, _alarm)
    signal.alarm(seconds)
    try:
        _, st = os.waitpid(pid, 0)
        return st
    except Timeout:
        try:
            os.kill(pid, 9)
        except Exception:
            pass
        _, st = os.waitpid(pid, 0)
        return None
    finally:
        signal.alarm(0)
        signal.signal(signal.SIGALRM, old)


def wait_gone(pids, seconds=20):
    """Wait until the reader processes a dead victim left behind have gone (they end when the victim's pipe closes)."""
    deadline = time.time() + seconds
    for pid in pids:
        while time.time() < deadline:
            try:
                with open("/proc/%d/stat" % pid) as f:
                    st = f.read().rsplit(")", 1)[1].split()[0]
                if st == "Z":
                    break
            except (FileNotFoundError, ProcessLookupError, IndexError):
                break
            time.sleep(0.002)
        else:
            try:
                os.kill(pid, 9)
            except Exception:
                pass


def fork_collect(fn, seconds=120):
    """Run fn() in a forked child; returns (json result | None, wait status)."""
    r, w = os.pipe()
    pid = os.fork()
    if pid == 0:
        code = 0
        try:
            os.close(r)
            res = fn()
            data = json.dumps(res, ensure_ascii=True).encode()
            off = 0
            while off < len(data):
                off += os.write(w, data[off:off + 65536])
        except BaseException as e:  # noqa
            code = 9
            try:
                os.write(w, json.dumps({"harness_exc": repr(e)[:300]}).encode())
            except Exception:
                pass
        finally:
            os._exit(code)
    os.close(w)
    chunks = []
    deadline = time.time() + seconds
    timed_out = False
    while True:
        left = deadline - time.time()
        if left <= 0:
            timed_out = True
            break
        rd, _, _ = select.select([r], [], [], left)
        if not rd:
            timed_out = True
            break
        b = os.read(r, 1 << 20)
        if not b:
            break
        chunks.append(b)
    os.close(r)
    if timed_out:
        try:
            os.kill(pid, 9)
        except Exception:
            pass
    _, st = os.waitpid(pid, 0)
    if timed_out:
        return {"hang": True}, st
    try:
        return json.loads(b"".join(chunks)), st
    except Exception:
        return None, st


def _delta(after, before):
    return {k: v - before.get(k, 0) for k, v in after.items() if v - before.get(k, 0)}


# ---------------------------------------------------------------------------
# scenario template (state before the victim starts)

class Template:
    def __init__(self, base, scn):
        self.scn = scn
        self.dir = base
        self.dbdir = os.path.join(base, "db")
        self.indir = os.path.join(base, "in")
        self.marks = os.path.join(base, "marks")
        os.makedirs(self.dbdir)
        if scn_symlink(scn):
            # the database path is a (relative) symbolic link; the file itself lives in another directory
            os.makedirs(os.path.join(self.dbdir, STORE))
            os.symlink(os.path.join(STORE, scn_dbname(scn)), os.path.join(self.dbdir, scn_dbname(scn)))
        S.write_inputs(scn, self.indir)
        self.input_types = {k: v["type"] for k, v in scn["inputs"].items()}
        self.setup_anchors = {}
        self.errors = []
        for script in scn["setup"]:
            self._run_setup(script)

    def _run_setup(self, script):
        db = os.path.join(self.dbdir, scn_dbname(self.scn))

        def child():
            a0 = anchors.snapshot()
            mark = S.Marker(self.marks)
            S.install_hooks(mark, db)
            S.run_script(script, db, self.indir, self.input_types, mark)
            return {"anchors": _delta(anchors.snapshot(), a0)}
        res, st = fork_collect(child)
        if not res or "anchors" not in res:
            self.errors.append("setup process failed: %r %r" % (res, st))
        else:
            for k, v in res["anchors"].items():
                self.setup_anchors[k] = self.setup_anchors.get(k, 0) + v


def new_case(tpl, base, name):
    c = os.path.join(base, name)
    os.makedirs(c)
    shutil.copytree(tpl.dbdir, os.path.join(c, "db"), symlinks=True)
    if os.path.exists(tpl.marks):
        shutil.copy(tpl.marks, os.path.join(c, "marks"))
    return c


def scn_intmp(scn):
    return scn["tags"].get("location") == "tempdir"


def victim_child(tpl, case, kill_at, log, skip_reader=False, intmp=None):
    """Body of the forked victim.  Never returns normally to the caller's code path: os._exit."""
    if scn_intmp(tpl.scn) if intmp is None else intmp:
        tempfile.tempdir = os.path.join(case, "db")     # = TMPDIR pointing at the directory of the database
    db = os.path.join(case, "db", scn_dbname(tpl.scn))
    mark = S.Marker(os.path.join(case, "marks"))
    n = [0]

    def point(fn, line):
        n[0] += 1
        if log is not None:
            log.append([fn, line])
        if n[0] == kill_at:
            mark(["kill", kill_at, fn, line])
            os._exit(137)

    def local(frame, event, arg):
        if event == "line":
            point(frame.f_code.co_name, frame.f_lineno)
        return local

    def tracer(frame, event, arg):
        co = frame.f_code
        if co.co_name in TARGETS and "wikitextprocessor" in co.co_filename:
            return local
        return None

    try:
        S.install_hooks(mark, db)
        sys.settrace(tracer)
        S.run_script(tpl.scn["victim"], db, tpl.indir, tpl.input_types, mark, point, skip_reader=skip_reader)
        sys.settrace(None)
    except BaseException as e:  # the scenario step itself failed
        sys.settrace(None)
        mark(["exc", type(e).__name__, str(e)[:200], exc_sig(e)])
        os._exit(3)


def record(tpl, base, name="rec"):
    """Recording run: list of kill points [(fn, line)] of the victim; leaves its final files in the case dir."""
    case = new_case(tpl, base, name)

    def child():
        a0 = anchors.snapshot()
        log = []
        victim_child(tpl, case, -1, log)
        return {"log": log, "anchors": _delta(anchors.snapshot(), a0)}
    res, st = fork_collect(child, 60)
    return case, res, st


STORE = "store"    # sub-directory that holds the real database file when the database path is a symbolic link


def scn_dbname(scn):
    return scn.get("dbname", S.DBNAME)


def scn_symlink(scn):
    return scn["tags"].get("path") == "symlink"


def backup_name(dbname):
    from pathlib import PurePosixPath
    p = PurePosixPath(dbname)
    return p.with_stem(p.stem + "_backup").name


def canon_name(fn, dbname):
    """file name in the db dir -> role name as if the database were called pages.db (sigs / counters are name-independent)"""
    if fn.startswith(STORE + "/"):
        return STORE + "/" + canon_name(fn[len(STORE) + 1:], dbname)
    b = backup_name(dbname)
    if fn.startswith(b):
        return "pages_backup.db" + fn[len(b):]
    if fn.startswith(dbname):
        return "pages.db" + fn[len(dbname):]
    return fn


def real_name(canon, dbname):
    if canon.startswith(STORE + "/"):
        return STORE + "/" + real_name(canon[len(STORE) + 1:], dbname)
    if canon.startswith("pages_backup.db"):
        return backup_name(dbname) + canon[len("pages_backup.db"):]
    if canon.startswith("pages.db"):
        return dbname + canon[len("pages.db"):]
    return canon


def listing(dbdir, dbname=S.DBNAME):
    """role name -> size of every file the dead process left ("-> target" for a symbolic link; STORE/ one level down)"""
    out = {}

    def walk(d, prefix):
        try:
            names = sorted(os.listdir(d))
        except OSError:
            return
        for fn in names:
            pth = os.path.join(d, fn)
            try:
                if os.path.islink(pth):
                    out[canon_name(prefix + fn, dbname)] = "-> " + canon_name(os.readlink(pth), dbname)
                elif os.path.isdir(pth):
                    if not prefix:
                        walk(pth, fn + "/")
                else:
                    out[canon_name(prefix + fn, dbname)] = os.path.getsize(pth)
            except OSError:
                pass
    walk(dbdir, "")
    return out


# ---------------------------------------------------------------------------
# verifier: a fresh process opens the path with the real Wtp

def _open_and_read(db, close, intmp=False):
    from wikitextprocessor import Wtp
    if intmp:
        tempfile.tempdir = os.path.dirname(db)
    a0 = anchors.snapshot()
    out = {}
    ctx = None
    try:
        ctx = Wtp(db_path=db, quiet_output=True, quiet=True)
    except BaseException as e:  # noqa
        out["exc"] = ["open", type(e).__name__, str(e)[:160], exc_sig(e)]
    if ctx is not None:
        try:
            out["ic"] = [str(r[0]) for r in ctx.db_conn.execute("PRAGMA integrity_check")][:5]
            out["rows"] = [[p.title, p.namespace_id, p.body, p.redirect_to, p.model, bool(p.need_pre_expand)]
                           for p in ctx.get_all_pages()]
        except BaseException as e:  # noqa
            out["exc"] = ["read", type(e).__name__, str(e)[:160], exc_sig(e)]
        if close:
            try:
                ctx.close_db_conn()
            except BaseException as e:  # noqa
                out["close_exc"] = [type(e).__name__, str(e)[:160]]
    out["anchors"] = _delta(anchors.snapshot(), a0)
    return out


def verify(dbdir, close_first, obs=None, dbname=S.DBNAME, intmp=False):
    db = os.path.join(dbdir, dbname)
    res = []
    for i, close in ((1, close_first), (2, True)):
        r, st = fork_collect(lambda: _open_and_read(db, close, intmp))
        if r is None:
            r = {"exc": ["verifier", "Died", "status %r" % (st,), "verifier-died"]}
        if r.get("hang"):
            r = {"exc": ["open", "Hang", "no answer in 120 s", "hang"]}
        if "harness_exc" in r:
            r = {"exc": ["verifier", "Harness", r["harness_exc"], "harness"]}
        if obs is not None:
            for k, v in r.get("anchors", {}).items():
                obs.anchors[k] = obs.anchors.get(k, 0) + v
        res.append(r)
    return res


def content_of(rows):
    c = {}
    dup = False
    for r in rows:
        t = mrow(r)
        if mkey(t) in c:
            dup = True
        c[mkey(t)] = t
    return c, dup


def judge(model, res, obs=None):
    """-> (problems [(rule, got, msg)], matched label of open 1)"""
    expect, allowed = model.allowed()
    probs = []
    labels = []
    first = None
    for i, r in enumerate(res, 1):
        tag = "open%d" % i
        if obs is not None:
            obs.check(tag + ".opens")
        if "exc" in r:
            e = r["exc"]
            probs.append((("open-raises" if e[0] == "open" else e[0] + "-raises") + ":" + e[1], "-", "%s: %s %s (%s)" % (tag, e[1], e[2], e[3])))
            if i == 1:
                break
            continue
        if obs is not None:
            obs.check(tag + ".integrity")
        if r["ic"] != ["ok"]:
            probs.append(("integrity-check-fails", "-", "%s: integrity_check=%r" % (tag, r["ic"][:3])))
        if obs is not None:
            obs.check(tag + ".content")
        c, dup = content_of(r["rows"])
        lab = None
        for name, a in allowed:
            if a == c and not dup:
                lab = name
                break
        labels.append(lab)
        if i == 1:
            first = c
        if lab is None:
            got = model.classify(c, allowed[0][1])
            if i == 2 and first is not None and c == first:
                continue          # same wrong content as open 1: reported once
            probs.append((("content" if i == 1 else "second-open-content"), got,
                          "%s: %d rows visible, class %s; expected %s (%d rows)" % (
                              tag, len(c), got, "|".join(n for n, _ in allowed), len(allowed[0][1]))))
        elif i == 2 and first is not None and c != first and labels[0] is not None:
            probs.append(("second-open-differs", "-", "open2 shows another allowed content (%s) than open1 (%s)" % (lab, labels[0])))
    return expect, probs, (labels[0] if labels else None)


ABLATIONS = [("stale-wal", ["pages.db-wal", "pages.db-shm", STORE + "/pages.db-wal", STORE + "/pages.db-shm"]),
             ("backup-file", ["pages_backup.db"])]


def diagnose(model, post, base, close_first, dbname=S.DBNAME, name_class=None, intmp=False):
    """Which single file class has to be there for the disagreement?  (mechanism tag, delta-minimisation)
    For a database with an unusual file name also: does the disagreement need that name (same files renamed to pages.db*)?"""
    needs = []
    for name, files in ABLATIONS:
        if not any(os.path.exists(os.path.join(post, real_name(f, dbname))) for f in files):
            continue
        d = os.path.join(base, "abl")
        shutil.rmtree(d, ignore_errors=True)
        shutil.copytree(post, d, symlinks=True)
        for f in files:
            try:
                os.unlink(os.path.join(d, real_name(f, dbname)))
            except FileNotFoundError:
                pass
        _, probs, _ = judge(model, verify(d, close_first, None, dbname, intmp))
        shutil.rmtree(d, ignore_errors=True)
        if not probs:
            needs.append(name)
    lnk = os.path.join(post, dbname)
    if os.path.islink(lnk):
        # the same files with the database path being the file itself (side files next to it) instead of a symbolic link
        d = os.path.join(base, "abl")
        shutil.rmtree(d, ignore_errors=True)
        shutil.copytree(post, d, symlinks=True)
        os.unlink(os.path.join(d, dbname))
        for fn in os.listdir(os.path.join(d, STORE)):
            os.rename(os.path.join(d, STORE, fn), os.path.join(d, fn))
        _, probs, _ = judge(model, verify(d, close_first, None, dbname, intmp))
        shutil.rmtree(d, ignore_errors=True)
        if not probs:
            needs.append("db-path-is-symlink")
    elif dbname != S.DBNAME and not os.path.isdir(os.path.join(post, STORE)):
        d = os.path.join(base, "abl")
        shutil.rmtree(d, ignore_errors=True)
        os.makedirs(d)
        for fn in os.listdir(post):
            shutil.copy(os.path.join(post, fn), os.path.join(d, canon_name(fn, dbname)))
        _, probs, _ = judge(model, verify(d, close_first, None, S.DBNAME, intmp))
        shutil.rmtree(d, ignore_errors=True)
        if not probs:
            needs.append("db-file-name(%s)" % name_class)
    return needs


def make_sig(expect, probs, needs, files, model=None):
    rule, got, _ = probs[0]
    fam = "content" if "content" in rule else ("unreadable" if ("raises" in rule or "integrity" in rule) else rule)
    if expect == "previous-backup" and "pages_backup.db" not in files:
        # a completed backup existed, a second backup_db() was in flight, and the dead process left no backup file at all
        return "restore-wrong|expect=previous-backup|cause=completed-backup-removed-before-its-replacement-is-installed"
    if needs == ["db-directly-in-tempdir"]:
        return "restore-wrong|expect=any|cause=db-directly-in-tempdir"
    if needs:
        cause = "+".join(needs)
        if "backup-file" in needs and expect == "original-or-snapshot":
            cause += "(incomplete)"
        return "restore-wrong|expect=%s|cause=%s" % (expect, cause)
    if model is not None and model.pending and not model.in_commit and not model.in_backup \
            and not any(f.endswith(("-wal", "-journal")) and n for f, n in files.items()):
        # killed in the middle of a write transaction, and the dead process left no journal / write-ahead log on disk
        # that could undo what it had already written into the database file
        return "restore-wrong|expect=%s|cause=uncommitted-transaction-without-journal-on-disk" % expect
    detail = rule if fam != "content" else "%s:got=%s" % (rule, got)
    return "restore-wrong|expect=%s|%s|cause=unidentified" % (expect, detail)


# ---------------------------------------------------------------------------

class Monitor:
    def __init__(self, obs, base):
        import wikitextprocessor.core as core
        import wikitextprocessor.dumpparser as DP
        import wikitextprocessor.wikidata as WD
        self.obs = obs
        self.base = base
        W = core.Wtp
        anchors.watch({"core.create_db": W.create_db, "core.backup_db": W.backup_db, "core.backup_db_path": W.backup_db_path,
                       "core.close_db_conn": W.close_db_conn, "core.add_page": W.add_page, "core.get_all_pages": W.get_all_pages,
                       "dumpparser.overwrite_pages": DP.overwrite_pages, "dumpparser.overwrite_single_page": DP.overwrite_single_page,
                       "dumpparser.analyze_and_overwrite_pages": DP.analyze_and_overwrite_pages,
                       "dumpparser.add_default_templates": DP.add_default_templates, "dumpparser.process_dump": DP.process_dump,
                       "wikidata.init_wikidata_cache": WD.init_wikidata_cache})

    def add_anchors(self, d):
        for k, v in (d or {}).items():
            self.obs.anchors[k] = self.obs.anchors.get(k, 0) + v

    def model_for(self, tpl, marks):
        """Feed the marks of all processes; -> (model, victim_exc | None, killed_mark | None)"""
        m = RestoreModel()
        scripts = list(tpl.scn["setup"]) + [tpl.scn["victim"]]
        pi = -1
        exc = None
        kill = None
        cur = None
        nv = len(scripts) - 1
        r0 = s0 = 0
        for ev in marks:
            if ev[0] == "proc":
                pi += 1
                m.feed(ev)
                if pi == nv:
                    r0, s0 = m.n_restores, m.n_seen
                continue
            if ev[0] == "exc":
                exc = ev + [cur]
                continue
            if ev[0] == "kill":
                kill = ev
                continue
            if ev[0] == "reader":
                continue
            if ev[0] == "op" and ev[2] == "b":
                cur = scripts[pi][ev[1]][0]
            m.feed(ev, scripts[pi])
        m.victim_proc = (pi == nv)
        m.restored_in_victim = m.victim_proc and m.n_restores > r0
        m.n_seen_victim = (m.n_seen - s0) if m.victim_proc else 0
        return m, exc, kill

    def pre_state_sig(self, tpl):
        """Verdict on the files as the setup processes left them (= a kill before the victim does anything);
        cached per scenario.  Used to attribute victims whose own Wtp() already restored wrongly."""
        if not hasattr(tpl, "pre_sig"):
            case = new_case(tpl, tpl.dir, "pre")
            marks = S.read_marks(os.path.join(case, "marks"))
            model, _, _ = self.model_for(tpl, marks)
            model.feed(["proc"])
            dbdir = os.path.join(case, "db")
            dbn = scn_dbname(tpl.scn)
            files = listing(dbdir, dbn)
            post = os.path.join(case, "post")
            shutil.copytree(dbdir, post, symlinks=True)
            expect, probs, _ = judge(model, verify(dbdir, True, None, dbn))
            tpl.pre_sig = make_sig(expect, probs, diagnose(model, post, case, True, dbn, tpl.scn["tags"].get("dbname")), files, model) if probs else None
            shutil.rmtree(case, ignore_errors=True)
        return tpl.pre_sig

    def installed_backup_holds(self, content, dbdir, dbn, scratch):
        """Does the backup file the dead process left, opened on its own, hold `content`?  (= the new backup is installed)"""
        b = os.path.join(dbdir, real_name("pages_backup.db", dbn))
        if not os.path.exists(b):
            return False
        d = os.path.join(scratch, "inst")
        shutil.rmtree(d, ignore_errors=True)
        os.makedirs(d)
        shutil.copy(b, os.path.join(d, S.DBNAME))
        r, _ = fork_collect(lambda: _open_and_read(os.path.join(d, S.DBNAME), True))
        shutil.rmtree(d, ignore_errors=True)
        if not r or "rows" not in r or r.get("ic") != ["ok"]:
            return False
        c, dup = content_of(r["rows"])
        return (not dup) and c == content

    def finish_model(self, model, dbdir, dbn, scratch):
        if model.in_backup and model.backup is not None:
            model.new_backup_installed = self.installed_backup_holds(model.snap_cand, dbdir, dbn, scratch)
            self.obs.count("second-backup.new-backup-%s-at-kill" % ("installed" if model.new_backup_installed else "not-installed"))

    def rerun_variant(self, tpl, case, k, close_first, skip_reader=False, intmp=None):
        """Delta: same scenario and kill point with one feature left out (the concurrent reader / TMPDIR = directory of
        the database) -> still a disagreement?"""
        c2 = new_case(tpl, case, "variant")
        pid = os.fork()
        if pid == 0:
            try:
                victim_child(tpl, c2, k, None, skip_reader=skip_reader, intmp=intmp)
            finally:
                os._exit(0)
        wait_child(pid)
        marks = S.read_marks(os.path.join(c2, "marks"))
        wait_gone([m[1] for m in marks if m[0] == "reader"])
        try:
            model, _, _ = self.model_for(tpl, marks)
        except ModelError:
            return True
        dbn = scn_dbname(tpl.scn)
        self.finish_model(model, os.path.join(c2, "db"), dbn, c2)
        _, probs, _ = judge(model, verify(os.path.join(c2, "db"), close_first, None, dbn,
                                          scn_intmp(tpl.scn) if intmp is None else intmp))
        shutil.rmtree(c2, ignore_errors=True)
        return bool(probs) or model.tainted is not None

    def evaluate(self, tpl, case, casekey, point_desc, close_first, expect_killed):
        """The victim is dead; verify what it left behind."""
        obs = self.obs
        dbdir = os.path.join(case, "db")
        dbn = scn_dbname(tpl.scn)
        marks = S.read_marks(os.path.join(case, "marks"))
        readers = [m[1] for m in marks if m[0] == "reader"]
        if readers:
            wait_gone(readers)
            obs.count("victim.with-concurrent-read-snapshot")
        files = listing(dbdir, dbn)
        try:
            model, vexc, kill = self.model_for(tpl, marks)
        except ModelError as e:
            obs.inconclusive.append("model/scenario mismatch: %s (%s)" % (e, json.dumps(casekey)))
            return None
        if not model.victim_proc:
            obs.count("victim.died-before-start")
            obs.case(json.dumps(casekey), nontrivial=False)
            return None
        wal = files.get("pages.db-wal", 0) or files.get(STORE + "/pages.db-wal", 0)
        if wal:
            obs.count("files.wal-nonempty-at-kill")
        if scn_symlink(tpl.scn):
            obs.count("victim.db-path-is-symlink")
            if isinstance(files.get("pages.db"), str):
                obs.count("files.db-path-still-symlink-at-kill")
        if "pages_backup.db" in files:
            obs.count("files.backup-present-at-kill")
            if files["pages_backup.db"] == 0:
                obs.count("files.backup-empty-at-kill")
        if "pages.db" not in files:
            obs.count("files.db-missing-at-kill")
        if "pages_backup.db-journal" in files or "pages_backup.db.incomplete-journal" in files:
            obs.count("files.backup-journal-at-kill")
        if "pages_backup.db.incomplete" in files:
            obs.count("files.incomplete-backup-copy-at-kill")
        if files.get("pages.db-journal"):
            obs.count("files.rollback-journal-at-kill")
        out = []
        if vexc is not None:
            sig = "scenario-step-raises|op=%s|%s" % (vexc[-1], vexc[4])
            msg = "victim raised %s: %s" % (vexc[1], vexc[2])
            obs.violation(sig, msg, dict(casekey))
            obs.count("outcome.violation")
            out.append((sig, msg))
        if model.n_seen_victim:
            obs.check("victim-open.content", model.n_seen_victim)
        if model.tainted is not None:
            # the victim's own Wtp() already showed a wrong content: same event as a kill before the
            # victim started, so it gets that verdict's signature; later steps are not judged
            obs.count("victim.own-open-restored-wrongly")
            sig = self.pre_state_sig(tpl) or "restore-wrong|victim-open-content-unexpected|cause=unidentified"
            msg = "a scenario process' own Wtp(): %s; kill point %s; files at kill %s" % (model.tainted, point_desc, json.dumps(files))
            obs.violation(sig, msg, dict(casekey))
            obs.count("outcome.violation-in-victim-open")
            obs.case(json.dumps(casekey), nontrivial=False)
            out.append((sig, msg))
            return out
        post = os.path.join(case, "post")
        shutil.copytree(dbdir, post, symlinks=True)
        intmp = scn_intmp(tpl.scn)
        if intmp:
            obs.count("victim.db-directly-in-tempdir")
        self.finish_model(model, post, dbn, case)
        res = verify(dbdir, close_first, obs, dbn, intmp)
        expect, probs, label = judge(model, res, obs)
        obs.count("expect." + expect)
        if model.in_open:
            obs.count("phase.kill-inside-Wtp()")
            if model.backup is not None:
                obs.count("phase.kill-inside-restoring-Wtp()")
        if model.in_commit:
            obs.count("phase.kill-inside-commit")
        if model.in_backup:
            obs.count("phase.kill-inside-backup_db")
            if model.backup is not None:
                obs.count("phase.kill-inside-second-backup_db")
        if model.restored_in_victim:
            obs.count("phase.kill-after-restore-in-victim")
        if model.pending:
            obs.count("phase.uncommitted-writes-at-kill")
        obs.count("verifier.first-open-%s" % ("closes" if close_first else "exits-without-close"))
        obs.maxi("rows_visible", len(res[0].get("rows", ())))
        if probs:
            needs = diagnose(model, post, case, close_first, dbn, tpl.scn["tags"].get("dbname"), intmp)
            if readers and casekey.get("mode") == "line":
                if not self.rerun_variant(tpl, case, casekey.get("k") or -1, close_first, skip_reader=True):
                    # the reader is what it takes; whichever file then carries the wrong content is secondary
                    needs = ["concurrent-read-snapshot"]
            if intmp and casekey.get("mode") == "line":
                if not self.rerun_variant(tpl, case, casekey.get("k") or -1, close_first, intmp=False):
                    # the same steps on the same files are fine when TMPDIR does not point at the database's directory
                    needs = ["db-directly-in-tempdir"]
            sig = make_sig(expect, probs, needs, files, model)
            msg = "%s; kill point %s; files at kill %s; rules: %s" % (
                probs[0][2], point_desc, json.dumps(files), ", ".join(sorted({p[0] + "/" + p[1] for p in probs})))
            obs.violation(sig, msg, dict(casekey))
            obs.count("outcome.violation")
            obs.count("violation-class.%s:%s" % (probs[0][0], probs[0][1]))
            out.append((sig, msg))
        else:
            obs.count("outcome." + str(label))
        obs.case(json.dumps(casekey), nontrivial=True,
                 sample={"case": casekey, "point": point_desc, "files_at_kill": files, "expect": expect,
                         "outcome": ("violation" if probs else label), "tags": tpl.scn["tags"]})
        return out

    # -- one scenario -----------------------------------------------------
    def run_scenario(self, seed, tier, si, kind, scale, strace, idx, nsh, only=None):
        obs = self.obs
        bulk = kind in S.BULK_KINDS
        if bulk and only is None:
            idx, nsh = bulk_owner(si, idx, nsh)
            if idx is None:
                return []
        scn = scenario(seed, si, kind, scale)
        sdir = os.path.join(self.base, "s%d" % si)
        os.makedirs(sdir)
        tpl = Template(os.path.join(sdir, "tpl"), scn)
        if tpl.errors:
            obs.inconclusive.append("scenario %d (%s): %s" % (si, kind, tpl.errors[0]))
            shutil.rmtree(sdir, ignore_errors=True)
            return []
        self.add_anchors(tpl.setup_anchors)
        obs.add("kinds", kind)
        obs.add("starts", scn["tags"]["start"])
        obs.add("dbname-classes", scn["tags"].get("dbname", "ordinary"))
        for k, v in scn["tags"].items():
            obs.add("scenario-tags", "%s=%s" % (k, v))
        rcase, rec, st = record(tpl, sdir)
        if rec and rec.get("hang"):
            # once more, to rule out a slow machine
            shutil.rmtree(rcase, ignore_errors=True)
            rcase, rec, st = record(tpl, sdir, "rec2")
        if not rec or "log" not in rec:
            # the unkilled victim failed
            marks = S.read_marks(os.path.join(rcase, "marks"))
            ck = {"seed": seed, "tier": tier, "si": si, "kind": kind, "scale": scale, "mode": "line", "k": 0}
            res = []
            if rec and rec.get("hang"):
                op, inner = "?", ""
                scripts = list(scn["setup"]) + [scn["victim"]]
                pi = -1
                for m in marks:
                    if m[0] == "proc":
                        op, inner = "?", ""
                        pi += 1
                    elif m[0] == "op":
                        op = scripts[pi][m[1]][0] if m[2] == "b" else op
                        inner = ""
                    elif m[0] in ("bb", "cb"):
                        inner = "/in=" + {"bb": "backup_db", "cb": "commit"}[m[0]]
                    elif m[0] in ("be", "ce"):
                        inner = ""
                sig = "scenario-step-hangs|op=%s%s" % (op, inner)
                msg = "the victim (not killed) did not finish within 60 s, twice; last marks %s" % json.dumps(marks[-4:])
                obs.violation(sig, msg, ck)
                obs.count("outcome.violation")
                res.append((sig, msg))
            elif any(m[0] == "exc" for m in marks):
                res = self.evaluate(tpl, rcase, ck, "unkilled run", True, False) or []
            else:
                obs.inconclusive.append("scenario %d (%s): recording run failed %r %r" % (si, kind, rec, st))
            shutil.rmtree(sdir, ignore_errors=True)
            return res
        log = rec["log"]
        N = len(log)
        self.add_anchors(rec.get("anchors"))
        obs.maxi("kill_points_per_scenario", N)
        obs.count("scenario-recordings")
        cand = sample_points(log, seed, si) if bulk else list(range(1, N + 1))
        if only is None and (si % nsh) == idx:
            obs.count("scenarios")
            obs.count("points.listed", len(cand))
            if bulk:
                obs.count("scenarios.bulk")
                obs.count("points.skipped-by-sampling", N - len(cand))
        results = []
        # the recording run is the "no kill" case (k = 0), evaluated by the shard that owns point 0
        todo = []
        if only is None:
            if (si % nsh) == idx:
                obs.count("victim.completed")
                obs.count("points.none")
                r = self.evaluate(tpl, rcase, {"seed": seed, "tier": tier, "si": si, "kind": kind, "scale": scale, "mode": "line", "k": 0},
                                  "none (victim ran to the end, %s)" % ("clean close" if scn["tags"]["close"] else "exit without close"),
                                  bool(si % 2), False)
                results += r or []
            todo = [k for j, k in enumerate(cand) if ((j if bulk else k) + si) % nsh == idx]
        elif only["mode"] == "line":
            if only["k"] == 0:
                r = self.evaluate(tpl, rcase, dict(only), "none", bool(si % 2), False)
                results += r or []
            else:
                todo = [only["k"]]
        shutil.rmtree(rcase, ignore_errors=True)
        for k in todo:
            fn, line = log[k - 1]
            case = new_case(tpl, sdir, "k%d" % k)
            pid = os.fork()
            if pid == 0:
                try:
                    victim_child(tpl, case, k, None)
                finally:
                    os._exit(0)
            st = wait_child(pid)
            killed = st is not None and os.WIFEXITED(st) and os.WEXITSTATUS(st) == 137
            ck = {"seed": seed, "tier": tier, "si": si, "kind": kind, "scale": scale, "mode": "line", "k": k}
            if not killed:
                obs.count("victim.not-killed-at-point")
                marks = S.read_marks(os.path.join(case, "marks"))
                if not any(m[0] == "exc" for m in marks):
                    obs.inconclusive.append("victim of %s did not die at point %d (status %r)" % (json.dumps(ck), k, st))
                    shutil.rmtree(case, ignore_errors=True)
                    continue
            else:
                obs.count("victim.killed")
            if fn.startswith("op:"):
                obs.count("points.op")
                obs.count("killop." + fn[3:])
            else:
                obs.count("points.line")
                obs.count("killfn." + fn)
            r = self.evaluate(tpl, case, ck, "%s (event %d of %d)" % (fn if fn.startswith("op:") else "line in " + fn, k, N),
                              bool((k + si) % 2), True)
            results += r or []
            shutil.rmtree(case, ignore_errors=True)
        if strace or (only is not None and only["mode"] == "syscall"):
            results += self.run_strace(tpl, sdir, seed, tier, si, kind, scale, idx, nsh, only)
        shutil.rmtree(sdir, ignore_errors=True)
        return results

    # -- syscall kill points ------------------------------------------------
    def strace_cmd(self, case, extra):
        return ["strace", "-qq"] + extra + [sys.executable, "-m", "vf.gen.c11_scn", case]

    def prep_strace_case(self, tpl, sdir, name):
        case = new_case(tpl, sdir, name)
        with open(os.path.join(case, "victim.json"), "w", encoding="utf-8") as f:
            json.dump({"script": tpl.scn["victim"], "db": os.path.join(case, "db", scn_dbname(tpl.scn)), "in": tpl.indir,
                       "input_types": tpl.input_types}, f)
        return case

    def run_strace(self, tpl, sdir, seed, tier, si, kind, scale, idx, nsh, only):
        obs = self.obs
        results = []
        case = self.prep_strace_case(tpl, sdir, "srec")
        out = os.path.join(case, "strace.out")
        p = subprocess.run(self.strace_cmd(case, ["-o", out, "-e", "trace=" + ",".join(SYSCALLS)]),
                           stdout=subprocess.DEVNULL, stderr=subprocess.PIPE, timeout=300, cwd="/verif",
                           env=(dict(os.environ, TMPDIR=os.path.join(case, "db")) if scn_intmp(tpl.scn) else None))
        counts = {}
        try:
            with open(out, errors="replace") as f:
                for ln in f:
                    parts = ln.split(None, 1)
                    body = parts[1] if len(parts) > 1 and parts[0].isdigit() else ln
                    name = body.split("(", 1)[0].strip()
                    if name in SYSCALLS:
                        counts[name] = counts.get(name, 0) + 1
        except FileNotFoundError:
            pass
        shutil.rmtree(case, ignore_errors=True)
        if p.returncode != 0 or not counts:
            obs.inconclusive.append("strace recording failed for scenario %d: rc=%r %s" % (si, p.returncode, p.stderr[-300:]))
            return results
        obs.count("strace.recordings")
        pts = []
        for sc in SYSCALLS:
            obs.maxi("syscalls_per_scenario." + sc, counts.get(sc, 0))
            for k in range(1, counts.get(sc, 0) + 1):
                pts.append((sc, k))
        if only is not None:
            pts = [(only["syscall"], only["k"])]
        else:
            pts = [pt for j, pt in enumerate(pts) if (j + si) % nsh == idx]
        for sc, k in pts:
            case = self.prep_strace_case(tpl, sdir, "x%s%d" % (sc, k))
            p = subprocess.run(self.strace_cmd(case, ["-o", "/dev/null", "-e", "trace=" + sc,
                                                      "-e", "inject=%s:signal=SIGKILL:when=%d" % (sc, k)]),
                               stdout=subprocess.DEVNULL, stderr=subprocess.PIPE, timeout=300, cwd="/verif",
                               env=(dict(os.environ, TMPDIR=os.path.join(case, "db")) if scn_intmp(tpl.scn) else None))
            ck = {"seed": seed, "tier": tier, "si": si, "kind": kind, "scale": scale, "mode": "syscall", "syscall": sc, "k": k}
            killed = p.returncode in (-9, 137)
            if not killed:
                obs.count("victim.not-killed-at-syscall")
                obs.notes.append("strace victim not killed: rc=%r %s %s" % (p.returncode, sc, p.stderr[-200:]))
                shutil.rmtree(case, ignore_errors=True)
                continue
            obs.count("victim.killed")
            obs.count("points.syscall")
            obs.count("syscall." + sc)
            r = self.evaluate(tpl, case, ck, "%s call %d of %d (SIGKILL injected by strace)" % (sc, k, counts.get(sc, 0)),
                              bool(k % 2), True)
            results += r or []
            shutil.rmtree(case, ignore_errors=True)
        return results


def exhaustive(tier, total):
    """Every listed line/op kill point of every generated scenario was executed (the scenarios themselves are a sample)."""
    c = total.get("counters", {})
    return bool(c.get("points.listed")) and c.get("points.line", 0) + c.get("points.op", 0) == c.get("points.listed") \
        and not c.get("points.skipped-by-sampling") \
        and not total.get("inconclusive")


def run_shard(spec):
    obs = Obs()
    base = tempfile.mkdtemp(prefix="c11_", dir=tempfile.gettempdir())
    mon = Monitor(obs, base)
    for si, kind, scale, strace in plan(spec["tier"], spec["seed"]):
        mon.run_scenario(spec["seed"], spec["tier"], si, kind, scale, strace, spec["idx"], spec["nsh"])
    shutil.rmtree(base, ignore_errors=True)
    return obs


def replay(case):
    obs = Obs()
    base = tempfile.mkdtemp(prefix="c11r_", dir=tempfile.gettempdir())
    mon = Monitor(obs, base)
    res = mon.run_scenario(case["seed"], case["tier"], case["si"], case["kind"], case["scale"], False, 0, 1, only=case)
    shutil.rmtree(base, ignore_errors=True)
    scn = scenario(case["seed"], case["si"], case["kind"], case["scale"])

    def brief(script):
        o = []
        for op in script:
            if op[0] == "add":
                o.append("add_page(%r, %d bytes)" % (op[1][0], len(op[1][2] or "")))
            elif op[0] == "override":
                o.append("override[%s via %s: %d pages]" % (op[1], op[2], len(op[3])))
            else:
                o.append(op[0])
        return o
    seen = set()
    vio = []
    for s_, m_ in res:
        if (s_, m_) not in seen:
            seen.add((s_, m_))
            vio.append([s_, m_])
    return {"violations": vio, "scenario": {"tags": scn["tags"], "setup_processes": [brief(x) for x in scn["setup"]],
                                            "victim_process": brief(scn["victim"])},
            "counters": obs.counters, "inconclusive": obs.inconclusive}
