"""C13 -- selective expansion expands exactly the selected templates and honours the hooks.

Monitors: (1) selective reference evaluator (vf.ref.transclusion.Ref with a selection) vs Wtp.expand,
(2) confluence: expand(expand(p, selection)) == expand(p) (both sides real code), (3) recording
template_fn / post_template_fn hooks vs the reference call list.  Pages also hold {{#invoke:c13echo|...}} calls
(a Lua module that reads all / the first / none of its arguments) with expand_invoke both ways, parser functions
written under another spelling of their name, and template_fn results that start with a list marker."""
from __future__ import annotations

import os
import random

from vf.core.obs import Obs, cpu_guard, CpuBudget, exc_sig
from vf.core import anchors
from vf.gen import expansion as G
from vf.ref.transclusion import Ref, Cycle
from vf.props import c04

LEVEL = "exploration"
RULE = ("configurations = (acyclic library of 6 templates, page from the expansion grammar, templates_to_expand subset, "
        "templates_to_not_expand subset, need_pre_expand flag subset, expand_parserfns, expand_invoke, hook policy "
        "none/record/marker-per-call (some markers start with a list marker)/post-marker, lang_code en|fr); all 64 subsets of "
        "the library are used as selections; about one page in seven also holds #invoke calls of an echo module (plain, inside "
        "a call argument, inside a parser function) or parser functions written as #IF/#IfEq/#SWITCH. "
        "non-trivial = distinct configuration in which the reference both expanded >=1 call and left >=1 call unexpanded, or "
        "the identity clause applied")
ASSUMPTIONS = ["reference rules from the expand()/parse() docstrings and README (DESIGN C13)",
               "tagged classes with their own signature: pre_expand=False with a non-None templates_to_expand; parser function "
               "whose first argument calls an unselected template; selected call inside a disabled parser function; disabled "
               "parser function whose first argument starts with a blank",
               "more tagged classes: a call inside the arguments of an evaluated #invoke while hooks are set (the statement's "
               "'once per expanded call' is read as covering calls written on the page that the module makes the expander "
               "expand; calls a module builds itself through frame:expandTemplate/preprocess are not in the workload); a "
               "disabled parser function written under another spelling of its name; a template_fn result that starts with a "
               "list marker ('used verbatim'); post_template_fn replacing an empty expansion ('sees the default expansion and "
               "may replace it'; a post_template_fn call that is merely missing for an empty expansion has its own signature)",
               "the echo module reads its arguments through frame.args (lazy expansion by the real sandbox code); Lua "
               "stand-ins of vf.lua.shim"]
WALL = {"quick": 900, "thorough": 5400}
NAMES = ["ta", "tb", "tc", "td", "te", "tf"]
# Tagged classes whose mechanism has been repaired in the repository: the tag is ignored and such cases are asserted
# in the main class again with their precise signatures (add the class name here together with the 'fixed:' entry).
SETTLED_CLASSES = {"selected-call-inside-disabled-parserfn", "disabled-parserfn-first-arg-edge-blank", "disabled-parserfn-name-spelling",
                   "hooked-call-inside-invoke-argument", "post_template_fn-replaces-empty-expansion"}      # repaired in /repo: asserted like any other case
SETTLED_CLASSES |= set(filter(None, os.environ.get("VERIF_C13_SETTLED", "").split(",")))      # for trying a repair


def floors(tier):
    return {"oracle.selective==reference": 2000, "oracle.confluence": 300, "oracle.hook-calls": 500, "oracle.identity": 100,
            "sets.selections": 64, "counters.rule.call-left-unexpanded": 200, "counters.rule.template-expanded": 200,
            "counters.rule.parserfn-left-unexpanded": 50, "anchors.core.Wtp.check_template_need_expand": 500,
            "counters.rule.invoke-evaluated": 300, "counters.rule.invoke-left-unexpanded": 100,
            "counters.rule.invoke-argument-with-call-evaluated": 100, "counters.rule.invoke-argument-never-read": 30,
            "counters.rule.parserfn-name-respelled": 200, "counters.hook.marker-starts-with-list-marker": 20,
            "counters.switch.expand_invoke=False+expand_parserfns=True": 500, "anchors.luaexec.call_lua_sandbox": 300,
            "anchors.core.Wtp._unexpanded_template": 200, "counters.hook.marker-used": 50, "counters.hook.post-marker-used": 20}


def shards(tier, seed):
    per = {"quick": 6500, "thorough": 96000}[tier]
    return [{"seed": seed * 1000 + i, "n": per, "lang": "fr" if i % 8 == 7 else "en"} for i in range(16)]


_CTX = {}
# frame.args[i] makes the sandbox expand the i-th argument (lazily, once); 'first' never reads the others,
# 'none' reads nothing.  No '|', '=', braces or angle brackets in what the module adds itself.
ECHO_MODULE = """
local p = {}
function p.echo(frame)
  local out = {}
  local i = 1
  while frame.args[i] ~= nil do
    out[#out + 1] = frame.args[i]
    i = i + 1
  end
  return "E(" .. table.concat(out, ",") .. ")"
end
function p.first(frame)
  return "F(" .. (frame.args[1] or "") .. ")"
end
function p.none(frame)
  return "N()"
end
return p
"""
RESPELL = {"IF": ["#IF", "#If"], "EQ": ["#IFEQ", "#IfEq", "#ifEq"], "SW": ["#SWITCH", "#Switch"]}


def respell(rng, a, p):
    """Page AST with some parser functions written under another spelling of their name."""
    k = a[0]
    if k == "S":
        return ("S", [respell(rng, x, p) for x in a[1]])
    if k == "C":
        args = [("pos", respell(rng, x[1], p)) if x[0] == "pos" else x[:3] + (respell(rng, x[3], p),) + x[4:] for x in a[3]]
        return ("C", a[1], a[2], args)
    if k in ("IF", "EQ"):
        b = (k,) + tuple(respell(rng, x, p) for x in a[1:])
    elif k == "SW":
        b = ("SW", respell(rng, a[1], p), [(c, respell(rng, v, p)) for c, v in a[2]])
    else:
        return a
    return ("RN", rng.choice(RESPELL[k]), b) if rng.random() < p else b


def gen_invokes(rng, cfg, tags):
    """#invoke calls of the echo module: plain, inside an argument of a library call, inside a parser function."""
    out = []
    for _ in range(rng.randint(1, 2)):
        fn = rng.choice(["echo", "echo", "echo", "first", "first", "none"])
        args = [G.seq(rng, rng.randint(0, 2), NAMES, False, cfg, tags) for _ in range(rng.randint(0, 3))]
        if args and rng.random() < 0.7:
            # at least one argument that is just a call (the shape a template body passes on)
            n = rng.choice(NAMES)
            j = rng.randrange(len(args))
            args[j] = ("S", [("C", n, n, [("pos", ("S", [("T", rng.choice(["x", "y 1", ""]))]))] if rng.random() < 0.6 else [])])
        inv = ("INV", fn, args)
        r = rng.random()
        if r < 0.2:
            n = rng.choice(NAMES)
            inv = ("C", n, n, [("pos", ("S", [inv]))])
        elif r < 0.4:
            inv = ("IF", ("S", [("T", "1")]), ("S", [inv]), ("S", [("T", "")]))
        out.append(inv)
    return out


def ctx_for(lang):
    if lang not in _CTX:
        from vf.core.wtp import fresh
        cm = fresh(lang_code=lang, lua=True)
        _CTX[lang] = (cm, cm.__enter__())
        mns = _CTX[lang][1].NAMESPACE_DATA["Module"]
        _CTX[lang][1].add_page(mns["name"] + ":c13echo", mns["id"], ECHO_MODULE, model="Scribunto")
        import atexit
        atexit.register(lambda: cm.__exit__(None, None, None))
    return _CTX[lang][1]


def load(ctx, lib, flags):
    tid = ctx.NAMESPACE_DATA["Template"]["id"]
    # no DELETE: the six library titles are stored AGAIN (upsert) with the new bodies and flags, as a long-lived
    # store sees them; 'missing' is never stored
    for n, b in lib.items():
        ctx.add_page(ctx.NAMESPACE_DATA["Template"]["name"] + ":" + n, tid, G.render(b), need_pre_expand=(n in flags))
    try:
        type(ctx).get_page.cache_clear()
    except AttributeError:
        pass


def make_cfg(rng, i, base=None):
    tags = set()
    cfg = G.Cfg(include_tags=False, missing=True, table_marker=False)
    if base is None:
        lib = G.gen_library(rng, 6, rng.randint(1, 2), cfg, tags, names=NAMES)
        page = G.seq(rng, rng.randint(1, 3), NAMES, False, cfg, tags)
        if rng.random() < 0.25:
            # calls whose name is computed by a nested parser function: {{t{{#if:1|a}}|x}}
            extra = []
            for _ in range(rng.randint(1, 2)):
                letter = rng.choice("abcdefz")
                inner = ("IF", ("S", [("T", "1")]), ("S", [("T", letter)]), ("S", [("T", "")]))
                if rng.random() < 0.5:
                    # ... or by a call of a library template (selected or not): {{t{{ta}}|x}}
                    n = rng.choice(NAMES)
                    inner = ("C", n, n, [("pos", ("S", [("T", letter)]))] if rng.random() < 0.4 else [])
                args = [("pos", ("S", [("T", rng.choice(["x", "y 1", ""]))]))] if rng.random() < 0.6 else []
                extra.append(("CN", "t", inner, "t" + letter, args))
            page = ("S", page[1] + extra)
        if rng.random() < 0.08:
            # positional arguments that LOOK like name=value but whose would-be name contains a character no name can
            # contain (& [ ]): the hooks must see them as positional values, untrimmed
            n = rng.choice(NAMES)
            txt = rng.choice(["R&D=yes", "&nbsp;= y", "a]b=c", "a[b= c ", "x&y=1"])
            args = [("pos", ("S", [("T", txt)]))]
            if rng.random() < 0.5:
                args.insert(0, ("pos", ("S", [("T", "p")])))
            page = ("S", page[1] + [("C", n, n, args)])
            tags.add("arg:amp-or-bracket-before-equals")
        r = rng.random()
        if r < 0.10:
            items = page[1] + gen_invokes(rng, cfg, tags)
            rng.shuffle(items)
            page = ("S", items)
        elif r < 0.15:
            page = respell(rng, page, 0.6)
    else:
        lib, page = base["lib"], base["page"]
    sel_bits = i % 64
    sel = set(n for j, n in enumerate(NAMES) if sel_bits >> j & 1)
    notsel = set(n for n in NAMES if rng.random() < 0.15) if rng.random() < 0.4 else None
    flags = set(n for n in NAMES if rng.random() < 0.2) if rng.random() < 0.5 else set()
    if base is not None:
        flags = set(base["flags"])      # same stored library: no add_page between the calls of a group
    pf = rng.random() < 0.7
    inv = rng.random() < 0.6
    hook = rng.choice(["none", "none", "record", "marker", "post"])
    mode = "selective"
    r = rng.random()
    if r < 0.08:
        mode = "no-pre-expand-with-selection"      # tagged class (a)
    elif r < 0.16:
        mode = "identity"
    return {"lib": lib, "page": page, "sel": sorted(sel), "notsel": None if notsel is None else sorted(notsel),
            "flags": sorted(flags), "pf": pf, "inv": inv, "hook": hook, "mode": mode}


def _digest(*xs):
    from vf.core.obs import h64
    return h64(repr(xs))


def marker(c, name, args):
    """Hook policy is a pure function of (name, args): independent of evaluation order."""
    if c["hook"] != "marker":
        return None
    d = _digest(name, sorted(map(repr, args.items())))
    if int(d[:2], 16) % 2:
        return None
    # one marker in ten starts with a list marker: "its non-None result is used verbatim as the expansion"
    lead = "*:#;"[int(d[4:6], 16) % 4] if c.get("list_markers", True) and int(d[2:4], 16) % 10 == 0 else ""
    return lead + "«M" + d[:4] + "»"


def post_marker(c, name, args, t):
    if c["hook"] != "post":
        return None
    d = _digest(name, sorted(map(repr, args.items())), t)
    if int(d[:2], 16) % 2:
        return None
    return "«P" + d[:4] + "»"


def effective(c):
    eff = set(c["sel"]) | set(c["flags"])
    if c["notsel"] is not None:
        eff -= set(c["notsel"])
    return eff


_SEL, _NOT = set(), set()
_LOADED = {}


def run_real(ctx, c, text=None, full=False):
    """Run the real expand; returns (output, hook_calls, post_calls)."""
    calls, posts = [], []

    def tf(name, args):
        calls.append((name, dict(args)))
        return marker(c, name, args)

    def ptf(name, args, t):
        posts.append((name, dict(args), t))
        return post_marker(c, name, args, t)
    kw = {}
    if not full:
        if c["mode"] == "no-pre-expand-with-selection":
            kw = dict(pre_expand=False, templates_to_expand=set(c["sel"]))
        elif c["mode"] == "identity":
            kw = dict(pre_expand=True, templates_to_expand=set(), expand_parserfns=False, expand_invoke=False)
        else:
            if c.get("reuse_sets"):
                # the caller keeps ONE set object per argument and edits it in place between calls
                _SEL.clear(); _SEL.update(c["sel"])
                _NOT.clear(); _NOT.update(c["notsel"] or ())
                kw = dict(pre_expand=True, templates_to_expand=_SEL,
                          templates_to_not_expand=None if c["notsel"] is None else _NOT, expand_parserfns=c["pf"],
                          expand_invoke=c.get("inv", True))
            else:
                kw = dict(pre_expand=True, templates_to_expand=set(c["sel"]),
                          templates_to_not_expand=None if c["notsel"] is None else set(c["notsel"]),
                          expand_parserfns=c["pf"], expand_invoke=c.get("inv", True))
        if c["hook"] != "none":
            kw["template_fn"] = tf
            kw["post_template_fn"] = ptf
    ctx.start_page("Pg")
    try:
        with cpu_guard(20):
            out = ctx.expand(G.render(c["page"]) if text is None else text, **kw)
    except CpuBudget:
        out = "<<CPU-BUDGET>>"
    except Exception as e:
        out = "<<EXC " + exc_sig(e) + ">>"
    return out, calls, posts


class Ref13(Ref):
    """The shared reference plus the two page-level shapes only this property generates."""
    inv = True      # expand_invoke

    def ev(self, a, frame, stack=(), full=None):
        k = a[0]
        if k not in ("INV", "RN"):
            return super().ev(a, frame, stack, full)
        if full is None:
            full = self.selection is None
        if k == "RN":
            # a parser function is a parser function under every spelling of its name; left alone it is emitted
            # "as a call with the same name"
            self.hit("parserfn-name-respelled")
            out = self.ev(a[2], frame, stack, full)
            if not self.pf:
                self.hit("CLASS:disabled-parserfn-name-spelling")
                return "{{" + a[1] + out[out.index(":"):]
            return out
        fn, args = a[1], a[2]
        if not self.pf or not self.inv:
            # left alone like every other call that is not expanded: same name, arguments under the selection
            self.hit("invoke-left-unexpanded")
            vals = [self.ev(x, frame, stack, full) for x in args]
            if vals != [G.render(x) for x in args]:
                self.hit("CLASS:selected-call-inside-disabled-parserfn")
            if any(v.endswith("\n") for v in vals):
                self.hit("CLASS:pos-trailing-newline")      # a later evaluation drops it (make_frame)
            out = "{{#invoke:c13echo|" + fn + "".join("|" + v for v in vals) + "}}"
            if (frame is not None or full) and "=" in out:
                self.hit("CLASS:disabled-parserfn-text-with-equals-inside-expanded-call")
            return out
        self.hit("invoke-evaluated")
        read = args if fn == "echo" else args[:1] if fn == "first" else []
        if len(read) < len(args):
            self.hit("invoke-argument-never-read")
        n0 = len(self.calls)
        vals = []
        for x in read:
            if G.render(x).endswith("\n"):
                self.hit("CLASS:pos-trailing-newline")      # make_frame drops it, as for template arguments
            vals.append(self.ev(x, frame, stack, True))      # arguments of an evaluated call: fully expanded
        if len(self.calls) != n0:
            self.hit("invoke-argument-with-call-evaluated")
            if self.hook is not None:
                self.hit("CLASS:hooked-call-inside-invoke-argument")
        return {"echo": "E(" + ",".join(vals) + ")", "first": "F(" + "".join(vals) + ")", "none": "N()"}[fn]


def reference(c, lang):
    if c["mode"] == "identity":
        sel, pf, inv = set(), False, False
    elif c["mode"] == "no-pre-expand-with-selection":
        sel, pf, inv = set(c["sel"]), True, True          # README: "or just these if it is false"
    else:
        sel, pf, inv = effective(c), c["pf"], c.get("inv", True)
    calls, posts = [], []

    def hook(name, ht):
        calls.append((name, dict(ht)))
        return marker(c, name, ht)

    def post(name, ht, t):
        posts.append((name, dict(ht), t))
        return post_marker(c, name, ht, t)
    r = Ref13(c["lib"], selection=sel, pf=pf, hook=hook if c["hook"] != "none" else None,
              post=post if c["hook"] != "none" else None)
    r.inv = inv
    r.hook_verbatim = True      # "its non-None result is used verbatim as the expansion"
    r.post_on_empty = True      # "post_template_fn sees the default expansion and may replace it"
    r.template_ns_name = ctx_for(lang).NAMESPACE_DATA["Template"]["name"]
    if lang != "en":
        r.full_body = set(c["flags"]) if c["mode"] == "selective" else set()
    try:
        out = r.ev(c["page"], None)
    except Cycle:
        return None, r, calls, posts
    return out, r, calls, posts


def check(ctx, c, lang, obs=None):
    """Returns list of (sig, msg)."""
    want = (id(c["lib"]), tuple(sorted(c["flags"] if c["mode"] == "selective" else [])), id(ctx))
    if not (c.get("same_library_as_previous") and _LOADED.get("key") == want):
        load(ctx, c["lib"], c["flags"] if c["mode"] == "selective" else [])
        _LOADED["key"] = want
        _LOADED["lib"] = c["lib"]     # keeps the id() alive
    elif obs:
        obs.count("calls-on-unchanged-store(no add_page since previous call)")
    exp, r, rcalls, rposts = reference(c, lang)
    if exp is None:
        return None, None
    got, calls, posts = run_real(ctx, c)
    probs = []
    classes = sorted(k[6:] for k in r.rules if k.startswith("CLASS:") and k[6:] not in SETTLED_CLASSES)
    if c["mode"] == "no-pre-expand-with-selection":
        classes.append("pre_expand=False+templates_to_expand")
    if len(classes) > 1:
        if obs:
            obs.count("multi-class-case-not-asserted")
        return [], r
    ctag = ("/class=" + classes[0]) if classes else ""
    if obs:
        obs.check("selective==reference")
        obs.count("asserted.class=" + (classes[0] if classes else "main"))

    def P(sig, msg):
        # tagged classes get ONE signature each (the region where the statement does not fix the answer
        # or a listed deviation applies); everything else keeps its precise kind
        probs.append(("mismatch" + ctag if ctag else sig, sig + ": " + msg))
    if got.startswith("<<"):
        probs.append(("raises-or-hangs:" + got[2:-2], got))
    elif c["mode"] == "identity":
        if obs:
            obs.check("identity")
        if got != G.render(c["page"]):
            P("identity-broken", "in=%r out=%r" % (G.render(c["page"]), got))
    elif got != exp:
        P("selective-output!=reference", "expected=%r got=%r" % (exp, got))
    from vf.core.canon import PLACEHOLDER_RE
    hook_ph = c["hook"] != "none" and PLACEHOLDER_RE.search("".join(str(x) for cl in (calls, posts) for tup in cl for x in ([tup[0]] + list(tup[1].values()) + list(tup[2:]))))
    if hook_ph:
        # template_fn / post_template_fn were handed text that still contains internal cookie characters
        probs[:] = [p for p in probs if p[0].startswith("raises")]
        P("hook-sees-internal-placeholder", "calls=%r posts=%r" % (calls[:3], posts[:3]))
    if c["hook"] != "none" and not got.startswith("<<") and not hook_ph:
        if obs:
            obs.check("hook-calls")
        if sorted(map(repr, calls)) != sorted(map(repr, rcalls)):
            kind = "multiset"
            if len(calls) != len(rcalls):
                kind = "count(%s)" % ("more" if len(calls) > len(rcalls) else "fewer")
            P("template_fn-calls-%s" % kind, "expected=%r got=%r" % (rcalls[:6], calls[:6]))
        if sorted(map(repr, posts)) != sorted(map(repr, rposts)):
            from collections import Counter
            want, have = Counter(map(repr, rposts)), Counter(map(repr, posts))
            missing = [x for x in rposts if (want - have).get(repr(x))]
            if not (have - want) and all(x[2] == "" for x in missing):
                # "post_template_fn sees the default expansion": the only calls that are missing are those for an
                # expansion that is empty
                P("post_template_fn-not-called-for-empty-expansion", "missing=%r got=%r" % (missing[:4], posts[:4]))
            else:
                P("post_template_fn-calls", "expected=%r got=%r" % (rposts[:4], posts[:4]))
        if obs:
            if c["hook"] == "marker" and "«M" in got:
                obs.count("hook.marker-used")
            if c["hook"] == "marker" and any(x + "«M" in got for x in "*:#;"):
                obs.count("hook.marker-starts-with-list-marker")
            if c["hook"] == "post" and "«P" in got:
                obs.count("hook.post-marker-used")
    # confluence: what selective expansion leaves behind still means the same (hook-free, plain alphabet)
    if c["hook"] == "none" and c["mode"] == "selective" and not got.startswith("<<") and c["pf"]:
        full1, _, _ = run_real(ctx, c, full=True)
        full2, _, _ = run_real(ctx, c, text=got, full=True)
        if obs:
            obs.check("confluence")
        # the automatic newline before a list marker depends on where an expansion *starts*, which
        # selective expansion legitimately shifts: compare modulo newlines directly before a marker
        import re as _re
        # (whole runs: a content line break and the automatic newline can both stand before the same marker)
        nrm = lambda t: _re.sub(r"\n+(?=[*#:;])", "", t)
        if nrm(full1) != nrm(full2) and not full1.startswith("<<"):
            P("confluence-broken", "expand(p)=%r expand(expand_sel(p))=%r sel-out=%r" % (full1, full2, got))
    return probs, r


def minimise(ctx, c, lang, sig, budget=1500):
    steps = 0

    def still(c2):
        p, _ = check(ctx, c2, lang)
        return p is not None and any(s == sig for s, _ in p)
    improved = True
    while improved and steps < budget:
        improved = False
        for cand in G.shrinks(c["page"]):
            steps += 1
            if steps > budget:
                break
            c2 = dict(c, page=cand)
            if still(c2):
                c = c2
                improved = True
                break
        if improved:
            continue
        for name in list(c["lib"]):
            for cand in G.shrinks(c["lib"][name]):
                steps += 1
                if steps > budget:
                    break
                l2 = dict(c["lib"])
                l2[name] = cand
                c2 = dict(c, lib=l2)
                if still(c2):
                    c = c2
                    improved = True
                    break
            if improved or steps > budget:
                break
    return c


def describe(c):
    return {"page": G.render(c["page"]), "library": {n: G.render(b) for n, b in c["lib"].items()},
            "templates_to_expand": c["sel"], "templates_to_not_expand": c["notsel"], "need_pre_expand": c["flags"],
            "expand_parserfns": c["pf"], "expand_invoke": c.get("inv", True), "hook": c["hook"], "mode": c["mode"]}


def run_shard(spec):
    import wikitextprocessor.core as core
    import wikitextprocessor.luaexec as luaexec
    obs = Obs()
    rng = random.Random(spec["seed"])
    lang = spec["lang"]
    ctx = ctx_for(lang)
    anchors.watch({"core.Wtp.check_template_need_expand": core.Wtp.check_template_need_expand,
                   "core.Wtp._unexpanded_template": core.Wtp._unexpanded_template,
                   "core.expand_parserfn": (core.Wtp.expand, "expand_parserfn"),
                   "luaexec.call_lua_sandbox": luaexec.call_lua_sandbox})
    mins = 0
    base = None
    for i in range(spec["n"]):
        # groups of 4 configurations share one stored library and page (no add_page in between): different
        # selections / switches / hooks are applied one after the other to the SAME context state
        if i % 4 == 0:
            base = None
        c = make_cfg(rng, i + spec["seed"], base)
        if base is not None and c["mode"] == "selective" and base["mode"] == "selective":
            c["same_library_as_previous"] = True
            obs.count("grouped-configurations(no add_page in between)")
        c["reuse_sets"] = (i // 4) % 2 == 1
        if base is None:
            base = c
        probs, r = check(ctx, c, lang, obs)
        if probs is None:
            obs.count("reference-cycle-skipped")
            continue
        for k, v in r.rules.items():
            obs.count("rule." + k, v)
        obs.add("selections", ",".join(c["sel"]))
        obs.count("mode." + c["mode"])
        obs.count("hook-policy." + c["hook"])
        if c["mode"] == "selective":
            obs.count("switch.expand_invoke=%s+expand_parserfns=%s" % (c.get("inv", True), c["pf"]))
        obs.count("lang." + lang)
        nontriv = (r.rules.get("call-left-unexpanded", 0) > 0 and r.rules.get("template-expanded", 0) > 0) or c["mode"] == "identity"
        d = describe(c)
        obs.case(d, nontrivial=nontriv, sample=d)
        for sig, msg in dict(probs).items():
            c2 = c
            if mins < 40 and "/class=" not in sig and not c.get("same_library_as_previous"):
                mins += 1
                c2 = minimise(ctx, c, lang, sig)
                p2, _ = check(ctx, c2, lang)
                msg = next((m for s, m in (p2 or []) if s == sig), msg)
            obs.violation(sig, "%s :: %r" % (msg[:400], describe(c2)), {"cfg": c2, "lang": lang})
    obs.anchors.update(anchors.snapshot())
    return obs


def replay(case):
    c = case["cfg"]
    c = dict(c, lib={k: G.fromjson(v) for k, v in c["lib"].items()}, page=G.fromjson(c["page"]))
    ctx = ctx_for(case.get("lang", "en"))
    probs, r = check(ctx, c, case.get("lang", "en"))
    return {"violations": [s for s, _ in (probs or [])], "details": probs, "config": describe(c)}
