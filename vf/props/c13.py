"""C13 -- selective expansion expands exactly the selected templates and honours the hooks.

Monitors: (1) selective reference evaluator (vf.ref.transclusion.Ref with a selection) vs Wtp.expand,
(2) confluence: expand(expand(p, selection)) == expand(p) (both sides real code), (3) recording
template_fn / post_template_fn hooks vs the reference call list."""
from __future__ import annotations

import random

from vf.core.obs import Obs, cpu_guard, CpuBudget, exc_sig
from vf.core import anchors
from vf.gen import expansion as G
from vf.ref.transclusion import Ref, Cycle
from vf.props import c04

LEVEL = "exploration"
RULE = ("configurations = (acyclic library of 6 templates, page from the expansion grammar, templates_to_expand subset, "
        "templates_to_not_expand subset, need_pre_expand flag subset, expand_parserfns, expand_invoke(with parserfns), hook policy "
        "none/record/marker-per-call/post-marker, lang_code en|fr); all 64 subsets of the library are used as selections. "
        "non-trivial = distinct configuration in which the reference both expanded >=1 call and left >=1 call unexpanded, or "
        "the identity clause applied")
ASSUMPTIONS = ["reference rules from the expand()/parse() docstrings and README (DESIGN C13)",
               "tagged classes with their own signature: pre_expand=False with a non-None templates_to_expand; parser function "
               "whose first argument calls an unselected template; selected call inside a disabled parser function; disabled "
               "parser function whose first argument starts with a blank"]
WALL = {"quick": 900, "thorough": 5400}
NAMES = ["ta", "tb", "tc", "td", "te", "tf"]


def floors(tier):
    return {"oracle.selective==reference": 2000, "oracle.confluence": 300, "oracle.hook-calls": 500, "oracle.identity": 100,
            "sets.selections": 64, "counters.rule.call-left-unexpanded": 200, "counters.rule.template-expanded": 200,
            "counters.rule.parserfn-left-unexpanded": 50, "anchors.core.Wtp.check_template_need_expand": 500,
            "anchors.core.Wtp._unexpanded_template": 200, "counters.hook.marker-used": 50, "counters.hook.post-marker-used": 20}


def shards(tier, seed):
    per = {"quick": 6000, "thorough": 90000}[tier]
    return [{"seed": seed * 1000 + i, "n": per, "lang": "fr" if i % 8 == 7 else "en"} for i in range(16)]


_CTX = {}


def ctx_for(lang):
    if lang not in _CTX:
        from vf.core.wtp import fresh
        cm = fresh(lang_code=lang)
        _CTX[lang] = (cm, cm.__enter__())
        import atexit
        atexit.register(lambda: cm.__exit__(None, None, None))
    return _CTX[lang][1]


def load(ctx, lib, flags):
    tid = ctx.NAMESPACE_DATA["Template"]["id"]
    # no DELETE: the six library titles are stored AGAIN (upsert) with the new bodies and flags, as a long-lived
    # store sees them; 'missing' is never stored
    for n, b in lib.items():
        ctx.add_page(ctx.NAMESPACE_DATA["Template"]["name"] + ":" + n, tid, G.render(b), need_pre_expand=(n in flags))
    try:
        type(ctx).get_page.cache_clear()
    except AttributeError:
        pass


def make_cfg(rng, i, base=None):
    tags = set()
    cfg = G.Cfg(include_tags=False, missing=True, table_marker=False)
    if base is None:
        lib = G.gen_library(rng, 6, rng.randint(1, 2), cfg, tags, names=NAMES)
        page = G.seq(rng, rng.randint(1, 3), NAMES, False, cfg, tags)
        if rng.random() < 0.25:
            # calls whose name is computed by a nested parser function: {{t{{#if:1|a}}|x}}
            extra = []
            for _ in range(rng.randint(1, 2)):
                letter = rng.choice("abcdefz")
                inner = ("IF", ("S", [("T", "1")]), ("S", [("T", letter)]), ("S", [("T", "")]))
                if rng.random() < 0.5:
                    # ... or by a call of a library template (selected or not): {{t{{ta}}|x}}
                    n = rng.choice(NAMES)
                    inner = ("C", n, n, [("pos", ("S", [("T", letter)]))] if rng.random() < 0.4 else [])
                args = [("pos", ("S", [("T", rng.choice(["x", "y 1", ""]))]))] if rng.random() < 0.6 else []
                extra.append(("CN", "t", inner, "t" + letter, args))
            page = ("S", page[1] + extra)
    else:
        lib, page = base["lib"], base["page"]
    sel_bits = i % 64
    sel = set(n for j, n in enumerate(NAMES) if sel_bits >> j & 1)
    notsel = set(n for n in NAMES if rng.random() < 0.15) if rng.random() < 0.4 else None
    flags = set(n for n in NAMES if rng.random() < 0.2) if rng.random() < 0.5 else set()
    if base is not None:
        flags = set(base["flags"])      # same stored library: no add_page between the calls of a group
    pf = rng.random() < 0.7
    hook = rng.choice(["none", "none", "record", "marker", "post"])
    mode = "selective"
    r = rng.random()
    if r < 0.08:
        mode = "no-pre-expand-with-selection"      # tagged class (a)
    elif r < 0.16:
        mode = "identity"
    return {"lib": lib, "page": page, "sel": sorted(sel), "notsel": None if notsel is None else sorted(notsel),
            "flags": sorted(flags), "pf": pf, "hook": hook, "mode": mode}


def _digest(*xs):
    from vf.core.obs import h64
    return h64(repr(xs))


def marker(c, name, args):
    """Hook policy is a pure function of (name, args): independent of evaluation order."""
    if c["hook"] != "marker":
        return None
    d = _digest(name, sorted(map(repr, args.items())))
    if int(d[:2], 16) % 2:
        return None
    return "«M" + d[:4] + "»"


def post_marker(c, name, args, t):
    if c["hook"] != "post":
        return None
    d = _digest(name, sorted(map(repr, args.items())), t)
    if int(d[:2], 16) % 2:
        return None
    return "«P" + d[:4] + "»"


def effective(c):
    eff = set(c["sel"]) | set(c["flags"])
    if c["notsel"] is not None:
        eff -= set(c["notsel"])
    return eff


_SEL, _NOT = set(), set()
_LOADED = {}


def run_real(ctx, c, text=None, full=False):
    """Run the real expand; returns (output, hook_calls, post_calls)."""
    calls, posts = [], []

    def tf(name, args):
        calls.append((name, dict(args)))
        return marker(c, name, args)

    def ptf(name, args, t):
        posts.append((name, dict(args), t))
        return post_marker(c, name, args, t)
    kw = {}
    if not full:
        if c["mode"] == "no-pre-expand-with-selection":
            kw = dict(pre_expand=False, templates_to_expand=set(c["sel"]))
        elif c["mode"] == "identity":
            kw = dict(pre_expand=True, templates_to_expand=set(), expand_parserfns=False, expand_invoke=False)
        else:
            if c.get("reuse_sets"):
                # the caller keeps ONE set object per argument and edits it in place between calls
                _SEL.clear(); _SEL.update(c["sel"])
                _NOT.clear(); _NOT.update(c["notsel"] or ())
                kw = dict(pre_expand=True, templates_to_expand=_SEL,
                          templates_to_not_expand=None if c["notsel"] is None else _NOT, expand_parserfns=c["pf"])
            else:
                kw = dict(pre_expand=True, templates_to_expand=set(c["sel"]),
                          templates_to_not_expand=None if c["notsel"] is None else set(c["notsel"]),
                          expand_parserfns=c["pf"])
        if c["hook"] != "none":
            kw["template_fn"] = tf
            kw["post_template_fn"] = ptf
    ctx.start_page("Pg")
    try:
        with cpu_guard(20):
            out = ctx.expand(G.render(c["page"]) if text is None else text, **kw)
    except CpuBudget:
        out = "<<CPU-BUDGET>>"
    except Exception as e:
        out = "<<EXC " + exc_sig(e) + ">>"
    return out, calls, posts


def reference(c, lang):
    if c["mode"] == "identity":
        sel, pf = set(), False
    elif c["mode"] == "no-pre-expand-with-selection":
        sel, pf = set(c["sel"]), True          # README: "or just these if it is false"
    else:
        sel, pf = effective(c), c["pf"]
    calls, posts = [], []

    def hook(name, ht):
        calls.append((name, dict(ht)))
        return marker(c, name, ht)

    def post(name, ht, t):
        posts.append((name, dict(ht), t))
        return post_marker(c, name, ht, t)
    r = Ref(c["lib"], selection=sel, pf=pf, hook=hook if c["hook"] != "none" else None,
            post=post if c["hook"] != "none" else None)
    r.template_ns_name = ctx_for(lang).NAMESPACE_DATA["Template"]["name"]
    if lang != "en":
        r.full_body = set(c["flags"]) if c["mode"] == "selective" else set()
    try:
        out = r.ev(c["page"], None)
    except Cycle:
        return None, r, calls, posts
    return out, r, calls, posts


def check(ctx, c, lang, obs=None):
    """Returns list of (sig, msg)."""
    want = (id(c["lib"]), tuple(sorted(c["flags"] if c["mode"] == "selective" else [])), id(ctx))
    if not (c.get("same_library_as_previous") and _LOADED.get("key") == want):
        load(ctx, c["lib"], c["flags"] if c["mode"] == "selective" else [])
        _LOADED["key"] = want
        _LOADED["lib"] = c["lib"]     # keeps the id() alive
    elif obs:
        obs.count("calls-on-unchanged-store(no add_page since previous call)")
    exp, r, rcalls, rposts = reference(c, lang)
    if exp is None:
        return None, None
    got, calls, posts = run_real(ctx, c)
    probs = []
    classes = sorted(k[6:] for k in r.rules if k.startswith("CLASS:"))
    if c["mode"] == "no-pre-expand-with-selection":
        classes.append("pre_expand=False+templates_to_expand")
    if len(classes) > 1:
        if obs:
            obs.count("multi-class-case-not-asserted")
        return [], r
    ctag = ("/class=" + classes[0]) if classes else ""
    if obs:
        obs.check("selective==reference")
        obs.count("asserted.class=" + (classes[0] if classes else "main"))

    def P(sig, msg):
        # tagged classes get ONE signature each (the region where the statement does not fix the answer
        # or a listed deviation applies); everything else keeps its precise kind
        probs.append(("mismatch" + ctag if ctag else sig, sig + ": " + msg))
    if got.startswith("<<"):
        probs.append(("raises-or-hangs:" + got[2:-2], got))
    elif c["mode"] == "identity":
        if obs:
            obs.check("identity")
        if got != G.render(c["page"]):
            P("identity-broken", "in=%r out=%r" % (G.render(c["page"]), got))
    elif got != exp:
        P("selective-output!=reference", "expected=%r got=%r" % (exp, got))
    from vf.core.canon import PLACEHOLDER_RE
    hook_ph = c["hook"] != "none" and PLACEHOLDER_RE.search("".join(str(x) for cl in (calls, posts) for tup in cl for x in ([tup[0]] + list(tup[1].values()) + list(tup[2:]))))
    if hook_ph:
        # template_fn / post_template_fn were handed text that still contains internal cookie characters
        probs[:] = [p for p in probs if p[0].startswith("raises")]
        P("hook-sees-internal-placeholder", "calls=%r posts=%r" % (calls[:3], posts[:3]))
    if c["hook"] != "none" and not got.startswith("<<") and not hook_ph:
        if obs:
            obs.check("hook-calls")
        if sorted(map(repr, calls)) != sorted(map(repr, rcalls)):
            kind = "multiset"
            if len(calls) != len(rcalls):
                kind = "count(%s)" % ("more" if len(calls) > len(rcalls) else "fewer")
            P("template_fn-calls-%s" % kind, "expected=%r got=%r" % (rcalls[:6], calls[:6]))
        if sorted(map(repr, posts)) != sorted(map(repr, rposts)):
            P("post_template_fn-calls", "expected=%r got=%r" % (rposts[:4], posts[:4]))
        if obs:
            if c["hook"] == "marker" and "«M" in got:
                obs.count("hook.marker-used")
            if c["hook"] == "post" and "«P" in got:
                obs.count("hook.post-marker-used")
    # confluence: what selective expansion leaves behind still means the same (hook-free, plain alphabet)
    if c["hook"] == "none" and c["mode"] == "selective" and not got.startswith("<<") and c["pf"]:
        full1, _, _ = run_real(ctx, c, full=True)
        full2, _, _ = run_real(ctx, c, text=got, full=True)
        if obs:
            obs.check("confluence")
        # the automatic newline before a list marker depends on where an expansion *starts*, which
        # selective expansion legitimately shifts: compare modulo newlines directly before a marker
        import re as _re
        nrm = lambda t: _re.sub(r"\n(?=[*#:;])", "", t)
        if nrm(full1) != nrm(full2) and not full1.startswith("<<"):
            P("confluence-broken", "expand(p)=%r expand(expand_sel(p))=%r sel-out=%r" % (full1, full2, got))
    return probs, r


def minimise(ctx, c, lang, sig, budget=1500):
    steps = 0

    def still(c2):
        p, _ = check(ctx, c2, lang)
        return p is not None and any(s == sig for s, _ in p)
    improved = True
    while improved and steps < budget:
        improved = False
        for cand in G.shrinks(c["page"]):
            steps += 1
            if steps > budget:
                break
            c2 = dict(c, page=cand)
            if still(c2):
                c = c2
                improved = True
                break
        if improved:
            continue
        for name in list(c["lib"]):
            for cand in G.shrinks(c["lib"][name]):
                steps += 1
                if steps > budget:
                    break
                l2 = dict(c["lib"])
                l2[name] = cand
                c2 = dict(c, lib=l2)
                if still(c2):
                    c = c2
                    improved = True
                    break
            if improved or steps > budget:
                break
    return c


def describe(c):
    return {"page": G.render(c["page"]), "library": {n: G.render(b) for n, b in c["lib"].items()},
            "templates_to_expand": c["sel"], "templates_to_not_expand": c["notsel"], "need_pre_expand": c["flags"],
            "expand_parserfns": c["pf"], "hook": c["hook"], "mode": c["mode"]}


def run_shard(spec):
    import wikitextprocessor.core as core
    obs = Obs()
    rng = random.Random(spec["seed"])
    lang = spec["lang"]
    ctx = ctx_for(lang)
    anchors.watch({"core.Wtp.check_template_need_expand": core.Wtp.check_template_need_expand,
                   "core.Wtp._unexpanded_template": core.Wtp._unexpanded_template,
                   "core.expand_parserfn": (core.Wtp.expand, "expand_parserfn")})
    mins = 0
    base = None
    for i in range(spec["n"]):
        # groups of 4 configurations share one stored library and page (no add_page in between): different
        # selections / switches / hooks are applied one after the other to the SAME context state
        if i % 4 == 0:
            base = None
        c = make_cfg(rng, i + spec["seed"], base)
        if base is not None and c["mode"] == "selective" and base["mode"] == "selective":
            c["same_library_as_previous"] = True
            obs.count("grouped-configurations(no add_page in between)")
        c["reuse_sets"] = (i // 4) % 2 == 1
        if base is None:
            base = c
        probs, r = check(ctx, c, lang, obs)
        if probs is None:
            obs.count("reference-cycle-skipped")
            continue
        for k, v in r.rules.items():
            obs.count("rule." + k, v)
        obs.add("selections", ",".join(c["sel"]))
        obs.count("mode." + c["mode"])
        obs.count("hook-policy." + c["hook"])
        obs.count("lang." + lang)
        nontriv = (r.rules.get("call-left-unexpanded", 0) > 0 and r.rules.get("template-expanded", 0) > 0) or c["mode"] == "identity"
        d = describe(c)
        obs.case(d, nontrivial=nontriv, sample=d)
        for sig, msg in dict(probs).items():
            c2 = c
            if mins < 40 and "/class=" not in sig and not c.get("same_library_as_previous"):
                mins += 1
                c2 = minimise(ctx, c, lang, sig)
                p2, _ = check(ctx, c2, lang)
                msg = next((m for s, m in (p2 or []) if s == sig), msg)
            obs.violation(sig, "%s :: %r" % (msg[:400], describe(c2)), {"cfg": c2, "lang": lang})
    obs.anchors.update(anchors.snapshot())
    return obs


def replay(case):
    c = case["cfg"]
    c = dict(c, lib={k: G.fromjson(v) for k, v in c["lib"].items()}, page=G.fromjson(c["page"]))
    ctx = ctx_for(case.get("lang", "en"))
    probs, r = check(ctx, c, case.get("lang", "en"))
    return {"violations": [s for s, _ in (probs or [])], "details": probs, "config": describe(c)}
