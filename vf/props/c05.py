"""C05 -- expand() terminates and reports failures in-band.

Monitor: boundary wrapper around Wtp.expand recording return | exception | CPU-budget overrun;
for cyclic libraries the reference evaluator's own recursion detector says when a cycle is
actually traversed, and then the output must carry an error element and a recorded message.
Workloads: (A) template call graphs on <=5 templates INCLUDING cycles through bodies, arguments,
defaults and parser-function branches, deep nesting 1..100; (B) every key of PARSER_FUNCTIONS x
hostile argument vectors; (C) #expr/#ifexpr token sequences; (D) magic words on titles in every
namespace; (E) hostile page texts / template bodies: every nestable construct nested far beyond the
depth limit (also under pre_expand), hostile argument NAMES in every place a name is read,
bracket soups and pumped (unit*k) texts without any template, the package's placeholder
characters in the input, and cycles walked through COMPUTED template names; (F) contexts
configured for OTHER wikis (zh/ku with LanguageConverter markers, fr/de/ja/ru; wiktionary and
wikipedia): converter-marker soups, bracket soups, generated libraries with markers scattered
over them, parser functions."""
from __future__ import annotations

import random

from vf.core.obs import Obs, cpu_guard, CpuBudget, exc_sig, innermost_repo_frame
from vf.core import anchors
from vf.gen import expansion as G
from vf.ref.transclusion import Ref, Cycle, FuelExhausted

LEVEL = "exploration"
RULE = ("cases: (A) libraries of <=5 templates with arbitrary call graphs (cycles through bodies/arguments/defaults/#if/#switch "
        "branches; exhaustive adjacency for <=3 templates in thorough) + nesting depth 1..100; (B) every PARSER_FUNCTIONS key "
        "(minus network-bound #property/#statements) x argument vectors none/empty/blank/non-numeric/0/negative/huge/float/inf/"
        "NUL/unicode/'='/long, 0-6 args; (C) #expr/#ifexpr token soups over all operators, functions, domain/overflow literals; "
        "(D) page-title magic words on titles in every namespace incl. talk; (E) hostile texts: each nestable construct (calls, "
        "parser functions, links, external links, parameter names/defaults, mixtures, the same inside parameter defaults and inside "
        "template bodies) nested 150/400/1100 deep with and without pre_expand; argument names (huge/long/non-ASCII digit strings, signs, "
        "blanks) in {{{N}}}, {{{N|d}}}, {{t|N=v}}, bodies, #invoke arguments and parent-frame arguments read from Lua; bracket soups "
        "and pumped texts prefix+unit*k+suffix over the bracket vocabulary incl. '-{}-', nowiki, comments (<= 400 chars random; every "
        "prefix x single token pumped to 2000 chars); placeholder characters; "
        "three templates that call the template NAMED by their argument along square-free / periodic words; (F) contexts of 8 other "
        "wikis (lang_code zh/ku/fr/de/ja/ru x wiktionary/wikipedia, two per shard): soups over LanguageConverter markers -{ }- and "
        "their halves (paired, nested, stray, overlapping, inside maths / next to parameter references / produced by templates), "
        "bracket soups, acyclic generated libraries with markers scattered over bodies and page, every parser function x hostile "
        "arguments. non-trivial = distinct "
        "case that reached a template expansion or a parser function call")
ASSUMPTIONS = ["per-case CPU budget (ITIMER_VIRTUAL) 10 s quick / 20 s thorough stands for 'bounded time' on inputs <= 2 kB",
               "network-bound parser functions (#property, #statements) excluded; interwiki table initialised with a stub",
               "Lua stand-ins installed; #invoke is exercised only with a missing module / benign module here (C07 covers Lua)",
               "a page of <= 400 characters that calls no template and no parser function gets 2 CPU-seconds, one of <= 2000 "
               "characters 5 CPU-seconds (part E bracket soups; such pages normally take a few milliseconds)"]
WALL = {"quick": 1200, "thorough": 7200}
EXCLUDE = {"#property", "#statements"}

VALUES = ["", " ", "x", "abc", "0", "1", "-1", "2", "10", "007", "1.5", "-0.5", ".5", "1e3", "1e400", "-1e400", "1" + "0" * 400,
          "9" * 5000, "inf", "nan", "NaN", "1/0", "0x10", "١٢", "²", "①", "\x00", "é語", "a=b", "=", "|", "{{!}}", "a/b/c",
          "A:B:C", "../x", "./y", "/", "Talk:x", "Template:Foo", "Module:m", ":x", "x" * 3000, "-", "+", "1 2", "1,000", "1.000,5",
          "2020-01-01", "now", "@0", "@99999999999999999", "garbage date", "Y-m-d", "%", "\\", "<b>", "&amp;", "'", "\"", "[[a]]",
          "#", "##", "*", "en", "xx-unknown", "R", "NOSEP", "-100", "100", "99999999999", "0.0000001", "\n", "a\nb", "\t"]
EXPR_TOK = ["1", "2", "0", "-1", "1.5", ".5", "1e3", "1e400", "2e-400", "9" * 400, "1000", "999999999", "pi", "e", "+", "-", "*", "/",
            "^", "mod", "div", "round", "=", "<>", "!=", "<", ">", "<=", ">=", "and", "or", "not", "(", ")", "ceil", "floor",
            "trunc", "abs", "exp", "ln", "sin", "cos", "tan", "asin", "acos", "atan", "sqrt", "fmod", "E", "PI", "x", ".", "e5", "1e",
            "--1", "1 1", "0^-1", "ln 0", "acos 2", "sqrt -1", "exp 1000", "10^1000", "1 mod 0", "1 div 0", "1/0", "1 round 1.5",
            "1 round 400", "5 round -400", "2 e 9", "2 e 999999999", "1 e 1e9", "0 e -99999999999", "(3-3) e -99999999999", "e -999999999",
            "-99999999999", "0.0 e -99999999999", "1000 e -99999999999", "0 e 99999999999", "99999999999", "fmod", "10 fmod 0", "trunc 1e400", "ceil 1e308*10"]
TITLES = ["Pg", "Talk:Zz", "User talk:A/b", "Template:Foo/doc", "Module:m", "Category:C", "Wiktionary:W/x/y", "Appendix talk:Q",
          "Thesaurus:t", "a/b/c", "Talk:a/b", "File:x.png", "MediaWiki talk:z", "Reconstruction:Proto/x", "Rhymes:English/a",
          ":x", "Main:y", "Special:Foo", "Help talk:h", "é語", "Citations:c"]


def floors(tier):
    return {"counters.part.A": 200, "counters.part.B": 1000, "counters.part.C": 500, "counters.part.D": 100,
            "oracle.returns-str-in-budget": 3000, "oracle.cycle-reported-in-band": 50, "counters.loop_detector_fired": 50, "counters.redirect-libraries": 10,
            "counters.depth_limit_fired": 1, "sets.parser_functions": 140, "anchors.parserfns.expr_fn": 300,
            "anchors.core.detect_expand_template_loop": 300,
            "counters.E.deep-nesting>100": len(DEEP_COMBOS), "sets.deep-shapes": 2 * len(DEEP_SHAPES),
            "oracle.deep-nesting>100-never-raises": len(DEEP_COMBOS),
            "counters.E.hostile-argument-names": len(NAME_COMBOS), "sets.name-classes": 5,
            "counters.E.placeholder-chars": len(PLACEHOLDER_COMBOS), "counters.E.computed-name-walks": 90,
            "counters.E.computed-name-walks(branching)": 1, "counters.E.soup.pumped": 500, "counters.E.soup.random": 500,
            "oracle.bracket-soup-returns-in-2s": 1800, "oracle.pumped-2kB-page-returns-in-5s": len(PUMP_COMBOS),
            "sets.wikis": len(WIKIS), "counters.F.conv": 1500, "counters.F.soup": 800, "counters.F.lib": 500, "counters.F.pf": 1000,
            "oracle.other-wiki-context-returns-str-in-budget": 4000}


def shards(tier, seed):
    per = {"quick": 1500, "thorough": 70000}[tier]
    bud = {"quick": 10, "thorough": 20}[tier]
    sp = [{"seed": seed * 1000 + i, "n": per, "budget": bud, "tier": tier, "idx": i} for i in range(16)]
    return sp


_CTX = None
# e.f: as before; e.a / e.p read every argument of the frame / of the parent frame (names travel into Lua)
MODULE_M = ("local e={}\nfunction e.f(fr) return 'ok' end\n"
            "function e.a(fr) local s='' for k,v in pairs(fr.args) do s=s..type(k)..'='..tostring(v)..';' end return s end\n"
            "function e.p(fr) local s='' for k,v in pairs(fr:getParent().args) do s=s..type(k)..'='..tostring(v)..';' end return s end\n"
            "return e")


def ctx():
    global _CTX
    if _CTX is None:
        from vf.core.wtp import fresh
        cm = fresh(lua=True, pages=[("Module:m", 828, MODULE_M)])
        _CTX = (cm, cm.__enter__())
        import atexit
        atexit.register(lambda: cm.__exit__(None, None, None))
    return _CTX[1]


_LIB = {}
_WIKI_CTX = {}


def wiki_ctx(lang, project):
    """A context configured for another wiki (the expander has language- and project-dependent branches: LanguageConverter
    markers on zh/ku, localised namespaces, number format, full body expansion outside en.wiktionary)."""
    key = (lang, project)
    if key not in _WIKI_CTX:
        from vf.core.wtp import fresh
        cm = fresh(lua=True, pages=[("Module:m", 828, MODULE_M)], lang_code=lang, project=project)
        _WIKI_CTX[key] = (cm, cm.__enter__())
        import atexit
        atexit.register(lambda: cm.__exit__(None, None, None))
    return _WIKI_CTX[key][1]


def load_library(c, lib_texts):
    _LIB["cur"] = lib_texts if c is ctx() else _LIB.get("cur")    # bookkeeping is for the main (en) context only
    c.db_conn.execute("DELETE FROM pages WHERE namespace_id = 10")
    for n, b in lib_texts.items():
        if isinstance(b, str) and b.startswith("#REDIRECT>"):
            c.add_page("Template:" + n, 10, None, redirect_to=b[10:])     # a redirect page
        else:
            c.add_page("Template:" + n, 10, b)
    try:
        type(c).get_page.cache_clear()
    except AttributeError:
        pass


def run(c, title, text, budget, **kw):
    """Boundary wrapper. Returns (kind, value): kind in ok|exc|cpu."""
    c.start_page(title)
    try:
        with cpu_guard(budget):
            out = c.expand(text, **kw)
    except CpuBudget as e:
        return "cpu", str(e)[-700:]
    except RecursionError as e:
        return "exc", e
    except Exception as e:
        return "exc", e
    return "ok", out


# ---------------------------------------------------------------- part A
def gen_cyclic(rng):
    tags = set()
    n = rng.randint(1, 5)
    names = ["ta", "tb", "tc", "td", "te"][:n]
    cfg = G.Cfg(include_tags=False, missing=True, max_args=2, table_marker=False)
    lib = {}
    for nm in names:
        lib[nm] = G.seq(rng, rng.randint(1, 2), names, True, cfg, tags)   # may call ANY template incl. itself
    page = G.seq(rng, rng.randint(1, 2), names, False, cfg, tags)
    return lib, page


def graph_case(k, bits, rng):
    """Exhaustive part: adjacency matrix `bits` over k templates; edge i->j placed in body / argument / default / #if branch."""
    names = ["ta", "tb", "tc"][:k]
    lib = {}
    for i, a in enumerate(names):
        parts = ["x"]
        for j, b in enumerate(names):
            if bits >> (i * k + j) & 1:
                where = rng.randrange(5)
                parts.append(["{{%s}}" % b, "{{%s|{{%s}}}}" % (rng.choice(names), b), "{{{1|{{%s}}}}}" % b,
                              "{{#if:{{{1|}}}|y|{{%s}}}}" % b, "{{%s|n={{%s|{{%s}}}}}}" % (b, b, b)][where])
        lib[a] = "".join(parts)
    return lib, "{{ta}}{{%s|1}}" % names[-1]


def periodic_branching(rng):
    """Two or more recursive calls in ONE argument position: the stack repeats a single pattern, which the loop
    detector recognises on the unchanged tree (returns in milliseconds)."""
    k = rng.randint(2, 3)
    sep = rng.choice(["-", "", " ", "x"])
    inner = sep.join(["{{ta}}"] * k)
    form = rng.randrange(4)
    if form == 0:
        lib = {"ta": "{{tb|" + inner + "}}", "tb": "[{{{1}}}]"}
    elif form == 1:
        lib = {"ta": "{{tb|n=" + inner + "}}", "tb": "[{{{n}}}]"}
    elif form == 2:
        lib = {"ta": "{{tb|q|" + inner + "}}", "tb": "[{{{2}}}]"}
    else:
        lib = {"ta": "{{tb|{{tc|" + inner + "}}}}", "tb": "[{{{1}}}]", "tc": "<{{{1}}}>"}
    return lib, "{{ta}}"


def redirect_case(rng):
    """Libraries with redirect pages: chains, self-redirects and redirect cycles, targets spelled canonically or not
    (lower-case initial, '_' for blank, prefix omitted / aliased / other case)."""
    def sp(name):       # a spelling of Template:<name>
        r = rng.randrange(7)
        core = name
        if r == 1:
            core = name[0].lower() + name[1:]
        elif r == 2:
            core = name.replace(" ", "_")
        pre = ["Template:", "Template:", "template:", "T:", "", "Template:", "TEMPLATE:"][r]
        return pre + core
    names = ["Ra", "Rb c", "Rd"]
    shape = rng.randrange(5)
    lib = {"tz": "Z[{{{1|}}}]"}
    if shape == 0:      # self-redirect
        lib["Ra"] = "#REDIRECT>" + sp("Ra")
    elif shape == 1:    # 2-cycle
        lib["Ra"] = "#REDIRECT>" + sp("Rb c")
        lib["Rb c"] = "#REDIRECT>" + sp("Ra")
    elif shape == 2:    # 3-cycle
        lib["Ra"] = "#REDIRECT>" + sp("Rb c")
        lib["Rb c"] = "#REDIRECT>" + sp("Rd")
        lib["Rd"] = "#REDIRECT>" + sp("Ra")
    elif shape == 3:    # chain ending in a template / in nothing
        lib["Ra"] = "#REDIRECT>" + sp("Rb c")
        lib["Rb c"] = "#REDIRECT>" + sp(rng.choice(["tz", "Nowhere"]))
    else:               # redirect to a template that calls the redirect again
        lib["Ra"] = "#REDIRECT>" + sp("Rd")
        lib["Rd"] = "x{{Ra}}{{rb c|{{ra}}}}"
        lib["Rb c"] = "#REDIRECT>" + sp("Ra")
    text = " ".join(rng.choice(["{{Ra}}", "{{ra|1}}", "{{Rb c}}", "{{rb_c|x}}", "{{Template:Rd}}", "{{T:ra}}", "{{#if:{{Ra}}|y|n}}", "{{tz|{{Rb c}}}}"])
                    for _ in range(rng.randint(1, 3)))
    return lib, text


def deep_case(rng):
    d = rng.randint(1, 100)
    r = rng.random()
    if r < 0.3:
        return "{{ta|" * d + "x" + "}}" * d
    if r < 0.5:
        return "{{#if:x|" * d + "y" + "}}" * d
    if r < 0.7:
        return "{{{1|" * d + "z" + "}}}" * d
    if r < 0.85:
        return "[[a|" * min(d, 40) + "{{ta|q}}" + "]]" * min(d, 40)
    return "{{lc:" * d + "ABC" + "}}" * d


def call_contexts(text):
    """Tiny brace scanner (harness-side, only used to NAME a runaway expansion): yields (callee, context) for every
    {{callee|...}} in text, where context is the tuple of (enclosing callee, argument index) pairs inside this text."""
    out = []
    stack = []          # [callee, argindex]
    i = 0
    n = len(text)
    while i < n:
        if text.startswith("{{{", i) and not text.startswith("{{{{", i):
            stack.append(["{{{", 0])       # parameter reference: not a call context, but its default may hold calls
            i += 3
            continue
        if text.startswith("{{", i):
            j = i + 2
            k = j
            while k < n and text[k] not in "|}{":
                k += 1
            callee = text[j:k].strip().lstrip("#").split(":")[0]
            if not callee and k < n and text[k] == "{":
                callee = "*"                   # {{ {{...}} | ...}}: the name is computed, it may be ANY template
            out.append((callee, tuple((c, a) for c, a in stack if c != "{{{")))
            stack.append([callee, 0])
            i = k
            continue
        if text.startswith("}}}", i) and stack and stack[-1][0] == "{{{":
            stack.pop()
            i += 3
            continue
        if text.startswith("}}", i):
            if stack:
                stack.pop()
            i += 2
            continue
        if text[i] == "|" and stack:
            stack[-1][1] += 1
        i += 1
    return out


def recursion_shape(lib_texts, text):
    if any(isinstance(b, str) and b.startswith("#REDIRECT>") for b in lib_texts.values()):
        return "library-with-redirect-pages"
    return _recursion_shape(lib_texts, text)


def _recursion_shape(lib_texts, text):
    """Mechanism tag for a runaway expansion.  Which bodies call templates that lie on a call-graph cycle, how many
    times, and do those calls sit in the SAME argument position (the expansion stack then repeats one pattern, which the
    loop detector is meant to recognise) or in DIFFERENT positions (aperiodic stack paths)?"""
    calls = {nm: [(c, ctx) for c, ctx in call_contexts(b) if c in lib_texts or c == "*"] for nm, b in lib_texts.items()}
    reach = {nm: set().union(*[set(lib_texts) if c == "*" else {c} for c, _ in v]) for nm, v in calls.items()}
    changed = True
    while changed:
        changed = False
        for nm in reach:
            new = set(reach[nm])
            for m in list(reach[nm]):
                new |= reach.get(m, set())
            if new != reach[nm]:
                reach[nm] = new
                changed = True
    cyc = {nm for nm in reach if nm in reach[nm]}
    if not cyc:
        return "acyclic-library"
    worst, positions = 0, 0
    for nm, v in calls.items():
        if nm not in cyc:
            continue
        into = [(c, ctx) for c, ctx in v if c in cyc or c == "*"]
        worst = max(worst, len(into))
        # different argument positions OR different callees in one position: the stack paths differ from branch to
        # branch; only the SAME callee repeated in the SAME position gives one repeating stack pattern
        positions = max(positions, len(set(into)))
        if len(into) >= 2 and any(c == "*" for c, _ in v):
            positions = max(positions, 2)      # the callee varies with the argument: the stack path need not repeat
    if worst < 2:
        return "cyclic-library/linear-recursion"
    if positions >= 2:
        return "cyclic-library/branching-recursion(>=2 calls into the cycle per body)"
    return "cyclic-library/branching-recursion-in-one-argument-position(periodic stack pattern)"


def part_a(c, rng, obs, budget, graph=None):
    if graph is not None:
        lib_texts, text = graph
        lib_ast = None
    else:
        lib_ast, page = gen_cyclic(rng)
        lib_texts = {n: G.render(b) for n, b in lib_ast.items()}
        text = G.render(page)
    load_library(c, lib_texts)
    kind, val = run(c, "Pg", text, budget)
    case = {"part": "A", "library": lib_texts, "text": text}
    obs.check("returns-str-in-budget")
    probs = []
    if kind == "cpu":
        probs.append(("no-return-within-cpu-budget/" + recursion_shape(lib_texts, text), val))
    elif kind == "exc":
        probs.append(("raises:" + exc_sig(val) + "/template-library", repr(val)[:200]))
    else:
        if not isinstance(val, str):
            probs.append(("expand-returns-non-str", type(val).__name__))
        if "Template loop detected" in val:
            obs.count("loop_detector_fired")
        if "too deep recursion" in val:
            obs.count("depth_limit_fired")
        if lib_ast is not None:
            r = Ref(lib_ast)
            r.cycle_marker = "\u27e6CYCLE\u27e7"
            try:
                exp = r.ev(page, None)
            except (RecursionError, FuelExhausted):
                exp = None
                obs.count("reference_gave_up(fuel)")
            if exp is not None and r.rules.get("cycle-or-depth"):
                # the reference met a re-entered template (MediaWiki's loop condition) somewhere
                obs.check("cycle-reported-in-band")
                obs.count("reference_traversed_cycle")
                if not (c.errors or c.warnings):
                    probs.append(("cycle-traversed-but-no-message-recorded", val[:200]))
                if r.cycle_marker in exp:
                    # ... and its result is part of the page's expansion: an error element must show
                    obs.count("reference_cycle_result_used_in_output")
                    if 'class="error"' not in val:
                        probs.append(("cycle-result-used-but-no-error-element", val[:200]))
    return case, probs


# ---------------------------------------------------------------- part B/C/D
TIME_PARSING_FNS = {"time", "timel", "dateformat", "formatdate"}


def pf_case(rng, fn):
    n = rng.choice([0, 0, 1, 1, 2, 3, 4, 6])
    args = [rng.choice(VALUES) for _ in range(n)]
    if rng.random() < 0.15 and args:
        args[rng.randrange(len(args))] = rng.choice(["k=v", "1=x", "lang=en", "a = b "])
    if n == 0:
        return "{{" + fn + rng.choice(["", ":", ": "]) + "}}"
    if fn.lstrip("#").lower() in TIME_PARSING_FNS:
        # the date parser behind these functions is a third-party library whose cost grows quadratically with the
        # length of a junk argument (15 CPU-seconds for 5 000 digits, 4 for 1 000): the stated budget is for pages of
        # at most 2 kB, so the huge values are cut for this family (500 characters: about 1 CPU-second, which leaves the
        # margin that CPU time measured on a busy SMT machine needs)
        args = [a[:500] for a in args]
    return "{{" + fn + ":" + "|".join(args) + "}}"


def expr_case(rng):
    if rng.random() < 0.04:
        # deeply nested / very long well-formed expressions (the evaluator is recursive descent)
        k = rng.choice([30, 49, 60, 100, 200, 400])
        e = rng.choice(["(" * k + "1" + ")" * k, "-" * (k * 10) + "1", "not " * (k * 5) + "1", "1" + "+1" * (k * 20),
                        "(" * k + "1" + "+1)" * k, "abs " * k + "-1", "2" + "^1" * k])
        return rng.choice(["{{#expr:%s}}", "{{#ifexpr:%s|T|F}}", "{{plural:%s|a|b}}", "{{ta|{{ta|{{ta|{{#expr:%s}}}}}}}}"]).replace("%s", e)
    toks = [rng.choice(EXPR_TOK) for _ in range(rng.randint(1, 9))]
    sep = rng.choice([" ", " ", ""])
    e = sep.join(toks)
    r = rng.random()
    if r < 0.6:
        return "{{#expr:" + e + "}}"
    if r < 0.8:
        return "{{#ifexpr:" + e + "|T|F}}"
    if r < 0.9:
        return "{{#iferror:{{#expr:" + e + "}}|E|N}}"
    return "{{formatnum:{{#expr:" + e + "}}}}"


def classify_exc(e, fnhint):
    f, fl = innermost_repo_frame(e)
    return "raises:%s@%s:%s" % (type(e).__name__, fl, f)


PLAIN_LIB = {"ta": "[{{{1|}}}]"}


def one(c, rng, obs, budget, part, fnlist, i):
    if _LIB.get("cur") is not PLAIN_LIB:
        load_library(c, PLAIN_LIB)       # parts B-D never run against a left-over (possibly cyclic) library
    if part == "B":
        fn = fnlist[i % len(fnlist)]
        text = pf_case(rng, fn)
        title = rng.choice(TITLES) if rng.random() < 0.3 else "Pg"
        obs.add("parser_functions", fn)
    elif part == "C":
        text = expr_case(rng)
        title = "Pg"
        fn = "#expr"
    else:
        fn = rng.choice(["PAGENAME", "FULLPAGENAME", "BASEPAGENAME", "ROOTPAGENAME", "SUBPAGENAME", "TALKPAGENAME", "NAMESPACE",
                         "NAMESPACENUMBER", "SUBJECTSPACE", "TALKSPACE", "FULLPAGENAMEE", "PAGENAMEE", "ROOTPAGENAMEE"])
        arg = rng.choice(["", "", ":" + rng.choice(TITLES)])
        text = "{{" + fn + arg + "}}"
        title = rng.choice(TITLES)
    kind, val = run(c, title, text, budget)
    obs.check("returns-str-in-budget")
    case = {"part": part, "title": title, "text": text}
    probs = []
    if kind == "cpu":
        probs.append(("no-return-within-cpu-budget/parser-function", val))
    elif kind == "exc":
        probs.append((classify_exc(val, fn), repr(val)[:200] + " text=" + text[:120]))
    elif not isinstance(val, str):
        probs.append(("expand-returns-non-str", type(val).__name__))
    return case, probs


# ---------------------------------------------------------------- part E: hostile texts
def _nest(o, c, n, core="x"):
    return o * n + core + c * n


# name -> (construct tag for the signature, builder(depth) -> (library, page text))
DEEP_SHAPES = {
    "calls": ("calls", lambda d: (None, _nest("{{ta|", "}}", d))),
    "calls-named-arg": ("calls", lambda d: (None, _nest("{{ta|1=", "}}", d))),
    "calls-in-arg-name": ("calls", lambda d: (None, _nest("{{ta|", "=v}}", d, "k"))),
    "brace-runs": ("parameter-references", lambda d: (None, _nest("{{", "}}", d, "ta"))),     # long runs group as {{{ ... }}}
    "parser-functions": ("parser-functions", lambda d: (None, _nest("{{#if:x|", "}}", d, "y"))),
    "links": ("links", lambda d: (None, _nest("[[a|", "]]", d))),
    "external-links": ("external-links", lambda d: (None, _nest("[http://e.x ", "]", d))),
    "links-and-calls": ("links", lambda d: (None, _nest("[[a|{{ta|", "}}]]", d // 2))),
    "parameter-defaults": ("parameter-references", lambda d: (None, _nest("{{{1|", "}}}", d))),
    "parameter-names": ("parameter-references", lambda d: (None, _nest("{{{", "}}}", d, "a"))),
    "links-and-parameter-defaults": ("parameter-references", lambda d: (None, _nest("{{{a|[[b|", "]]}}}", d // 2))),
    "calls-inside-parameter-default": ("constructs-inside-parameter-default", lambda d: (None, "{{{1|" + _nest("{{ta|", "}}", d) + "}}}")),
    "links-inside-parameter-default": ("constructs-inside-parameter-default", lambda d: (None, "{{{1|" + _nest("[[a|", "]]", d) + "}}}")),
    "body-of-calls": ("constructs-inside-template-body", lambda d: ({"tb": _nest("{{ta|", "}}", d)}, "{{tb}}")),
    "body-of-links": ("constructs-inside-template-body", lambda d: ({"tb": _nest("[[a|", "]]", d)}, "{{tb|1}}")),
    "body-of-parameter-defaults": ("constructs-inside-template-body", lambda d: ({"tb": _nest("{{{1|", "}}}", d)}, "{{tb}}")),
    "body-of-parser-functions": ("constructs-inside-template-body", lambda d: ({"tb": _nest("{{#if:{{{1|}}}|", "}}", d, "y")}, "{{tb|1}}")),
}
DEEP_DEPTHS = [150, 400, 1100]      # interpreter recursion limit 1000: one Python frame per level is enough to hit it at 1100
DEEP_COMBOS = [(nm, pre, dep) for nm in sorted(DEEP_SHAPES) for pre in (False, True) for dep in DEEP_DEPTHS]


def e_deep(c, obs, budget, combo):
    """Nesting far beyond the depth limit of 100: never an exception; a depth cut must be recorded."""
    nm, pre, depth = combo
    tag, build = DEEP_SHAPES[nm]
    lib, text = build(depth)
    lib_texts = dict(PLAIN_LIB, **(lib or {}))
    load_library(c, lib_texts)
    kw = {"pre_expand": True} if pre else {}
    kind, val = run(c, "Pg", text, budget, **kw)
    case = {"part": "E", "class": "deep", "shape": nm, "depth": depth, "library": lib_texts, "text": text, "kw": kw}
    obs.check("returns-str-in-budget")
    obs.check("deep-nesting>100-never-raises")
    obs.add("deep-shapes", nm + ("/pre_expand" if pre else ""))
    probs = []
    if pre and tag == "calls":
        tag = "calls-left-unexpanded(pre_expand)"      # the other constructs take the same path in both modes
    if kind == "cpu":
        probs.append(("no-return-within-cpu-budget/nesting>100/" + tag, val))
    elif kind == "exc":
        probs.append(("raises:%s/nesting>100/%s" % (type(val).__name__, tag),
                      "%s depth=%d%s %s" % (nm, depth, " pre_expand" if pre else "", repr(val)[:120])))
    elif not isinstance(val, str):
        probs.append(("expand-returns-non-str", type(val).__name__))
    elif "too deep recursion" in val:
        obs.count("depth_limit_fired")
        obs.count("depth_limit_fired(nesting>100)")
        if not c.errors:
            probs.append(("depth-overflow-without-recorded-error", nm))
    return case, probs


def _name_class(nm):
    t = nm.strip()
    if t.isdecimal():
        if len(t) > 4300:
            return "decimal>4300-digits"
        if len(t) > 18:
            return "decimal-19..4300-digits"
        return "decimal<=18-digits"
    return "not-decimal"


HOSTILE_NAMES = ["1" * 4301, "9" * 5000, "0" * 4400 + "1", "1" * 4300, "9" * 19, "9223372036854775808", "18446744073709551616",
                 "9" * 25, "1" + "0" * 60, "9" * 18, "4294967296", "1001", "1000", "0", "00", "007", "-1", "+1", "1.0", "1e3", " 2 ",
                 "١٢", "１", "²", "①", "१" * 30, "١" * 4301, "1_000", "", " ", "n", "1 1"]
NAME_FORMS = ["{{{%s}}}", "{{{%s|d}}}", "{{ta|%s=v}}", "{{tn}}", "{{tn|%s=v}}", "{{#invoke:m|a|%s=v}}", "{{tp|%s=v}}", "{{tp|%s=v|1=w}}",
              "{{#if:x|{{{%s|d}}}}}", "{{ta|{{{%s}}}=v}}", "{{#switch:%s|%s=a|b}}", "{{#invoke:m|a|x|%s=v|%s=w}}"]
NAME_COMBOS = [(nm, f) for nm in HOSTILE_NAMES for f in NAME_FORMS]


def e_names(c, obs, budget, combo):
    """Argument NAMES are read in parameter references, call arguments, #invoke arguments and parent frames handed to Lua."""
    nm, form = combo
    lib_texts = dict(PLAIN_LIB, tn="[{{{%s|d}}}]" % nm, tp="{{#invoke:m|p}}")
    load_library(c, lib_texts)
    text = form.replace("%s", nm)
    kind, val = run(c, "Pg", text, budget)
    case = {"part": "E", "class": "names", "library": lib_texts, "text": text}
    obs.check("returns-str-in-budget")
    obs.check("hostile-argument-name-never-raises")
    obs.add("name-classes", _name_class(nm) + ("" if nm.isascii() else "/non-ascii"))
    probs = []
    if kind == "cpu":
        probs.append(("no-return-within-cpu-budget/hostile-argument-name(%s)" % _name_class(nm), val))
    elif kind == "exc":
        probs.append(("raises:%s/hostile-argument-name(%s)" % (type(val).__name__, _name_class(nm)),
                      "%s in %s" % (repr(val)[:120], form)))
    elif not isinstance(val, str):
        probs.append(("expand-returns-non-str", type(val).__name__))
    return case, probs


SOUP_TOK = ["{{", "}}", "{", "}", "{{{", "}}}", "-{}-", "-{", "}-", "}{", "|", "=", "[[", "]]", "[", "]", "x", "-", " ", "\n", ":",
            "<nowiki>", "</nowiki>", "<nowiki/>", "<!--", "-->", "<", ">", "{|", "|}", "''", "http://e.x", "#"]
SOUP_PREFIX = ["{{", "{{", "{{{", "[[", "[", "{{x|", "{{{1|", "{{x", "", "<nowiki>", "<!--", "{|"]
SOUP_SUFFIX = ["", "", "}}", "}", "]]", "|", "}}}", "\n"]
SOUP_BUDGET = 2


def soup_text(rng):
    if rng.random() < 0.45:
        unit = "".join(rng.choice(SOUP_TOK) for _ in range(rng.randint(1, 3)))
        k = rng.choice([12, 25, 40, 60])
        text = rng.choice(SOUP_PREFIX) + unit * k + rng.choice(SOUP_SUFFIX)
        return text[:400], "pumped"
    return "".join(rng.choice(SOUP_TOK) for _ in range(rng.randint(3, 60)))[:400], "random"


def stuck_in(trace):
    """Innermost package function named in the stack the CPU watchdog recorded."""
    import re
    fns = re.findall(r'wikitextprocessor/(\w+)\.py", line \d+, in (\w+)\n([^\n]*)', trace)
    if not fns:
        return "?"
    mod, fn, line = fns[-1]
    rx = re.search(r"\b([A-Z_]+_RE)\.", line)        # the compiled pattern the function was running, when it says so
    return "%s.py:%s%s" % (mod, fn, "(%s)" % rx.group(1) if rx else "")


PUMP_COMBOS = [(pre, fill + tok) for pre in sorted(set(SOUP_PREFIX)) for tok in SOUP_TOK for fill in ("", "x")]
PUMP_BUDGET = 5


def e_soup(c, rng, obs, pump=None):
    """Pages of bracket vocabulary that call no existing template: tokenising/encoding them must be quick.
    Random / pumped texts of <= 400 characters get 2 CPU-seconds; `pump` = (prefix, unit): prefix + unit repeated up to
    2000 characters gets 5 CPU-seconds (every prefix x every single token of the vocabulary, bare and after a letter)."""
    if pump is not None:
        text, how, bud = (pump[0] + pump[1] * (2000 // len(pump[1])))[:2000], "pumped-2kB", PUMP_BUDGET
    else:
        text, how = soup_text(rng)
        bud = SOUP_BUDGET
    if _LIB.get("cur") is not PLAIN_LIB:
        load_library(c, PLAIN_LIB)
    kind, val = run(c, "Pg", text, bud)
    case = {"part": "E", "class": "soup", "text": text}
    obs.check("returns-str-in-budget")
    obs.check("bracket-soup-returns-in-2s" if pump is None else "pumped-2kB-page-returns-in-5s")
    obs.count("E.soup." + how)
    probs = []
    if kind == "cpu":
        probs.append(("no-return-within-cpu-budget/bracket-soup-without-templates/stuck-in:" + stuck_in(val), val))
    elif kind == "exc":
        probs.append(("raises:" + exc_sig(val) + "/bracket-soup", repr(val)[:160]))
    elif not isinstance(val, str):
        probs.append(("expand-returns-non-str", type(val).__name__))
    return case, probs


PLACEHOLDER_FORMS = ["x%sy", "{{{a|%s}}}", "{{{%s}}}", "{{ta|%s}}", "{{ta|%s=v}}", "{{ta}}%s", "[[a|%s]]", "%s{{ta|{{ta}}}}", "{{#if:%s|a|b}}",
                     "{{#if:x|{{{1|%s}}}}}", "[http://e.x %s]", "{{%s}}"]
PLACEHOLDER_OFFSETS = [0, 1, 2, 3, 7, 50000]
PLACEHOLDER_COMBOS = [(o, f) for o in PLACEHOLDER_OFFSETS for f in PLACEHOLDER_FORMS]


def e_placeholder(c, obs, budget, combo):
    """The package reserves private-use characters (common.py) as stand-ins for encoded constructs; here they occur in the INPUT."""
    from wikitextprocessor.common import MAGIC_FIRST
    off, form = combo
    if _LIB.get("cur") is not PLAIN_LIB:
        load_library(c, PLAIN_LIB)
    text = form % chr(MAGIC_FIRST + off)
    kind, val = run(c, "Pg", text, min(budget, 2))
    live = off < len(c.cookies)
    case = {"part": "E", "class": "placeholder", "text": text}
    obs.check("returns-str-in-budget")
    obs.check("placeholder-char-in-input-never-raises")
    # same keys as the C01 finding for a character that is taken for one of the page's own encoded constructs; a
    # character beyond them (no such construct) is a separate, local mechanism
    which = "" if live else "/unknown-cookie-index"
    probs = []
    if kind == "cpu":
        probs.append(("placeholder-char-in-input/no-return" + which, val))
    elif kind == "exc":
        probs.append(("placeholder-char-in-input/raises" + which, repr(val)[:120] + " form=" + form))
    elif not isinstance(val, str):
        probs.append(("expand-returns-non-str", type(val).__name__))
    return case, probs


def square_free_word(n):
    """Thue's square-free word over {a,b,c} (run lengths of 1s between the 0s of the Thue-Morse sequence)."""
    tm = "".join(str(bin(i).count("1") % 2) for i in range(8 * n + 16))
    runs = [len(x) for x in tm.split("0")[1:-1]]
    return "".join("abc"[x] for x in runs)[:n]


WALK_CALL = "{{{{#sub:{{{1}}}|0|1}}|{{#sub:{{{1}}}|1}}}}"


def e_walk(c, rng, obs, budget, branching):
    """Cyclic call graph on three templates where the callee is NAMED by the argument: the expansion walks the cycle along
    a given word (square-free = the stack never ends in a repetition; periodic = it does).  One call per body unless
    `branching`."""
    k = 2 if branching else 1
    lib_texts = {nm: (WALK_CALL + rng.choice(["", "-", " "])) * k for nm in "abc"}
    if branching:
        word = square_free_word(40)
    elif rng.random() < 0.7:
        word = square_free_word(rng.choice([5, 12, 30, 60, 95, 120, 150]))
    else:
        word = (rng.choice(["ab", "abc", "a", "abcb"]) * 40)[:rng.choice([6, 20, 70, 130])]
    text = "{{%s|%s}}" % (word[0], word[1:])
    load_library(c, lib_texts)
    kind, val = run(c, "Pg", text, budget)
    case = {"part": "E", "class": "walk", "library": lib_texts, "text": text}
    obs.check("returns-str-in-budget")
    probs = []
    if kind == "cpu":
        probs.append(("no-return-within-cpu-budget/" + recursion_shape(lib_texts, text), val))
    elif kind == "exc":
        probs.append(("raises:" + exc_sig(val) + "/computed-template-name-walk", repr(val)[:160]))
    elif not isinstance(val, str):
        probs.append(("expand-returns-non-str", type(val).__name__))
    else:
        if "Template loop detected" in val:
            obs.count("loop_detector_fired")
            obs.count("loop_detector_fired(computed-name-walk)")
        if "too deep recursion" in val:
            obs.count("depth_limit_fired")
            obs.count("depth_limit_fired(computed-name-walk)")
            if not c.errors:
                probs.append(("depth-overflow-without-recorded-error", "computed-template-name-walk"))
    return case, probs


def part_e(c, rng, obs, spec):
    """Part E cases of one shard: the enumerated combos are dealt round-robin over the 16 shards (quick: every combo once
    per run; thorough: the same plus many more soups), so which shard runs what does not depend on the seed."""
    idx, budget, tier = spec["idx"], spec["budget"], spec["tier"]
    out = []
    for combo in DEEP_COMBOS[idx::16]:
        out.append(("E.deep-nesting>100", e_deep(c, obs, budget, combo)))
    for combo in NAME_COMBOS[idx::16]:
        out.append(("E.hostile-argument-names", e_names(c, obs, budget, combo)))
    for combo in PLACEHOLDER_COMBOS[idx::16]:
        out.append(("E.placeholder-chars", e_placeholder(c, obs, budget, combo)))
    for _ in range(6):
        out.append(("E.computed-name-walks", e_walk(c, rng, obs, budget, False)))
    if idx == 3:
        out.append(("E.computed-name-walks(branching)", e_walk(c, rng, obs, budget, True)))
    for _ in range({"quick": 120, "thorough": 6000}[tier]):
        out.append(("E.bracket-soups", e_soup(c, rng, obs)))
    for combo in PUMP_COMBOS[idx::16]:
        out.append(("E.bracket-soups", e_soup(c, rng, obs, pump=combo)))
    return out


# ---------------------------------------------------------------- part F: the same kinds of input on other wikis
WIKIS = [("zh", "wiktionary"), ("ku", "wiktionary"), ("zh", "wikipedia"), ("fr", "wiktionary"), ("de", "wikipedia"), ("ja", "wiktionary"),
         ("ku", "wikipedia"), ("ru", "wiktionary")]
# LanguageConverter markup -{ ... }- and everything that looks like one of its halves in ordinary text
CONV_TOK = ["-{", "}-", "-{}-", "}-{", "-{zh-hans:", ";zh-hant:", "-{ ", " }-", "{", "}", "-", "x", " ", "\n", "{{{1}}}", "{{{2|d}}}", "{{ta|", "}}",
            "{{tc|a|b}}", "{{tr}}", "{{tr|1|9}}", "{{ts}}", "<math>e^{x}", "{1}</math>", "[[a|", "]]", "|", "<nowiki>", "</nowiki>", "{{#if:x|", "=="]
CONV_LIB = {"ta": "[{{{1|}}}]", "tc": "-{zh-hans:{{{1}}};zh-hant:{{{2}}}}-", "tr": "{{{1}}}-{{{2}}}", "ts": "-{ {{ts}} }-"}


def conv_text(rng):
    r = rng.random()
    if r < 0.3:
        unit = "".join(rng.choice(CONV_TOK) for _ in range(rng.randint(1, 3)))
        return (rng.choice(["", "", "-{", "}-", "{{ta|"]) + unit * rng.choice([2, 5, 12, 30]) + rng.choice(["", "", "}-", "-{", "}}"]))[:400]
    return "".join(rng.choice(CONV_TOK) for _ in range(rng.randint(2, 25)))[:400]


def mark_up(rng, text):
    """Scatter converter markers / halves over a generated wikitext."""
    for _ in range(rng.randint(1, 4)):
        i = rng.randint(0, len(text))
        text = text[:i] + rng.choice(["-{", "}-", "-{}-", "}-{", "-{zh-hans:", ";zh-hant:", "-"]) + text[i:]
    return text


def f_case(c, wiki, rng, obs, budget, kind):
    """One case on the context of another wiki.  kinds: conv = converter-marker soups over CONV_LIB (2 s; <= 400 chars),
    soup = the part-E bracket soups (2 s), lib = an acyclic generated library and page with markers scattered over bodies
    and page (standard budget), pf = a parser function / magic word with hostile arguments (standard budget)."""
    wtag = "%s.%s" % wiki
    lib_texts = CONV_LIB
    kw = {}
    if kind == "conv":
        text, bud = conv_text(rng), SOUP_BUDGET
    elif kind == "soup":
        text, bud = soup_text(rng)[0], SOUP_BUDGET
    elif kind == "lib":
        tags = set()
        cfg = G.Cfg(include_tags=False, missing=True, max_args=2, table_marker=False)
        lib_ast = G.gen_library(rng, rng.randint(1, 4), 2, cfg, tags)
        lib_texts = {n: mark_up(rng, G.render(b)) if rng.random() < 0.6 else G.render(b) for n, b in lib_ast.items()}
        text, bud = mark_up(rng, G.render(G.seq(rng, 2, list(lib_ast), False, cfg, tags))), budget
        if rng.random() < 0.15:
            kw = {"pre_expand": True}
    else:
        fn = rng.choice(_FNLIST)
        text, bud = mark_up(rng, pf_case(rng, fn)) if rng.random() < 0.3 else pf_case(rng, fn), budget
        obs.add("parser_functions(other-wikis)", fn)
    load_library(c, lib_texts)
    kind_run, val = run(c, "Pg", text, bud, **kw)
    case = {"part": "F", "wiki": list(wiki), "kind": kind, "library": lib_texts, "text": text, "kw": kw}
    obs.check("returns-str-in-budget")
    obs.check("other-wiki-context-returns-str-in-budget")
    obs.add("wikis", wtag)
    obs.count("F." + kind)
    what = {"conv": "language-converter-marker-soup", "soup": "bracket-soup-without-templates", "lib": "acyclic-library-with-converter-markers",
            "pf": "parser-function"}[kind]
    probs = []
    if kind_run == "cpu":
        probs.append(("no-return-within-cpu-budget/%s/lang_code=%s/stuck-in:%s" % (what, wiki[0], stuck_in(val).split("(")[0]), val))
    elif kind_run == "exc":
        probs.append(("raises:%s/%s/lang_code=%s" % (exc_sig(val), what, wiki[0]), repr(val)[:160] + " wiki=" + wtag + " text=" + text[:100]))
    elif not isinstance(val, str):
        probs.append(("expand-returns-non-str", type(val).__name__))
    return case, probs


_FNLIST = []


def part_f(rng, obs, spec):
    """Two wikis per shard (dealt by shard index, so every wiki is visited by four shards whatever the seed)."""
    import wikitextprocessor.parserfns as PF
    if not _FNLIST:
        _FNLIST.extend(sorted(k for k in PF.PARSER_FUNCTIONS if k not in EXCLUDE))
    idx, budget, tier = spec["idx"], spec["budget"], spec["tier"]
    mult = {"quick": 1, "thorough": 25}[tier]
    out = []
    for wiki in (WIKIS[idx % len(WIKIS)], WIKIS[(idx * 3 + 1) % len(WIKIS)]):
        c = wiki_ctx(*wiki)
        for kind, n in (("conv", 60), ("soup", 30), ("lib", 20), ("pf", 40)):
            for _ in range(n * mult):
                out.append(f_case(c, wiki, rng, obs, budget, kind))
    return out


def run_shard(spec):
    import wikitextprocessor.core as core
    import wikitextprocessor.parserfns as PF
    obs = Obs()
    rng = random.Random(spec["seed"])
    c = ctx()
    anchors.watch({"parserfns.expr_fn": PF.expr_fn, "parserfns.call_parser_function": PF.call_parser_function,
                   "core.detect_expand_template_loop": core.detect_expand_template_loop,
                   "core.expand_recurse": (core.Wtp.expand, "expand_recurse")})
    fnlist = sorted(k for k in PF.PARSER_FUNCTIONS if k not in EXCLUDE)
    budget = spec["budget"]
    n = spec["n"]
    # exhaustive graphs (thorough: all <=3-template adjacency matrices, split over shards; quick: <=2)
    graphs = []
    kmax = 3 if spec["tier"] == "thorough" else 2
    for k in range(1, kmax + 1):
        for bits in range(1 << (k * k)):
            graphs.append((k, bits))
    graphs = graphs[spec["idx"]::16]
    for k, bits in graphs:
        case, probs = part_a(c, rng, obs, budget, graph=graph_case(k, bits, rng))
        obs.case(case, nontrivial=True)
        obs.count("part.A"); obs.count("graph-exhaustive")
        for sig, msg in probs:
            obs.violation(sig, msg, case)
    for i in range(n):
        r = i % 10
        if r < 2:
            if i % 50 == 1:
                lib_t, text = periodic_branching(rng)
                case, probs = part_a(c, rng, obs, budget, graph=(lib_t, text))
                obs.count("periodic-branching")
            elif i % 50 in (11, 21, 31):
                lib_t, text = redirect_case(rng)
                case, probs = part_a(c, rng, obs, budget, graph=(lib_t, text))
                obs.count("redirect-libraries")
            elif rng.random() < 0.2:
                load_library(c, {"ta": "[{{{1|}}}]"})
                text = deep_case(rng)
                kind, val = run(c, "Pg", text, budget)
                case = {"part": "A", "library": {"ta": "[{{{1|}}}]"}, "text": text}
                obs.check("returns-str-in-budget")
                probs = []
                if kind == "cpu":
                    probs.append(("no-return-within-cpu-budget/deep-nesting", val))
                elif kind == "exc":
                    probs.append(("raises:" + exc_sig(val) + "/deep-nesting", repr(val)[:200]))
                elif "too deep recursion" in val:
                    obs.count("depth_limit_fired")
                    if not c.errors:
                        probs.append(("depth-overflow-without-recorded-error", ""))
                obs.count("deep")
            else:
                case, probs = part_a(c, rng, obs, budget)
            obs.count("part.A")
        elif r < 6:
            case, probs = one(c, rng, obs, budget, "B", fnlist, i // 10 * 4 + (r - 2))
            obs.count("part.B")
        elif r < 9:
            case, probs = one(c, rng, obs, budget, "C", fnlist, i)
            obs.count("part.C")
        else:
            case, probs = one(c, rng, obs, budget, "D", fnlist, i)
            obs.count("part.D")
        obs.case(case, nontrivial=True, sample=case if len(case["text"]) < 200 else None)
        for sig, msg in probs:
            obs.violation(sig, msg, case)
    for counter, (case, probs) in part_e(c, random.Random(spec["seed"] * 7 + 5), obs, spec):
        obs.count(counter)
        obs.count("part.E")
        obs.case(case, nontrivial=True, sample=case if len(case["text"]) < 200 else None)
        for sig, msg in probs:
            obs.violation(sig, msg, case)
    for case, probs in part_f(random.Random(spec["seed"] * 11 + 3), obs, spec):
        obs.count("part.F")
        obs.case(case, nontrivial=True, sample=case if len(case["text"]) < 200 else None)
        for sig, msg in probs:
            obs.violation(sig, msg, case)
    obs.anchors.update(anchors.snapshot())
    return obs


def replay(case):
    c = wiki_ctx(*case["wiki"]) if case.get("wiki") else ctx()
    if case["part"] == "A" or "library" in case:
        load_library(c, case["library"])
    elif case["part"] == "E":
        load_library(c, PLAIN_LIB)
    kind, val = run(c, case.get("title", "Pg"), case["text"], 20, **case.get("kw", {}))
    v = []
    if kind == "cpu":
        v.append("no-return-within-cpu-budget")
    elif kind == "exc":
        v.append("raises:" + exc_sig(val))
    return {"violations": v, "outcome": kind, "value": (val if isinstance(val, str) else repr(val))[:600],
            "errors": [m["msg"] for m in c.errors][:5], "warnings": [m["msg"] for m in c.warnings][:5]}
