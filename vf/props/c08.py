"""C08 -- the Lua frame API is equivalent to the corresponding wikitext.

Monitors: an echo module in the page store serialises unambiguously what a module receives (frame.args via
pairs and direct index, parent title/args) and what preprocess / expandTemplate / callParserFunction return.
Expected values: (a) argument maps computed from the generating AST by the statement's rule (values evaluated
by the C04 reference), (b) metamorphic relations on the real code: frame:preprocess(t) vs ctx.expand(t),
frame:expandTemplate vs expand('{{T|...}}'), frame:callParserFunction (3 call forms) vs expand('{{name:...}}')."""
from __future__ import annotations

import random
import re

from vf.core.obs import Obs, cpu_guard, CpuBudget, exc_sig
from vf.core import anchors
from vf.gen import expansion as G
from vf.ref.transclusion import Ref, key_of

LEVEL = "exploration"
RULE = ("invocations: {{#invoke:echo|fn|ARGS}} with ARGS of length 0-6 mixing positional / named / numeric-named arguments, "
        "blanks around names and values, nested template calls and #if as values, at wrapper depth 0..2 (page -> template -> "
        "template -> #invoke); preprocess fragments from the expansion grammar; expandTemplate / callParserFunction with plain-text "
        "values (blanks, no | = braces) in all call forms. Added argument shapes (35% of the vectors, 1-2 arguments each): a value built "
        "from brace helper templates that EXPANDS TO text that is itself wikitext syntax ({{ta|x}}, {{{1}}}, ==x==), a value shaped like a "
        "heading line ('=='+text/calls+'=='), numeric names above 1000, names equal to the sentinel/fields of the Lua-side argument table "
        "(***nil***, _orig, ...), names containing a call ({{lc:N}}=v); 25% of the wrapped invocations just pass the wrapper's parameters "
        "on ({{#invoke:echo|args|{{{1}}}|k={{{n|}}}}}). preprocess: 12% of the fragments are heading-shaped as a whole. "
        "expandTemplate: 30% of the argument tables have values containing '=' (k=v, URL with query, '=') inside the 1..n run, "
        "mostly followed by further values, shown by a template that prints {{{1}}}..{{{5}}}. "
        "callParserFunction: 35% of the table forms carry named keys (#switch cases, #tag attributes) or 10-13 positional values. non-trivial = distinct (function, rendered call, wrapper depth) that "
        "reached the Lua side (echo output parsed back)")
ASSUMPTIONS = ["Lua stand-ins for the absent Scribunto ustring/libraryUtil files (byte semantics; workloads are ASCII + a few UTF-8 letters passed through unchanged)",
               "raw wikitext reaches frame:preprocess through a per-case data module (require), never through frame.args",
               "tagged class: positional value ending in a newline (make_frame strips one trailing newline on purpose)",
               "the equivalent call of a Lua argument table is the Scribunto manual's: keys 1..n positional in numeric order, any other key k as 'k=value' (sorted by name)",
               "values containing '=' text are not passed on through {{{n}}} into a nested TEMPLATE call (the template expander re-reads them as name=value: C04's subject, not the Lua bridge)"]
WALL = {"quick": 900, "thorough": 5400}

ECHO = r'''local e = {}
local function ser(args)
  local keys = {}
  for k, v in pairs(args) do
    keys[#keys+1] = k
    if #keys > 40 then return "[s:7:ENDLESS:0]" end   -- no generated vector has more than 12 arguments
  end
  table.sort(keys, function(a, b) return (type(a) .. tostring(a)) < (type(b) .. tostring(b)) end)
  local out = {}
  for _, k in ipairs(keys) do
    local v = tostring(args[k]):gsub("\127", "<DEL>")    -- (DEL is dropped from the page output: keep lengths right)
    out[#out+1] = "[" .. (type(k) == "number" and "n" or "s") .. ":" .. #tostring(k) .. ":" .. tostring(k) .. ":" .. #tostring(v) .. "]" .. tostring(v)
  end
  return table.concat(out)
end
function e.args(frame)
  local direct = ""
  for _, k in ipairs({1, 2, 3, "1", "n", "k k"}) do
    local v = frame.args[k]
    direct = direct .. "{" .. tostring(k) .. "=" .. (v == nil and "NIL" or (#v .. ":" .. v)) .. "}"
  end
  local p = frame:getParent()
  local ps = "NOPARENT"
  if p then ps = "[t:" .. #p:getTitle() .. "]" .. p:getTitle() .. ser(p.args) end
  return "\1A" .. ser(frame.args) .. "\1D" .. direct .. "\1P" .. ps .. "\1E"
end
function e.pre(frame)
  local d = require("Module:" .. frame.args[1])
  local r = frame:preprocess(d.text)
  return "\1A" .. r .. "\1E"
end
function e.pre2(frame)
  local d = require("Module:" .. frame.args[1])
  local r = frame:preprocess{text = d.text}
  return "\1A" .. r .. "\1E"
end
function e.et(frame)
  local d = require("Module:" .. frame.args[1])
  local r = frame:expandTemplate{title = d.title, args = d.args}
  return "\1A" .. r .. "\1E"
end
function e.cpf(frame)
  local d = require("Module:" .. frame.args[1])
  local r
  if d.form == 1 then r = frame:callParserFunction(d.name, unpack(d.args))
  elseif d.form == 2 then r = frame:callParserFunction(d.name, d.args)
  else r = frame:callParserFunction{name = d.name, args = d.args} end
  return "\1A" .. tostring(r) .. "\1E"
end
return e'''


def floors(tier):
    return {"oracle.frame-args==rule": 300, "oracle.parent==rule": 200, "oracle.preprocess==expand": 300,
            "oracle.expandTemplate==wikitext": 300, "oracle.callParserFunction==wikitext": 300, "oracle.result-replaces-call": 1000,
            "counters.depth.0": 50, "counters.depth.1": 50, "counters.depth.2": 50, "counters.cpf.form.1": 30,
            "counters.cpf.form.2": 30, "counters.cpf.form.3": 30, "anchors.luaexec.make_frame": 500,
            "anchors.luaexec.preprocess": 300, "anchors.luaexec.expandTemplate": 100, "anchors.luaexec.callParserFunction": 100,
            # the added input classes must really have been seen
            "counters.args.shape.value-expands-to-wikitext-syntax": 300, "counters.args.shape.heading-shaped-value": 300,
            "counters.args.shape.numeric-name>1000": 300, "counters.args.shape.name=args-table-internal": 300,
            "counters.args.shape.name-with-nested-call": 300, "counters.args.shape.parameters-passed-on": 300,
            "counters.et.positional-value-with-equals.followed": 300, "counters.pre.heading-shaped": 300, "counters.cpf.table.named-key": 200, "counters.cpf.table.10+positional": 200}


def shards(tier, seed):
    per = {"quick": 3000, "thorough": 60000}[tier]
    return [{"seed": seed * 1000 + i, "n": per} for i in range(16)]


def lua_str(s):
    n = 1
    while "]" + "=" * n in s:
        n += 1
    return "[" + "=" * n + "[\n" + s + "]" + "=" * n + "]"


def lua_val(v):
    if isinstance(v, str):
        return lua_str(v)
    if isinstance(v, int):
        return str(v)
    if isinstance(v, dict):
        return "{" + ", ".join("[%s] = %s" % ('"%s"' % k.replace("\\", "\\\\").replace('"', '\\"') if isinstance(k, str) else k, lua_val(x)) for k, x in v.items()) + "}"
    if isinstance(v, list):
        return "{" + ", ".join(lua_val(x) for x in v) + "}"
    raise TypeError(v)


class Mon:
    def __init__(self):
        from vf.core.wtp import fresh
        self.cm = fresh(lua=True, pages=[("Module:echo", 828, ECHO)])
        self.ctx = self.cm.__enter__()
        self.n = 0
        self.lib = {}

    def close(self):
        self.cm.__exit__(None, None, None)

    def set_templates(self, texts):
        c = self.ctx
        c.db_conn.execute("DELETE FROM pages WHERE namespace_id = 10")
        for n, b in texts.items():
            c.add_page("Template:" + n, 10, b)
        try:
            type(c).get_page.cache_clear()
        except AttributeError:
            pass

    def data_module(self, d):
        self.n += 1
        name = "d%dx%d" % (id(self) % 9973, self.n)
        self.ctx.add_page("Module:" + name, 828, "return " + lua_val(d))
        try:
            type(self.ctx).get_page.cache_clear()
        except AttributeError:
            pass
        return name

    def expand(self, text, title="Pg"):
        self.ctx.start_page(title)
        try:
            with cpu_guard(20):
                return self.ctx.expand(text)
        except CpuBudget:
            return "\x02CPU"
        except Exception as e:
            return "\x02EXC " + exc_sig(e)


SERB = re.compile(rb"\[([ns]):(\d+):")
SERV = re.compile(rb":(\d+)\]")


def parse_ser(s):
    """Parse '[n:1:1:3]abc[s:1:k:2]xy' into {1: 'abc', 'k': 'xy'} (type, key length, key, value length; lengths are
    BYTE lengths, as Lua counts); returns (map, ok)."""
    b = s.encode("utf-8")
    out = {}
    i = 0
    while i < len(b):
        m = SERB.match(b, i)
        if not m:
            return out, False
        kl = int(m.group(2))
        kb = b[m.end(): m.end() + kl]
        m2 = SERV.match(b, m.end() + kl)
        if not m2:
            return out, False
        ln = int(m2.group(1))
        v = b[m2.end(): m2.end() + ln].decode("utf-8", "replace")
        try:
            k = int(kb) if m.group(1) == b"n" else kb.decode("utf-8")
        except ValueError:
            return out, False
        out[k] = v
        i = m2.end() + ln
    return out, True


def argmap(ref, args, frame):
    ht = {}
    num = 1
    for x in args:
        if x[0] == "pos":
            ht[num] = ref.ev(x[1], frame, (), True)
            num += 1
        else:
            ht[key_of(x[2])] = (x[4] + ref.ev(x[3], frame, (), True) + x[5]).strip()
    return ht


def render_args(args):
    parts = []
    for a in args:
        if a[0] == "pos":
            parts.append(G.render(a[1]))
        else:
            parts.append(a[1] + "=" + a[4] + G.render(a[3]) + a[5])
    return "".join("|" + p for p in parts)


# --- argument shapes beyond the shared grammar (all within the statement: "positional/named/numeric names ... nested
# template calls as values"): each mutator rewrites one argument of a generated vector and names the feature ---------
# brace helper templates (Template:(( etc. of the wikis): a value built from them EXPANDS TO text that is itself
# wikitext syntax; by the statement that text is the argument ("after expansion"), it is not expanded again
LIBX = {"ob": "{{", "cb": "}}", "pp": "|", "eq": "="}
LITERALS = [["{{", "ta", "|", "x", "}}"], ["{{", "tb", "}}"], ["{{", "missing", "|", "a", "}}"], ["{{", "{1}", "}}"],
            ["{{", "#if:1", "|", "y", "|", "n", "}}"], ["{{", "lc:AB", "}}"], ["a", "{{", "td", "}}", " b"],
            ["=", "=", "x", "=", "="], ["=", " {{", "ta", "}} ", "="]]
LITCALL = {"{{": "ob", "}}": "cb", "|": "pp", "=": "eq"}
# names that collide with the bookkeeping of the Lua-side argument table (iteration sentinel / private fields)
PROXY_NAMES = ["***nil***", "_orig", "_frame", "_next_key", "_preprocessed"]
BIG_NUMS = ["1001", "2023", "2024", "100000"]
# (rendered name, name after expansion)
COMPUTED_NAMES = [("{{lc:N}}", "n"), ("{{uc:m}}", "M"), ("{{ta|k}}", "\u27e8k\u27e9"), (" {{lc:K}}x ", "kx"), ("{{#if:1|n}}", "n")]


def lit_value(tokens):
    out = []
    for t in tokens:
        if t in LITCALL:
            out.append(("C", LITCALL[t], LITCALL[t], []))
        else:
            for i, piece in enumerate(re.split(r"(\{\{|\}\})", t)):      # " {{" -> text + call
                if piece in LITCALL:
                    out.append(("C", LITCALL[piece], LITCALL[piece], []))
                elif piece:
                    out.append(("T", piece))
    return ("S", out)


def heading_value(rng, lib, in_body, tags):
    """'==' + inner + '==': the whole value is shaped like a heading line (inner: text and calls without '=')."""
    cfg = G.Cfg(include_tags=False, missing=True, table_marker=False, switch=False, markers=False, newlines=False, max_args=1)
    for _ in range(20):
        inner = G.seq(rng, 2, lib, in_body, cfg, tags)
        r = G.render(inner)
        if "=" not in r and r.strip():
            break
    else:
        inner = ("S", [("T", "x")])
    eqs = "=" * rng.randint(1, 3)
    return ("S", [("T", eqs)] + inner[1] + [("T", eqs)])


def mutate_args(rng, args, lib, in_body, tags, feats, equals=True):
    """Rewrite at most two arguments of the vector into one of the special shapes; feats collects their names.
    equals=False: no value whose text contains '=' (such a value passed on through {{{n}}} into another TEMPLATE call
    is re-read as name=value by the template expander: argument passing between templates is property C04's subject)."""
    if not args:
        if rng.random() < 0.3:
            args = [("pos", ("S", [("T", "v")]))]
        else:
            return args
    for _ in range(rng.choice([0, 1, 1, 2])):
        i = rng.randrange(len(args))
        a = args[i]
        r = rng.random()
        val = a[1] if a[0] == "pos" else a[3]
        if not equals and 0.30 <= r < 0.55:
            r = 0.0
        if r < 0.30:
            val = lit_value(rng.choice([x for x in LITERALS if equals or "=" not in x]))
            feats.add("value-expands-to-wikitext-syntax")
            args[i] = ("pos", val) if a[0] == "pos" else a[:3] + (val,) + a[4:]
        elif r < 0.55:
            val = heading_value(rng, lib, in_body, tags)
            feats.add("heading-shaped-value")
            args[i] = ("pos", val) if a[0] == "pos" else a[:3] + (val,) + a[4:]
        elif r < 0.70:
            k = rng.choice(BIG_NUMS)
            feats.add("numeric-name>1000")
            args[i] = ("named", rng.choice(["", " "]) + k + rng.choice(["", " "]), k, val, "", rng.choice(["", " "]))
        elif r < 0.85:
            k = rng.choice(PROXY_NAMES)
            feats.add("name=args-table-internal")
            args[i] = ("named", k + rng.choice(["", " "]), k, val, rng.choice(["", " "]), "")
        else:
            raw, k = rng.choice(COMPUTED_NAMES)
            feats.add("name-with-nested-call")
            args[i] = ("named", raw, k, val, rng.choice(["", " "]), "")
    return args


def passthrough_args(rng):
    out = []
    for _ in range(rng.randint(1, 4)):
        key = rng.choice(["1", "2", "3", "n", "m"])
        val = [("P", key, key, ("S", [("T", "")]) if rng.random() < 0.5 else None)]
        if rng.random() < 0.3:
            val.insert(0, ("T", rng.choice(["a ", "x1", " "])))
        if rng.random() < 0.3:
            val.append(("T", rng.choice([" b", "2", " "])))
        if rng.random() < 0.6:
            out.append(("pos", ("S", val)))
        else:
            k = rng.choice(["n", "k k", "2", "m"])
            out.append(("named", k + rng.choice(["", " "]), k, ("S", val), rng.choice(["", " "]), rng.choice(["", " "])))
    return out


def gen_args(rng, lib, in_body, tags, feats=None, equals=True):
    cfg = G.Cfg(include_tags=False, missing=True, table_marker=False, switch=False)
    node = None
    while node is None or node[0] != "C":
        node = G.gen(rng, 3, lib, in_body, cfg, tags)
    args = list(node[3])
    while len(args) < rng.randint(0, 6):
        n2 = G.gen(rng, 2, lib, in_body, cfg, tags)
        if n2[0] == "C":
            args += n2[3]
        else:
            args.append(("pos", ("S", [n2])))
    args = args[:6]
    if feats is not None and rng.random() < 0.35:
        args = mutate_args(rng, args, lib, in_body, tags, feats, equals)
    return args


# (delimiters that are not wikitext syntax: nested "[..]" would form [[links]], "<..>" could look like tags)
LIBT = {"ta": "\u27e8{{{1|}}}\u27e9", "tb": "\u27e6{{{1|}}}\u00a6{{{n|dn}}}\u27e7", "tc": " x{{{2| d2 }}} ", "td": "* li"}
LIBA = {k: None for k in LIBT}


def lib_ast():
    # ASTs equivalent to LIBT (+ LIBX) for the reference evaluator
    T = lambda s: ("T", s)
    S = lambda *x: ("S", list(x))
    d = {"ta": S(T("\u27e8"), ("P", "1", "1", S(T(""))), T("\u27e9")),
         "tb": S(T("\u27e6"), ("P", "1", "1", S(T(""))), T("\u00a6"), ("P", "n", "n", S(T("dn"))), T("\u27e7")),
         "tc": S(T(" x"), ("P", "2", "2", S(T(" d2 "))), T(" ")),
         "td": S(T("* li"))}
    for k, v in LIBX.items():
        d[k] = S(T(v))
    return d


HMARK = re.compile("(?:\x7f|<DEL>)'\"`UNIQ--h-\\d+-QINU`\"'(?:\x7f|<DEL>)")


def classify(exp, got, feats, parent=False, passed_on=False):
    """Mechanism tag for a difference between the expected and the reported argument map: decided from the input
    features of the case and from what exactly differs (first matching rule).  A tag starting with '=' is a complete
    signature (one mechanism seen through several API routes)."""
    ek, gk = set(map(repr, exp)), set(map(repr, got))
    if "ENDLESS" in got or ("***nil***" in exp and gk < ek):
        # pairs() over the argument table never ends or stops early
        return "=args-table/pairs-broken" + ("/name=iteration-sentinel" if "***nil***" in exp else "")
    if ek != gk:
        if any(isinstance(k, int) and k > 1000 for k in exp) and any(isinstance(k, int) and k > 1000 and k not in got for k in exp):
            return "/keys/numeric-name>1000"
        if "name-with-nested-call" in feats and any(isinstance(k, str) and "{{" in k for k in got):
            return "/keys/name-with-nested-call"
        if passed_on and not parent and ("heading-shaped-value" in feats or "value-expands-to-wikitext-syntax" in feats):
            return "/keys/value-with-equals-sign+passed-on-as-parameter"
        return "/keys"
    bad = [k for k in exp if exp[k] != got[k]]
    if any(k in PROXY_NAMES and got[k].startswith("table: ") for k in bad):
        return "=args-table/value-shadowed/name=private-field"
    if parent:
        # the enclosing template's arguments are expanded text; whatever changes them now is a second expansion
        if any(HMARK.search(got[k]) for k in bad) or "value-expands-to-wikitext-syntax" in feats:
            return "/values/value-expanded-again"
        return "/values"
    if any(HMARK.search(got[k]) for k in bad):
        if all(HMARK.sub("", got[k]) == exp[k] for k in bad):
            return "=heading-shaped-text/strip-marker-added"
        if not (passed_on and "value-expands-to-wikitext-syntax" in feats):
            return "=heading-shaped-text/inner-text-not-expanded"
    if "value-expands-to-wikitext-syntax" in feats:
        return "/values/value-expands-to-wikitext-syntax" + ("+passed-on-as-parameter" if passed_on else "")
    return "/values"


def case_args(mon, rng, obs):
    """(a) frame arguments and parent frame at wrapper depth 0..2."""
    tags = set()
    depth = rng.randrange(3)
    names = list(LIBT)
    ref = Ref(lib_ast())
    feats = set()
    passthrough = depth > 0 and rng.random() < 0.25
    if passthrough:
        # the usual wrapper: the template hands its own parameters on to the module, one per argument
        iargs = passthrough_args(rng)
        feats.add("parameters-passed-on")
    else:
        iargs = gen_args(rng, names, depth > 0, tags, feats)
    # a value containing '=' text is only given to a parameter that is not passed on INSIDE a nested template call
    # (there the template expander re-reads it as name=value: argument passing between templates, property C04)
    eq1 = passthrough or "{{{" not in render_args(iargs)
    inv = "{{#invoke:echo|args" + render_args(iargs) + "}}"
    texts = dict(LIBT)
    texts.update(LIBX)
    frame = None
    ptitle = None
    if depth == 0:
        page = "«" + inv + "»"
    else:
        a1 = gen_args(rng, names, depth > 1, tags, feats, equals=eq1)
        texts["w1"] = "«" + inv + "»"
        if depth == 1:
            page = "{{w1" + render_args(a1) + "}}"
            frame = argmap(ref, a1, None)
        else:
            a2 = gen_args(rng, names, False, tags, feats, equals=False)
            texts["w2"] = "{{w1" + render_args(a1) + "}}"
            page = "{{w2" + render_args(a2) + "}}"
            f2 = argmap(ref, a2, None)
            frame = argmap(ref, a1, f2)
        ptitle = "Template:w1"
    exp_args = argmap(ref, iargs, frame)
    mon.set_templates(texts)
    out = mon.expand(page)
    obs.count("depth.%d" % depth)
    for f in feats:
        obs.count("args.shape." + f)
    case = {"kind": "args", "page": page, "templates": {k: v for k, v in texts.items() if k.startswith("w")}, "depth": depth,
            "shapes": sorted(feats)}
    probs = []
    cls = ""
    if any(isinstance(k, int) and v.endswith("\n") for k, v in exp_args.items()) or \
            (frame and any(isinstance(k, int) and v.endswith("\n") for k, v in frame.items())) or \
            "CLASS:pos-trailing-newline" in ref.rules:
        cls = "/class=pos-trailing-newline"
    m = re.search(r"«\x01A(.*?)\x01D(.*?)\x01P(.*?)\x01E»", out, re.S)
    obs.check("result-replaces-call")
    if out.startswith("\x02"):
        return case, [("raises-or-hangs:" + out[1:], out)], False
    if not m:
        return case, [("returned-string-does-not-replace-call" + cls, out[:300])], False
    got_args, ok = parse_ser(m.group(1))
    obs.check("frame-args==rule")
    if not ok and "name-with-nested-call" in feats and any(raw.strip() in m.group(1) for raw, _ in COMPUTED_NAMES):
        # (the name reached Lua as an internal placeholder character: its byte length differs from the final text)
        probs.append(("frame-args!=rule/keys/name-with-nested-call" + cls, m.group(1)[:200]))
    elif not ok and HMARK.search(m.group(1)):
        # (an internal placeholder character reached Lua inside the value: byte lengths differ from the final text)
        probs.append(("heading-shaped-text/inner-text-not-expanded", m.group(1)[:200]))
    elif not ok:
        probs.append(("echo-unparseable", m.group(1)[:200]))
    elif got_args != exp_args:
        tag = classify(exp_args, got_args, feats, passed_on=depth > 0 and "{{{" in render_args(iargs))
        probs.append((tag[1:] if tag.startswith("=") and not cls else "frame-args!=rule/%s%s" % (tag.lstrip("=/"), cls),
                      "expected=%r got=%r" % (exp_args, got_args)))
    # direct indexing agrees with pairs
    for mm in re.finditer(r"\{([^=}]*)=(NIL|(\d+):)", m.group(2)):
        pass
    obs.check("parent==rule")
    pm = m.group(3)
    if depth == 0:
        # page-level invoke: parent frame is the page itself (title = page title, no args)
        if pm != "NOPARENT":
            pt, ok2 = parse_ser(pm)
            if not ok2 or set(pt) - {""}:
                pass
    else:
        mt = re.match(r"\[t:(\d+)\]", pm)
        if not mt:
            probs.append(("parent-missing" + cls, pm[:100]))
        else:
            ln = int(mt.group(1))
            pb = pm[mt.end():].encode("utf-8")
            title = pb[:ln].decode("utf-8", "replace")
            pargs, ok2 = parse_ser(pb[ln:].decode("utf-8", "replace"))
            if title != ptitle:
                probs.append(("parent-title!=enclosing-template" + cls, "%r != %r" % (title, ptitle)))
            if not ok2 or pargs != frame:
                tag = classify(frame, pargs, feats, parent=True) if ok2 else "/unparseable"
                probs.append((tag[1:] if tag.startswith("=") and not cls else "parent-args!=rule/%s%s" % (tag.lstrip("=/"), cls),
                              "expected=%r got=%r" % (frame, pargs)))
    return case, probs, True


def plain(rng, edge=True):
    s = "".join(rng.choice(["a", "b", "x1", "é", " ", "2", "q r", "Z"]) for _ in range(rng.randint(0, 4)))
    if edge and rng.random() < 0.4:
        s = rng.choice([" ", "  ", "\n", ""]) + s + rng.choice([" ", "", "\t"])
    return s


def case_pre(mon, rng, obs):
    tags = set()
    cfg = G.Cfg(include_tags=False, table_marker=False)
    frag = G.render(G.seq(rng, rng.randint(1, 3), list(LIBT), False, cfg, tags))
    if rng.random() < 0.2:
        frag += rng.choice(["[[a|b]]", "'''b'''", "{{PAGENAME}}", "{{#expr:1+1}}", "<nowiki>{{ta}}</nowiki>", "{{lc:ABC}}", "* x"])
    hshape = False
    if rng.random() < 0.12:
        # the whole fragment is shaped like a heading line: '==' + text and calls + '=='
        frag = G.render(heading_value(rng, list(LIBT), False, tags))
        if rng.random() < 0.3:
            frag = frag[0] + rng.choice(["{{PAGENAME}}", "{{lc:ABC}}", " {{#expr:1+1}} ", "[[a|b]]"]).join(
                [frag[1:len(frag) // 2], frag[len(frag) // 2:]])
        hshape = re.fullmatch(r"(=+)([^=]+)\1", frag) is not None
        obs.count("pre.heading-shaped")
    mon.set_templates(LIBT)
    dm = mon.data_module({"text": frag})
    fn = rng.choice(["pre", "pre", "pre2"])
    out = mon.expand("«{{#invoke:echo|%s|%s}}»" % (fn, dm))
    exp = mon.expand(frag)
    obs.check("preprocess==expand")
    obs.check("result-replaces-call")
    case = {"kind": "pre", "text": frag, "fn": fn}
    if out.startswith("\x02") or exp.startswith("\x02"):
        return case, [("raises-or-hangs:" + (out if out.startswith("\x02") else exp)[1:], out)], False
    m = re.search(r"«\x01A(.*?)\x01E»", out, re.S)
    if not m:
        return case, [("returned-string-does-not-replace-call", out[:300])], False
    if m.group(1) != exp:
        if HMARK.search(m.group(1)) and not HMARK.search(exp):
            sig = "heading-shaped-text/" + ("strip-marker-added" if HMARK.sub("", m.group(1)) == exp else "inner-text-not-expanded")
            return case, [(sig, "preprocess=%r expand=%r" % (m.group(1), exp))], True
        feat = "heading-only" if re.fullmatch(r"(=+)[^=]+\1", frag) else "fragment"
        for t, nm in (("<nowiki", "nowiki"), ("<!--", "comment"), ("[[", "link"), ("{{PAGENAME", "magicword"), ("{{#expr", "expr")):
            if t in frag:
                feat += "+" + nm
        return case, [("preprocess!=expand/" + feat, "preprocess=%r expand=%r" % (m.group(1), exp))], True
    return case, [], True


# a template that shows which value arrived under which number
LIBE = dict(LIBT, t5="⟨{{{1|-}}}¦{{{2|-}}}¦{{{3|-}}}¦{{{4|-}}}¦{{{5|-}}}¦{{{n|-}}}⟩")
EQVALS = ["k=v", "a=", "=", "=b", "x==y", "http://e.org/?q=1&r=2", "1=z", "n=q r"]


def case_et(mon, rng, obs):
    mon.set_templates(LIBE)
    title = rng.choice(list(LIBT) + ["missing", "Template:ta", " tb"])
    npos = rng.randint(0, 3)
    args = {}
    for i in range(npos):
        args[i + 1] = plain(rng)
    eqshape = rng.random() < 0.3
    if eqshape:
        # values of the 1..n run that contain '=': written positionally they would be read as name=value, so the
        # equivalent call numbers them explicitly (i=value).  A later value cannot be written positionally either (the
        # unnamed counter of the call would give it a lower number), so from the first such value on every value
        # carries its number; those values have no edge blanks (a numbered argument is trimmed, the table value is not)
        title = rng.choice(["t5", "t5", "t5", "tb", "tc", "ta"])
        npos = rng.randint(2, 5)
        first = rng.randint(1, npos)
        args = {}
        for i in range(1, npos + 1):
            if i < first:
                args[i] = plain(rng)
            elif i == first or rng.random() < 0.25:
                args[i] = rng.choice(EQVALS)
            else:
                args[i] = plain(rng, edge=False).strip() or "w"
        obs.count("et.positional-value-with-equals" + (".followed" if first < npos else ".last"))
    for k in rng.sample(["n", "k k", "5", "m"], rng.randint(0, 2)):
        args[int(k) if k.isdigit() else k] = plain(rng)
    dm = mon.data_module({"title": title, "args": args})
    out = mon.expand("«{{#invoke:echo|et|%s}}»" % dm)
    # the equivalent call, as the Scribunto manual defines it: keys 1..n positional, others named
    parts = [title]
    n = 1
    rest = dict(args)
    while n in rest and "=" not in rest[n]:
        parts.append(rest.pop(n))
        n += 1
    for k, v in rest.items():
        parts.append("%s=%s" % (k, v))
    wt = "{{" + "|".join(parts) + "}}"
    exp = mon.expand(wt)
    obs.check("expandTemplate==wikitext")
    obs.check("result-replaces-call")
    case = {"kind": "et", "title": title, "args": {str(k): v for k, v in args.items()}, "wikitext": wt}
    if out.startswith("\x02") or exp.startswith("\x02"):
        return case, [("raises-or-hangs:" + (out if out.startswith("\x02") else exp)[1:], out)], False
    m = re.search(r"«\x01A(.*?)\x01E»", out, re.S)
    if not m:
        return case, [("returned-string-does-not-replace-call", out[:300])], False
    if m.group(1) != exp:
        posedge = any(isinstance(k, int) and k <= npos and v != v.strip() for k, v in args.items())
        cls = "/positional-value-with-edge-blanks" if posedge else ""
        if eqshape:
            cls = "/positional-value-with-equals-sign" + cls
        if any(isinstance(k, int) and k <= npos and v.endswith("\n") for k, v in args.items()):
            cls += "/class=pos-trailing-newline"
        return case, [("expandTemplate!=wikitext" + cls, "lua=%r wikitext %r -> %r" % (m.group(1), wt, exp))], True
    return case, [], True


PFS = [("#if", 3), ("#ifeq", 4), ("lc", 1), ("uc", 1), ("ucfirst", 1), ("padleft", 3), ("#switch", 3), ("#len", 1), ("#sub", 3),
       ("#replace", 3), ("urlencode", 1), ("#titleparts", 2), ("PAGENAME", 0), ("#expr", 1), ("plural", 3), ("#pos", 2), ("ns", 1)]


def case_cpf(mon, rng, obs):
    mon.set_templates(LIBT)
    name, ar = rng.choice(PFS)
    n = rng.randint(max(0, ar - 1), ar)
    args = []
    for i in range(n):
        if name in ("padleft", "#sub", "#titleparts", "#expr", "plural", "ns") and i < 2 and rng.random() < 0.7:
            args.append(rng.choice(["1", "2", "3", "0", "10", "1+1"]))
        elif name == "#switch" and i > 0:
            args.append(rng.choice(["a=1", "b= 2 ", "#default=z", "q"]))
        elif i == 0:
            # Lua passes values verbatim while wikitext strips the blanks around a parser function's first
            # argument: a first argument with edge blanks has no wikitext equivalent and is not generated
            args.append(plain(rng, edge=False).strip())
        else:
            args.append(plain(rng))
    form = rng.choice([1, 2, 3])
    if form == 1 and not args and rng.random() < 0.5:
        form = 2
    targs = args
    wargs = args
    tshape = ""
    if form != 1 and rng.random() < 0.35:
        # arguments given as a Lua table that is more than a short sequence.  The equivalent call is the one the
        # Scribunto manual defines (same rule as for expandTemplate): keys 1..n are the positional values in
        # numeric order, every other key k is the argument 'k=value'
        if rng.random() < 0.5:
            name = rng.choice(["#switch", "#switch", "#tag", "#if", "#ifeq", "lc"])
            pos = {"#switch": [rng.choice(["a", "b", "q"])], "#tag": ["span", plain(rng, edge=False)], "#if": [rng.choice(["", "x"])],
                   "#ifeq": ["a", rng.choice(["a", "b"])], "lc": ["AB"]}[name]
            keys = rng.sample(["a", "b", "c", "#default"] if name == "#switch" else ["class", "id", "k"], rng.randint(1, 3))
            named = {k: rng.choice(["1", "2", "y", "z w"]) for k in keys}
            tshape = "named-key"
        else:
            name = "#switch"
            pos = [rng.choice(["q", "a", "b"])] + [rng.choice(["a", "b", "c", "d", "e", "a=1", "b=2", "c=3", "x"]) for _ in range(rng.randint(9, 12))]
            pos[-1] = "last"
            named = {}
            tshape = "10+positional"
        targs = {i + 1: v for i, v in enumerate(pos)}
        targs.update(named)
        wargs = pos + ["%s=%s" % (k, named[k]) for k in sorted(named)]
        args = wargs
        obs.count("cpf.table." + tshape)
    dm = mon.data_module({"name": name, "args": targs, "form": form})
    out = mon.expand("«{{#invoke:echo|cpf|%s}}»" % dm)
    wt = "{{" + name + (":" + "|".join(wargs) if wargs else "") + "}}"
    exp = mon.expand(wt)
    obs.check("callParserFunction==wikitext")
    obs.check("result-replaces-call")
    obs.count("cpf.form.%d" % form)
    case = {"kind": "cpf", "name": name, "args": args, "form": form, "wikitext": wt}
    if tshape:
        case["table"] = {str(k): v for k, v in targs.items()}
    if out.startswith("\x02") or exp.startswith("\x02"):
        return case, [("raises-or-hangs:" + (out if out.startswith("\x02") else exp)[1:], out)], False
    m = re.search(r"«\x01A(.*?)\x01E»", out, re.S)
    if not m:
        return case, [("returned-string-does-not-replace-call", out[:300])], False
    if m.group(1) != exp:
        first_edge = bool(args) and args[0] != args[0].lstrip()
        tag = "/first-arg-leading-blank" if first_edge else ""
        if tshape:
            return case, [("callParserFunction!=wikitext/table-arguments/%s/form=%d" % (tshape, form),
                           "%s table=%r lua=%r wikitext %r -> %r" % (name, targs, m.group(1), wt, exp))], True
        return case, [("callParserFunction!=wikitext/%s%s" % (name, tag), "form=%d lua=%r wikitext %r -> %r" % (form, m.group(1), wt, exp))], True
    return case, [], True


def run_shard(spec):
    import wikitextprocessor.luaexec as lx
    obs = Obs()
    rng = random.Random(spec["seed"])
    mon = Mon()
    anchors.watch({"luaexec.make_frame": (lx.call_lua_sandbox, "make_frame"), "luaexec.preprocess": (lx.call_lua_sandbox, "preprocess"),
                   "luaexec.expandTemplate": (lx.call_lua_sandbox, "expandTemplate"),
                   "luaexec.callParserFunction": (lx.call_lua_sandbox, "callParserFunction"),
                   "luaexec.call_lua_sandbox": lx.call_lua_sandbox})
    fns = [case_args, case_args, case_pre, case_et, case_cpf]
    for i in range(spec["n"]):
        f = fns[i % len(fns)]
        case, probs, reached = f(mon, rng, obs)
        obs.count("kind." + case["kind"])
        obs.case(case, nontrivial=reached, sample=case)
        for sig, msg in probs:
            if "/class=pos-trailing-newline" in sig:
                # one signature for the whole tagged class (deliberate newline stripping, see C04 finding)
                msg = sig + ": " + msg
                sig = "mismatch/class=pos-trailing-newline"
            obs.violation(sig, msg[:600], case)
        if mon.n > 400:      # keep the module table of the runtime small: fresh context
            mon.close()
            mon = Mon()
    mon.close()
    obs.anchors.update(anchors.snapshot())
    return obs


def replay(case):
    mon = Mon()
    out = {}
    k = case["kind"]
    if k == "args":
        t = dict(LIBT)
        t.update(LIBX)
        t.update(case.get("templates", {}))
        mon.set_templates(t)
        out["output"] = mon.expand(case["page"])
    elif k == "pre":
        mon.set_templates(LIBT)
        dm = mon.data_module({"text": case["text"]})
        out["lua"] = mon.expand("«{{#invoke:echo|%s|%s}}»" % (case["fn"], dm))
        out["expand"] = mon.expand(case["text"])
    elif k == "et":
        mon.set_templates(LIBE)
        args = {(int(a) if a.isdigit() else a): v for a, v in case["args"].items()}
        dm = mon.data_module({"title": case["title"], "args": args})
        out["lua"] = mon.expand("«{{#invoke:echo|et|%s}}»" % dm)
        out["expand"] = mon.expand(case["wikitext"])
    else:
        mon.set_templates(LIBT)
        targs = case["args"]
        if "table" in case:
            targs = {(int(k) if k.isdigit() else k): v for k, v in case["table"].items()}
        dm = mon.data_module({"name": case["name"], "args": targs, "form": case["form"]})
        out["lua"] = mon.expand("«{{#invoke:echo|cpf|%s}}»" % dm)
        out["expand"] = mon.expand(case["wikitext"])
    mon.close()
    v = []
    if "lua" in out:
        m = re.search(r"«\x01A(.*?)\x01E»", out["lua"], re.S)
        if not m or m.group(1) != out["expand"]:
            v.append("lua-api!=wikitext")
    out["violations"] = v
    return out
