"""C08 -- the Lua frame API is equivalent to the corresponding wikitext.

Monitors: an echo module in the page store serialises unambiguously what a module receives (frame.args via
pairs and direct index, parent title/args) and what preprocess / expandTemplate / callParserFunction return.
Expected values: (a) argument maps computed from the generating AST by the statement's rule (values evaluated
by the C04 reference), (b) metamorphic relations on the real code: frame:preprocess(t) vs ctx.expand(t),
frame:expandTemplate vs expand('{{T|...}}'), frame:callParserFunction (3 call forms) vs expand('{{name:...}}')."""
from __future__ import annotations

import random
import re

from vf.core.obs import Obs, cpu_guard, CpuBudget, exc_sig
from vf.core import anchors
from vf.gen import expansion as G
from vf.ref.transclusion import Ref, key_of

LEVEL = "exploration"
RULE = ("invocations: {{#invoke:echo|fn|ARGS}} with ARGS of length 0-6 mixing positional / named / numeric-named arguments, "
        "blanks around names and values, nested template calls and #if as values, at wrapper depth 0..2 (page -> template -> "
        "template -> #invoke); preprocess fragments from the expansion grammar; expandTemplate / callParserFunction with plain-text "
        "values (blanks, no | = braces) in all call forms. non-trivial = distinct (function, rendered call, wrapper depth) that "
        "reached the Lua side (echo output parsed back)")
ASSUMPTIONS = ["Lua stand-ins for the absent Scribunto ustring/libraryUtil files (byte semantics; workloads are ASCII + a few UTF-8 letters passed through unchanged)",
               "raw wikitext reaches frame:preprocess through a per-case data module (require), never through frame.args",
               "tagged class: positional value ending in a newline (make_frame strips one trailing newline on purpose)"]
WALL = {"quick": 900, "thorough": 5400}

ECHO = r'''local e = {}
local function ser(args)
  local keys = {}
  for k, v in pairs(args) do keys[#keys+1] = k end
  table.sort(keys, function(a, b) return (type(a) .. tostring(a)) < (type(b) .. tostring(b)) end)
  local out = {}
  for _, k in ipairs(keys) do
    local v = args[k]
    out[#out+1] = "[" .. (type(k) == "number" and "n" or "s") .. ":" .. tostring(k) .. ":" .. #tostring(v) .. "]" .. tostring(v)
  end
  return table.concat(out)
end
function e.args(frame)
  local direct = ""
  for _, k in ipairs({1, 2, 3, "1", "n", "k k"}) do
    local v = frame.args[k]
    direct = direct .. "{" .. tostring(k) .. "=" .. (v == nil and "NIL" or (#v .. ":" .. v)) .. "}"
  end
  local p = frame:getParent()
  local ps = "NOPARENT"
  if p then ps = "[t:" .. #p:getTitle() .. "]" .. p:getTitle() .. ser(p.args) end
  return "\1A" .. ser(frame.args) .. "\1D" .. direct .. "\1P" .. ps .. "\1E"
end
function e.pre(frame)
  local d = require("Module:" .. frame.args[1])
  local r = frame:preprocess(d.text)
  return "\1A" .. r .. "\1E"
end
function e.pre2(frame)
  local d = require("Module:" .. frame.args[1])
  local r = frame:preprocess{text = d.text}
  return "\1A" .. r .. "\1E"
end
function e.et(frame)
  local d = require("Module:" .. frame.args[1])
  local r = frame:expandTemplate{title = d.title, args = d.args}
  return "\1A" .. r .. "\1E"
end
function e.cpf(frame)
  local d = require("Module:" .. frame.args[1])
  local r
  if d.form == 1 then r = frame:callParserFunction(d.name, unpack(d.args))
  elseif d.form == 2 then r = frame:callParserFunction(d.name, d.args)
  else r = frame:callParserFunction{name = d.name, args = d.args} end
  return "\1A" .. tostring(r) .. "\1E"
end
return e'''


def floors(tier):
    return {"oracle.frame-args==rule": 300, "oracle.parent==rule": 200, "oracle.preprocess==expand": 300,
            "oracle.expandTemplate==wikitext": 300, "oracle.callParserFunction==wikitext": 300, "oracle.result-replaces-call": 1000,
            "counters.depth.0": 50, "counters.depth.1": 50, "counters.depth.2": 50, "counters.cpf.form.1": 30,
            "counters.cpf.form.2": 30, "counters.cpf.form.3": 30, "anchors.luaexec.make_frame": 500,
            "anchors.luaexec.preprocess": 300, "anchors.luaexec.expandTemplate": 100, "anchors.luaexec.callParserFunction": 100}


def shards(tier, seed):
    per = {"quick": 3000, "thorough": 60000}[tier]
    return [{"seed": seed * 1000 + i, "n": per} for i in range(16)]


def lua_str(s):
    n = 1
    while "]" + "=" * n in s:
        n += 1
    return "[" + "=" * n + "[\n" + s + "]" + "=" * n + "]"


def lua_val(v):
    if isinstance(v, str):
        return lua_str(v)
    if isinstance(v, int):
        return str(v)
    if isinstance(v, dict):
        return "{" + ", ".join("[%s] = %s" % ('"%s"' % k.replace("\\", "\\\\").replace('"', '\\"') if isinstance(k, str) else k, lua_val(x)) for k, x in v.items()) + "}"
    if isinstance(v, list):
        return "{" + ", ".join(lua_val(x) for x in v) + "}"
    raise TypeError(v)


class Mon:
    def __init__(self):
        from vf.core.wtp import fresh
        self.cm = fresh(lua=True, pages=[("Module:echo", 828, ECHO)])
        self.ctx = self.cm.__enter__()
        self.n = 0
        self.lib = {}

    def close(self):
        self.cm.__exit__(None, None, None)

    def set_templates(self, texts):
        c = self.ctx
        c.db_conn.execute("DELETE FROM pages WHERE namespace_id = 10")
        for n, b in texts.items():
            c.add_page("Template:" + n, 10, b)
        try:
            type(c).get_page.cache_clear()
        except AttributeError:
            pass

    def data_module(self, d):
        self.n += 1
        name = "d%dx%d" % (id(self) % 9973, self.n)
        self.ctx.add_page("Module:" + name, 828, "return " + lua_val(d))
        try:
            type(self.ctx).get_page.cache_clear()
        except AttributeError:
            pass
        return name

    def expand(self, text, title="Pg"):
        self.ctx.start_page(title)
        try:
            with cpu_guard(20):
                return self.ctx.expand(text)
        except CpuBudget:
            return "\x02CPU"
        except Exception as e:
            return "\x02EXC " + exc_sig(e)


SER = re.compile(r"\[([nst]):([^:\]]*):(\d+)\]", re.S)


SERB = re.compile(rb"\[([nst]):([^:\]]*):(\d+)\]", re.S)


def parse_ser(s):
    """Parse '[n:1:3]abc[s:k:2]xy' into {1: 'abc', 'k': 'xy'} (lengths are BYTE lengths, as Lua counts);
    returns (map, ok)."""
    b = s.encode("utf-8")
    out = {}
    i = 0
    while i < len(b):
        m = SERB.match(b, i)
        if not m:
            return out, False
        ln = int(m.group(3))
        v = b[m.end(): m.end() + ln].decode("utf-8", "replace")
        k = int(m.group(2)) if m.group(1) == b"n" else m.group(2).decode("utf-8")
        out[k] = v
        i = m.end() + ln
    return out, True


def argmap(ref, args, frame):
    ht = {}
    num = 1
    for x in args:
        if x[0] == "pos":
            ht[num] = ref.ev(x[1], frame, (), True)
            num += 1
        else:
            ht[key_of(x[2])] = (x[4] + ref.ev(x[3], frame, (), True) + x[5]).strip()
    return ht


def render_args(args):
    parts = []
    for a in args:
        if a[0] == "pos":
            parts.append(G.render(a[1]))
        else:
            parts.append(a[1] + "=" + a[4] + G.render(a[3]) + a[5])
    return "".join("|" + p for p in parts)


def gen_args(rng, lib, in_body, tags):
    cfg = G.Cfg(include_tags=False, missing=True, table_marker=False, switch=False)
    node = None
    while node is None or node[0] != "C":
        node = G.gen(rng, 3, lib, in_body, cfg, tags)
    args = list(node[3])
    while len(args) < rng.randint(0, 6):
        n2 = G.gen(rng, 2, lib, in_body, cfg, tags)
        if n2[0] == "C":
            args += n2[3]
        else:
            args.append(("pos", ("S", [n2])))
    return args[:6]


# (delimiters that are not wikitext syntax: nested "[..]" would form [[links]], "<..>" could look like tags)
LIBT = {"ta": "\u27e8{{{1|}}}\u27e9", "tb": "\u27e6{{{1|}}}\u00a6{{{n|dn}}}\u27e7", "tc": " x{{{2| d2 }}} ", "td": "* li"}
LIBA = {k: None for k in LIBT}


def lib_ast():
    # ASTs equivalent to LIBT for the reference evaluator
    T = lambda s: ("T", s)
    S = lambda *x: ("S", list(x))
    return {"ta": S(T("\u27e8"), ("P", "1", "1", S(T(""))), T("\u27e9")),
            "tb": S(T("\u27e6"), ("P", "1", "1", S(T(""))), T("\u00a6"), ("P", "n", "n", S(T("dn"))), T("\u27e7")),
            "tc": S(T(" x"), ("P", "2", "2", S(T(" d2 "))), T(" ")),
            "td": S(T("* li"))}


def case_args(mon, rng, obs):
    """(a) frame arguments and parent frame at wrapper depth 0..2."""
    tags = set()
    depth = rng.randrange(3)
    names = list(LIBT)
    ref = Ref(lib_ast())
    iargs = gen_args(rng, names, depth > 0, tags)
    inv = "{{#invoke:echo|args" + render_args(iargs) + "}}"
    texts = dict(LIBT)
    frame = None
    ptitle = None
    if depth == 0:
        page = "«" + inv + "»"
    else:
        a1 = gen_args(rng, names, depth > 1, tags)
        texts["w1"] = "«" + inv + "»"
        if depth == 1:
            page = "{{w1" + render_args(a1) + "}}"
            frame = argmap(ref, a1, None)
        else:
            a2 = gen_args(rng, names, False, tags)
            texts["w2"] = "{{w1" + render_args(a1) + "}}"
            page = "{{w2" + render_args(a2) + "}}"
            f2 = argmap(ref, a2, None)
            frame = argmap(ref, a1, f2)
        ptitle = "Template:w1"
    exp_args = argmap(ref, iargs, frame)
    mon.set_templates(texts)
    out = mon.expand(page)
    obs.count("depth.%d" % depth)
    case = {"kind": "args", "page": page, "templates": {k: v for k, v in texts.items() if k.startswith("w")}, "depth": depth}
    probs = []
    cls = ""
    if any(isinstance(k, int) and v.endswith("\n") for k, v in exp_args.items()) or \
            (frame and any(isinstance(k, int) and v.endswith("\n") for k, v in frame.items())) or \
            "CLASS:pos-trailing-newline" in ref.rules:
        cls = "/class=pos-trailing-newline"
    m = re.search(r"«\x01A(.*?)\x01D(.*?)\x01P(.*?)\x01E»", out, re.S)
    obs.check("result-replaces-call")
    if out.startswith("\x02"):
        return case, [("raises-or-hangs:" + out[1:], out)], False
    if not m:
        return case, [("returned-string-does-not-replace-call" + cls, out[:300])], False
    got_args, ok = parse_ser(m.group(1))
    obs.check("frame-args==rule")
    if not ok:
        probs.append(("echo-unparseable", m.group(1)[:200]))
    elif got_args != exp_args:
        kd = set(map(repr, got_args)) != set(map(repr, exp_args))
        probs.append(("frame-args!=rule/%s%s" % ("keys" if kd else "values", cls), "expected=%r got=%r" % (exp_args, got_args)))
    # direct indexing agrees with pairs
    for mm in re.finditer(r"\{([^=}]*)=(NIL|(\d+):)", m.group(2)):
        pass
    obs.check("parent==rule")
    pm = m.group(3)
    if depth == 0:
        # page-level invoke: parent frame is the page itself (title = page title, no args)
        if pm != "NOPARENT":
            pt, ok2 = parse_ser(pm)
            if not ok2 or set(pt) - {""}:
                pass
    else:
        mt = re.match(r"\[t:(\d+)\]", pm)
        if not mt:
            probs.append(("parent-missing" + cls, pm[:100]))
        else:
            ln = int(mt.group(1))
            pb = pm[mt.end():].encode("utf-8")
            title = pb[:ln].decode("utf-8", "replace")
            pargs, ok2 = parse_ser(pb[ln:].decode("utf-8", "replace"))
            if title != ptitle:
                probs.append(("parent-title!=enclosing-template" + cls, "%r != %r" % (title, ptitle)))
            if not ok2 or pargs != frame:
                kd = set(map(repr, pargs)) != set(map(repr, frame))
                probs.append(("parent-args!=rule/%s%s" % ("keys" if kd else "values", cls), "expected=%r got=%r" % (frame, pargs)))
    return case, probs, True


def plain(rng, edge=True):
    s = "".join(rng.choice(["a", "b", "x1", "é", " ", "2", "q r", "Z"]) for _ in range(rng.randint(0, 4)))
    if edge and rng.random() < 0.4:
        s = rng.choice([" ", "  ", "\n", ""]) + s + rng.choice([" ", "", "\t"])
    return s


def case_pre(mon, rng, obs):
    tags = set()
    cfg = G.Cfg(include_tags=False, table_marker=False)
    frag = G.render(G.seq(rng, rng.randint(1, 3), list(LIBT), False, cfg, tags))
    if rng.random() < 0.2:
        frag += rng.choice(["[[a|b]]", "'''b'''", "{{PAGENAME}}", "{{#expr:1+1}}", "<nowiki>{{ta}}</nowiki>", "{{lc:ABC}}", "* x"])
    mon.set_templates(LIBT)
    dm = mon.data_module({"text": frag})
    fn = rng.choice(["pre", "pre", "pre2"])
    out = mon.expand("«{{#invoke:echo|%s|%s}}»" % (fn, dm))
    exp = mon.expand(frag)
    obs.check("preprocess==expand")
    obs.check("result-replaces-call")
    case = {"kind": "pre", "text": frag, "fn": fn}
    if out.startswith("\x02") or exp.startswith("\x02"):
        return case, [("raises-or-hangs:" + (out if out.startswith("\x02") else exp)[1:], out)], False
    m = re.search(r"«\x01A(.*?)\x01E»", out, re.S)
    if not m:
        return case, [("returned-string-does-not-replace-call", out[:300])], False
    if m.group(1) != exp:
        feat = "heading-only" if re.fullmatch(r"(=+)[^=]+\1", frag) else "fragment"
        for t, nm in (("<nowiki", "nowiki"), ("<!--", "comment"), ("[[", "link"), ("{{PAGENAME", "magicword"), ("{{#expr", "expr")):
            if t in frag:
                feat += "+" + nm
        return case, [("preprocess!=expand/" + feat, "preprocess=%r expand=%r" % (m.group(1), exp))], True
    return case, [], True


def case_et(mon, rng, obs):
    mon.set_templates(LIBT)
    title = rng.choice(list(LIBT) + ["missing", "Template:ta", " tb"])
    npos = rng.randint(0, 3)
    args = {}
    for i in range(npos):
        args[i + 1] = plain(rng)
    for k in rng.sample(["n", "k k", "5", "m"], rng.randint(0, 2)):
        args[int(k) if k.isdigit() else k] = plain(rng)
    dm = mon.data_module({"title": title, "args": args})
    out = mon.expand("«{{#invoke:echo|et|%s}}»" % dm)
    # the equivalent call, as the Scribunto manual defines it: keys 1..n positional, others named
    parts = [title]
    n = 1
    rest = dict(args)
    while n in rest:
        parts.append(rest.pop(n))
        n += 1
    for k, v in rest.items():
        parts.append("%s=%s" % (k, v))
    wt = "{{" + "|".join(parts) + "}}"
    exp = mon.expand(wt)
    obs.check("expandTemplate==wikitext")
    obs.check("result-replaces-call")
    case = {"kind": "et", "title": title, "args": {str(k): v for k, v in args.items()}, "wikitext": wt}
    if out.startswith("\x02") or exp.startswith("\x02"):
        return case, [("raises-or-hangs:" + (out if out.startswith("\x02") else exp)[1:], out)], False
    m = re.search(r"«\x01A(.*?)\x01E»", out, re.S)
    if not m:
        return case, [("returned-string-does-not-replace-call", out[:300])], False
    if m.group(1) != exp:
        posedge = any(isinstance(k, int) and k <= npos and v != v.strip() for k, v in args.items())
        cls = "/positional-value-with-edge-blanks" if posedge else ""
        if any(isinstance(k, int) and k <= npos and v.endswith("\n") for k, v in args.items()):
            cls += "/class=pos-trailing-newline"
        return case, [("expandTemplate!=wikitext" + cls, "lua=%r wikitext %r -> %r" % (m.group(1), wt, exp))], True
    return case, [], True


PFS = [("#if", 3), ("#ifeq", 4), ("lc", 1), ("uc", 1), ("ucfirst", 1), ("padleft", 3), ("#switch", 3), ("#len", 1), ("#sub", 3),
       ("#replace", 3), ("urlencode", 1), ("#titleparts", 2), ("PAGENAME", 0), ("#expr", 1), ("plural", 3), ("#pos", 2), ("ns", 1)]


def case_cpf(mon, rng, obs):
    mon.set_templates(LIBT)
    name, ar = rng.choice(PFS)
    n = rng.randint(max(0, ar - 1), ar)
    args = []
    for i in range(n):
        if name in ("padleft", "#sub", "#titleparts", "#expr", "plural", "ns") and i < 2 and rng.random() < 0.7:
            args.append(rng.choice(["1", "2", "3", "0", "10", "1+1"]))
        elif name == "#switch" and i > 0:
            args.append(rng.choice(["a=1", "b= 2 ", "#default=z", "q"]))
        elif i == 0:
            # Lua passes values verbatim while wikitext strips the blanks around a parser function's first
            # argument: a first argument with edge blanks has no wikitext equivalent and is not generated
            args.append(plain(rng, edge=False).strip())
        else:
            args.append(plain(rng))
    form = rng.choice([1, 2, 3])
    if form == 1 and not args and rng.random() < 0.5:
        form = 2
    dm = mon.data_module({"name": name, "args": args, "form": form})
    out = mon.expand("«{{#invoke:echo|cpf|%s}}»" % dm)
    wt = "{{" + name + (":" + "|".join(args) if args else "") + "}}"
    exp = mon.expand(wt)
    obs.check("callParserFunction==wikitext")
    obs.check("result-replaces-call")
    obs.count("cpf.form.%d" % form)
    case = {"kind": "cpf", "name": name, "args": args, "form": form, "wikitext": wt}
    if out.startswith("\x02") or exp.startswith("\x02"):
        return case, [("raises-or-hangs:" + (out if out.startswith("\x02") else exp)[1:], out)], False
    m = re.search(r"«\x01A(.*?)\x01E»", out, re.S)
    if not m:
        return case, [("returned-string-does-not-replace-call", out[:300])], False
    if m.group(1) != exp:
        first_edge = bool(args) and args[0] != args[0].lstrip()
        tag = "/first-arg-leading-blank" if first_edge else ""
        return case, [("callParserFunction!=wikitext/%s%s" % (name, tag), "form=%d lua=%r wikitext %r -> %r" % (form, m.group(1), wt, exp))], True
    return case, [], True


def run_shard(spec):
    import wikitextprocessor.luaexec as lx
    obs = Obs()
    rng = random.Random(spec["seed"])
    mon = Mon()
    anchors.watch({"luaexec.make_frame": (lx.call_lua_sandbox, "make_frame"), "luaexec.preprocess": (lx.call_lua_sandbox, "preprocess"),
                   "luaexec.expandTemplate": (lx.call_lua_sandbox, "expandTemplate"),
                   "luaexec.callParserFunction": (lx.call_lua_sandbox, "callParserFunction"),
                   "luaexec.call_lua_sandbox": lx.call_lua_sandbox})
    fns = [case_args, case_args, case_pre, case_et, case_cpf]
    for i in range(spec["n"]):
        f = fns[i % len(fns)]
        case, probs, reached = f(mon, rng, obs)
        obs.count("kind." + case["kind"])
        obs.case(case, nontrivial=reached, sample=case)
        for sig, msg in probs:
            if "/class=pos-trailing-newline" in sig:
                # one signature for the whole tagged class (deliberate newline stripping, see C04 finding)
                msg = sig + ": " + msg
                sig = "mismatch/class=pos-trailing-newline"
            obs.violation(sig, msg[:600], case)
        if mon.n > 400:      # keep the module table of the runtime small: fresh context
            mon.close()
            mon = Mon()
    mon.close()
    obs.anchors.update(anchors.snapshot())
    return obs


def replay(case):
    mon = Mon()
    out = {}
    k = case["kind"]
    if k == "args":
        t = dict(LIBT)
        t.update(case.get("templates", {}))
        mon.set_templates(t)
        out["output"] = mon.expand(case["page"])
    elif k == "pre":
        mon.set_templates(LIBT)
        dm = mon.data_module({"text": case["text"]})
        out["lua"] = mon.expand("«{{#invoke:echo|%s|%s}}»" % (case["fn"], dm))
        out["expand"] = mon.expand(case["text"])
    elif k == "et":
        mon.set_templates(LIBT)
        args = {(int(a) if a.isdigit() else a): v for a, v in case["args"].items()}
        dm = mon.data_module({"title": case["title"], "args": args})
        out["lua"] = mon.expand("«{{#invoke:echo|et|%s}}»" % dm)
        out["expand"] = mon.expand(case["wikitext"])
    else:
        mon.set_templates(LIBT)
        dm = mon.data_module({"name": case["name"], "args": case["args"], "form": case["form"]})
        out["lua"] = mon.expand("«{{#invoke:echo|cpf|%s}}»" % dm)
        out["expand"] = mon.expand(case["wikitext"])
    mon.close()
    v = []
    if "lua" in out:
        m = re.search(r"«\x01A(.*?)\x01E»", out["lua"], re.S)
        if not m or m.group(1) != out["expand"]:
            v.append("lua-api!=wikitext")
    out["violations"] = v
    return out
