"""C03 -- tables, HTML elements, links, external links and template calls parse to their written structure.

Oracle: render/parse inverse on specification objects.  vf.gen.c03_gen builds a spec (table grid with
separator layout, attribute maps, caption, cell content AST; HTML element with attribute map, optionally
inside a permitted parent; link / external link / template call with an argument list), vf.ref.c03_model
renders it, derives the expected structure from the *spec* (never from the text) and reads the tree that
Wtp.parse() returned back into the same shape.  First differing path = failed clause of the statement.
Every disagreement is delta-minimised over the spec (rows, columns, attributes, separators, content items)
while the same clause keeps failing; the mechanism signature is  <family>:<clause>/<feature tags of the
minimal witness>.
"""
from __future__ import annotations

import copy
import itertools
import json
import os
import random

from vf.core.obs import Obs, cpu_guard, CpuBudget, exc_sig
from vf.core import anchors
from vf.ref import c03_model as M
from vf.gen import c03_gen as G

LEVEL = "exploration"
RULE = ("cases are specification objects rendered to wikitext: (S1) every grid shape r x c (quick <=3x3, thorough <=4x4) x "
        "{one cell per line, ||/!! separated} x {caption, none} with sampled contents; (S2) every ordered pair of the 23 cell-content "
        "classes in adjacent cells x separator layout x header/data x cell attributes; (S3) every paired tag of ALLOWED_HTML_TAGS x "
        "0-3 attributes x 3 quoting styles x content classes x {top level, inside each permitted parent}; (S4) every sequence of "
        "argument kinds {empty,text,named,template,link,blank-padded} up to length 3 (thorough 5) for templates and links; (S5) every "
        "external-link protocol the package declares x {bare, label, label with markup} x {top level, table cell}; (S6) every paired tag x "
        "1-3 attributes x quoting style x {newline, tab} as the white space inside the start tag; plus "
        "seeded random tables (mixed line layouts, row/table/caption attributes, omitted first row marker), elements, links, "
        "external links (labels with inline HTML / templates), template calls, parser-function calls {{name:..}} and template-argument "
        "references {{{..}}} with nested arguments, call arguments containing '!!', a line starting with '!' or a '----' line.  distinct = distinct rendered text; non-trivial = table with "
        ">=2 cells or an attribute / element with an attribute, a parent or non-text content / call with >=1 argument")
ASSUMPTIONS = [
    "cell and caption content is compared modulo blanks at both ends (the source line end belongs to the layout, not the content)",
    "generated constructs are separated so that no token arises by juxtaposition (no word character right after ]], one bold/italic run per line, no ] before ]]); "
    "content never starts with - + } or a list marker; '!!', a line starting with '!' and a '----' line are written only inside the argument of a call or link "
    "(where they are part of that argument), never bare in a cell",
    "inside call arguments only text, templates, parser-function calls, template arguments, links and external links are generated (bold/italic/HTML are deliberately kept as text there by the parser)",
    "attribute names outside [-a-zA-Z0-9:] (URL-safe _ and .) and URLs ending in . , ! ? are generated as separately tagged input classes",
    "an empty attribute value in single quotes (a='') outside an HTML tag, protocols other than http(s) and //, white space other than one blank "
    "inside a start tag are separately tagged input classes; the minimiser never introduces a tagged class a witness did not have",
    "bracketed external links are written on one line; leading blanks before table markers and list-prefixed tables (:{|) are not generated (not part of the statement)",
    "per-case CPU budget 20 s",
]
WALL = {"quick": 900, "thorough": 5400}

ANCH = ["table_start_fn", "table_caption_fn", "table_hdr_cell_fn", "table_row_fn", "table_cell_fn", "table_end_fn",
        "vbar_fn", "double_vbar_fn", "check_for_attributes", "table_check_attrs", "table_row_check_attrs", "parse_attrs",
        "tag_fn", "magic_fn"]


def floors(tier):
    f = {"oracle.table-spec-eq": 5000, "oracle.inline-spec-eq": 5000, "oracle.cells-compared": 20000,
         "oracle.attr-maps-compared": 20000, "oracle.arg-lists-compared": 5000,
         "sets.matrix": 16, "sets.html_tags_top": len(G.paired_tags()), "sets.html_tags_nested": len(G.paired_tags()),
         "sets.cell_classes": len(G.CELL_CLASSES), "sets.template_nargs": 6, "sets.link_nargs": 6, "sets.shapes": 9 if tier == "quick" else 16,
         "sets.quote_styles": 3, "sets.pair_classes": len(G.CELL_CLASSES) ** 2,
         "counters.gen.table": 1000, "counters.gen.html": 1000, "counters.gen.template": 500, "counters.gen.link": 500,
         "counters.gen.extlink": 300, "counters.table.caption": 100, "counters.table.hdr-sep=||": 50,
         "counters.table.no-first-marker": 50, "counters.table.layout.mixed": 50,
         "anchors.core.Wtp._encode": 1000, "nontrivial": 10000,
         # separately tagged input classes must actually have been written
         "counters.cls.cell.parser-function-call": 500, "counters.cls.cell.template-argument-ref": 300,
         "counters.cls.cell.call-arg-has-!!": 100, "counters.cls.cell.call-arg-line-start-!": 50,
         "counters.cls.cell.call-arg-rule-line": 20, "counters.cls.top.call-arg-rule-line": 20,
         "counters.cls.tag-attr-sep.newline": 200, "counters.cls.tag-attr-sep.tab": 200,
         "counters.cls.extlink-label-with-html": 30, "counters.cls.extlink-label-with-template": 20,
         "counters.cls.attr-empty-single-quoted.table": 10, "counters.cls.attr-empty-single-quoted.row": 10,
         "counters.cls.attr-empty-single-quoted.cell": 10, "counters.gen.parserfn": 100,
         "sets.url_schemes": len(G.url_starts()), "sets.parser_functions": len(G.PFUNCS)}
    for a in ANCH:
        f["anchors.parser." + a] = 100
    return f


def shards(tier, seed):
    n = 16
    per = {"quick": 2500, "thorough": 150000}[tier]
    per = int(os.environ.get("VERIF_C03_N", per))      # reduced counts while developing
    return [{"seed": seed, "n": per, "idx": i, "nsh": n, "tier": tier} for i in range(n)]


# ---------------------------------------------------------------- running one spec on the real parser

class Runner:
    def __init__(self, obs=None):
        from vf.core.wtp import fresh
        import wikitextprocessor.parser as P
        from wikitextprocessor import Wtp
        self.obs = obs
        self.cm = fresh()
        self.ctx = self.cm.__enter__()
        anchors.watch({"parser." + n: getattr(P, n) for n in ANCH})
        anchors.watch({"core.Wtp._encode": Wtp._encode})
        self.cache = {}

    def close(self):
        self.cm.__exit__(None, None, None)

    def check(self, sp, count=True):
        """-> None | (rule, path, expected, got, src)"""
        src = M.render(sp)
        if not count and src in self.cache:
            return self.cache[src]
        self.ctx.start_page("Pg")
        try:
            with cpu_guard(20):
                root = self.ctx.parse(src)
        except CpuBudget as e:
            r = ("no-return-within-cpu-budget", "parse", "", str(e)[-300:], src)
            self.cache[src] = r
            return r
        except Exception as e:
            r = ("raises:" + exc_sig(e), "parse", "", repr(e)[:300], src)
            self.cache[src] = r
            return r
        exp = M.expected(sp)
        got = M.observe(sp, root)
        if count and self.obs is not None:
            self.obs.check("table-spec-eq" if sp["kind"] == "table" else "inline-spec-eq")
            stats(self.obs, exp)
        d = M.diff(sp, exp, got)
        r = None if d is None else d + (src,)
        if len(self.cache) > 20000:
            self.cache.clear()
        self.cache[src] = r
        return r


def _walk_content(obs, c):
    for x in c:
        if isinstance(x, str):
            continue
        k = x[0]
        if k in ("T", "A", "L", "U", "P"):
            obs.check("arg-lists-compared")
            for a in x[1]:
                _walk_content(obs, a)
        elif k in ("B", "I"):
            _walk_content(obs, x[1])
        elif k == "H":
            obs.check("attr-maps-compared")
            _walk_content(obs, x[3])


def stats(obs, exp):
    """count what the comparison covers (every expected element is compared unless an earlier one differs)"""
    if isinstance(exp, dict):
        obs.check("attr-maps-compared", 1 + len(exp["rows"]))
        for r in exp["rows"]:
            obs.check("cells-compared", len(r["cells"]))
            obs.check("attr-maps-compared", len(r["cells"]))
            for c in r["cells"]:
                _walk_content(obs, c["content"])
        if exp["cap"] is not None:
            _walk_content(obs, exp["cap"]["content"])
    else:
        _walk_content(obs, exp)


# ---------------------------------------------------------------- delta minimisation over the spec

X = [["x", "x"]]
PROBES = [[["x", "a=1"]], [["x", "a!b"]], [["x", "a:b"]], [["x", "1"]], [["x", "a b"]]]
# texts that are only ever written inside the argument of a call / link (bare in a header cell "!!" is the
# separator, a "----" line is a rule): tried, and kept, only in argument position
APROBES = [[["x", "a!!b"]], [["x", "a\n!b"]], [["x", "a\n----\nb"]]]
ATOMIC = [X] + PROBES + APROBES
UPROBES = ("http://a.org/b.", "http://a.org", "//a.org/b", "https://a.org/b", "ftp://a.org/b")


def arg_only(items):
    """content that may not be moved out of argument position: a text (not itself inside the argument of a
    nested call / link) with a header-cell token or a line break"""
    for it in items:
        if it[0] == "x":
            if "!!" in it[1] or "\n" in it[1]:
                return True
        elif it[0] in ("B", "I"):
            if arg_only(it[1]):
                return True
        elif it[0] == "H":
            if arg_only(it[3] or []):
                return True
        elif it[0] == "U":
            if it[2] is not None and arg_only(it[2]):
                return True
    return False


def shrink_attrs(at):
    """alternatives for one attribute list"""
    if not at:
        return
    yield []
    if len(at) > 1:
        for i in range(len(at)):
            yield at[:i] + at[i + 1:]
    for i, a in enumerate(at):
        nm, v, q, eq = a[0], a[1], a[2], (a[3] if len(a) > 3 else "=")
        alts = []
        if eq != "=":
            alts.append([nm, v, q, "="])
        if q != '"':
            alts.append([nm, v, '"', eq])
        if v != "v":
            alts.append([nm, "v", q, eq])
        if nm != "class" and all(b[0] != "class" for b in at):
            alts.append(["class", v, q, eq])
        for alt in alts:
            yield at[:i] + [alt] + at[i + 1:]


def shrink_content(items, inarg=False):
    """alternatives (lists of items) for a content list, biggest cuts first; inarg = the content is an
    argument of a call / link"""
    if items in ATOMIC or not items:
        if items != X:
            yield X
        return
    yield X
    for p in PROBES + (APROBES if inarg else []):
        yield p
    yield []
    if len(items) > 1:
        for i in range(len(items)):
            yield items[:i] + items[i + 1:]
    for i, it in enumerate(items):
        for alt in shrink_item(it, inarg):
            yield items[:i] + alt + items[i + 1:]


def shrink_item(it, inarg=False):
    """alternatives (each a list of items to splice in) for one item"""
    k = it[0]
    if k == "x":
        if it[1] != "x":
            yield [["x", "x"]]
            if [it] in PROBES + APROBES:
                return
            for p in PROBES + (APROBES if inarg else []):
                yield p
            s = it[1]
            if s != s.strip() and s.strip():
                yield [["x", s.strip()]]
        return
    if k == "T":
        name, args = it[1], it[2]
        for a in args:          # unwrap: the argument content without the call around it
            c = a[2] if a[0] == "n" else a[1]
            if c and c != X and (inarg or not arg_only(c)):
                yield c
        if name != [["x", "zq0"]]:
            yield [["T", [["x", "zq0"]], args]]
        for i in range(len(args)):
            yield [["T", name, args[:i] + args[i + 1:]]]
        for i, a in enumerate(args):
            if a[0] == "n":
                yield [["T", name, args[:i] + [["p", a[2]]] + args[i + 1:]]]
                if a[1] != "k":
                    yield [["T", name, args[:i] + [["n", "k", a[2]]] + args[i + 1:]]]
                for alt in shrink_content(a[2], True):
                    yield [["T", name, args[:i] + [["n", a[1], alt]] + args[i + 1:]]]
            else:
                for alt in shrink_content(a[1], True):
                    yield [["T", name, args[:i] + [["p", alt]] + args[i + 1:]]]
        return
    if k == "P":
        fn, args = it[1], it[2]
        for a in args:
            if a and a != X and (inarg or not arg_only(a)):
                yield a
        yield [["T", [["x", "zq0"]], [["p", a] for a in args]]]      # the same arguments in an ordinary template call
        if fn != "lc":
            yield [["P", "lc", args]]
        if len(args) > 1:
            for i in range(len(args)):
                yield [["P", fn, args[:i] + args[i + 1:]]]
        for i, a in enumerate(args):
            for alt in shrink_content(a, True):
                yield [["P", fn, args[:i] + [alt] + args[i + 1:]]]
        return
    if k in ("A", "L"):
        args = it[1]
        for a in args[1:]:
            if a and a != X and (inarg or not arg_only(a)):
                yield a
        if len(args) > 1:       # the same arguments in an ordinary template call, then in a parser-function call
            yield [["T", [["x", "zq0"]], [["p", a] for a in args[1:]]]]
            yield [["P", "lc", args[1:]]]
        for i in range(1, len(args)):
            yield [[k, args[:i] + args[i + 1:]]]
        for i, a in enumerate(args):
            for alt in shrink_content(a, i > 0):
                if i == 0 and not alt:
                    continue
                yield [[k, args[:i] + [alt] + args[i + 1:]]]
        return
    if k == "U":
        if it[1] != "http://a.org/b":
            yield [["U", "http://a.org/b", it[2]]]
            if it[1] not in UPROBES:
                for u in UPROBES:
                    yield [["U", u, it[2]]]
        if it[2] is not None:
            if it[2] != X:
                yield it[2]
            yield [["U", it[1], None]]
            for alt in shrink_content(it[2], inarg):
                if alt:
                    yield [["U", it[1], alt]]
        return
    if k in ("B", "I"):
        yield it[1]
        for alt in shrink_content(it[1], inarg):
            if alt:
                yield [[k, alt]]
        return
    if k == "H":
        tag, at, content = it[1], it[2], it[3]
        endws = it[4] if len(it) > 4 else ""
        sep = it[5] if len(it) > 5 else " "
        if content is not None:
            yield content
        if sep != " ":
            yield [["H", tag, at, content, endws]]
            if sep not in ("\n", "\t"):
                yield [["H", tag, at, content, endws, "\n"]]
        if endws and not (content is None and endws == " /" and at and at[-1][2] == ""):
            yield [["H", tag, at, content, "", sep]]
        if content is None:
            yield [["H", "span", at, [["x", "x"]], "", sep]]
        if content is None and tag.lower() != "br":
            yield [["H", "br", at, content, endws, sep]]
        if tag != tag.lower():
            yield [["H", tag.lower(), at, content, endws, sep]]
        if tag.lower() != "span" and content is not None:
            yield [["H", "span", at, content, endws, sep]]
        for alt in shrink_attrs(at):
            yield [["H", tag, alt, content, endws, sep]]
        if content is not None:
            for alt in shrink_content(content, inarg):
                yield [["H", tag, at, alt, endws, sep]]
        return


def fix_layout(cells):
    if cells:
        cells[0]["nl"] = True
    for i, c in enumerate(cells):
        if not c["nl"]:
            c["h"] = cells[i - 1]["h"]
            if not c["h"]:
                c["sep"] = "||"
        if not c["content"] and c["attr"]:
            c["pad"] = " "
    return cells


def shrink_table(sp):
    def cp():
        return copy.deepcopy(sp)
    rows = sp["rows"]
    nr, nc = len(rows), len(rows[0]["cells"])
    # the content of one cell / the caption on its own (accepted when the innermost clause is the same)
    for r in rows:
        for c in r["cells"]:
            if c["content"] and c["content"] not in ATOMIC:
                yield {"kind": "inline", "focus": "from-cell", "items": c["content"]}
    if sp["cap"] and sp["cap"] not in ATOMIC:
        yield {"kind": "inline", "focus": "from-cell", "items": sp["cap"]}
    if nr > 1:
        for i in range(nr):
            s = cp()
            del s["rows"][i]
            yield s
    if nc > 1:
        for j in range(nc):
            s = cp()
            for r in s["rows"]:
                del r["cells"][j]
                fix_layout(r["cells"])
            yield s
    for key, val in (("pre", ""), ("post", ""), ("cap", None), ("capattr", []), ("tattr", []), ("marker", True), ("indent", "")):
        if sp.get(key, val) != val:
            s = cp()
            s[key] = val
            if key == "cap":
                s["capattr"] = []
            yield s
    if not sp["tattr"]:         # the same attribute list on the table itself (canonical place)
        for i, r in enumerate(rows):
            if r["attr"]:
                s = cp()
                s["tattr"], s["rows"][i]["attr"] = r["attr"], []
                yield s
            for j, c in enumerate(r["cells"]):
                if c["attr"]:
                    s = cp()
                    s["tattr"], s["rows"][i]["cells"][j]["attr"] = c["attr"], []
                    yield s
        if sp.get("capattr"):
            s = cp()
            s["tattr"], s["capattr"] = sp["capattr"], []
            yield s
    if sp.get("capattr") and not rows[0]["cells"][0]["attr"] and rows[0]["cells"][0]["content"]:
        s = cp()        # ... or on the first cell (attributes in front of a "|" inside the line)
        s["rows"][0]["cells"][0]["attr"], s["capattr"] = sp["capattr"], []
        yield s
    for i, r in enumerate(rows):
        if r["attr"]:
            s = cp()
            s["rows"][i]["attr"] = []
            yield s
        if any(not c["nl"] for c in r["cells"][1:]):
            s = cp()
            for c in s["rows"][i]["cells"]:
                c["nl"] = True
            yield s
        for j, c in enumerate(r["cells"]):
            if c["attr"]:
                s = cp()
                s["rows"][i]["cells"][j]["attr"] = []
                yield s
            if c["h"]:
                s = cp()
                cs = s["rows"][i]["cells"]
                a = j
                while not cs[a]["nl"] and a > 0:
                    a -= 1
                b = a
                cs[b]["h"] = False
                b += 1
                while b < len(cs) and not cs[b]["nl"]:
                    cs[b]["h"] = False
                    cs[b]["sep"] = "||"
                    b += 1
                yield s
            if not c["nl"] and c["h"] and c["sep"] == "||":
                s = cp()
                s["rows"][i]["cells"][j]["sep"] = "!!"
                yield s
            if c["pad"] and not (not c["content"] and c["attr"]):
                s = cp()
                s["rows"][i]["cells"][j]["pad"] = ""
                yield s
            if not c["nl"] and j > 0:
                s = cp()
                s["rows"][i]["cells"][j]["nl"] = True
                yield s
            for alt in shrink_content(c["content"]):
                s = cp()
                s["rows"][i]["cells"][j]["content"] = alt
                fix_layout(s["rows"][i]["cells"])
                yield s
            for alt in shrink_attrs(c["attr"]):
                if alt:
                    s = cp()
                    s["rows"][i]["cells"][j]["attr"] = alt
                    yield s
        for alt in shrink_attrs(r["attr"]):
            if alt:
                s = cp()
                s["rows"][i]["attr"] = alt
                yield s
    for key in ("tattr", "capattr"):
        for alt in shrink_attrs(sp.get(key) or []):
            if alt:
                s = cp()
                s[key] = alt
                yield s
    if sp["cap"] is not None:
        for alt in shrink_content(sp["cap"]):
            s = cp()
            s["cap"] = alt
            yield s


def shrink_inline(sp):
    for alt in shrink_content(sp["items"]):
        if alt:
            yield {"kind": "inline", "focus": sp.get("focus"), "items": alt}


WORDCH = "_"
_NEST = {}


def nesting_ok(parent, child):
    """may the generator write <child> directly inside <parent>?  (a permitted parent from the tag table,
    or a phrasing element inside an element that accepts phrasing content)"""
    key = (parent, child)
    if key not in _NEST:
        T = G.tag_table()
        ok = False
        if parent in T and child in T:
            ok = parent in G.parents_of(child) or (
                ("phrasing" in T[child].get("parents", []) or "*" in T[child].get("parents", [])) and G.accepts_phrasing(parent))
        _NEST[key] = ok
    return _NEST[key]


def _valid_content(items, in_call, top):
    """is this content inside the generator's domain (see ASSUMPTIONS)?  in_call: inside an argument of a
    template / parser function / template-argument reference; top: not an argument of anything"""
    prev = None
    for it in items:
        k = it[0]
        if k == "x":
            s = it[1]
            if top and ("!!" in s or "||" in s or "\n" in s):
                return False
            if prev is not None and prev[0] == "L" and s[:1] and (s[:1].isalnum() or s[:1] in WORDCH or not s[:1].isascii()):
                return False
            if prev is not None and prev[0] in ("B", "I") and s.startswith("'"):
                return False
        else:
            if prev is not None and prev[0] in ("B", "I") and k in ("B", "I"):
                return False
            if in_call and k in ("B", "I", "H"):
                return False
            if k == "T":
                if not it[1] or not _valid_content(it[1], True, False):
                    return False
                for a in it[2]:
                    if not _valid_content(a[2] if a[0] == "n" else a[1], True, False):
                        return False
            elif k == "P":
                if not it[2] or any(not _valid_content(a, True, False) for a in it[2]):
                    return False
            elif k == "A":
                if not it[1] or not it[1][0] or any(not _valid_content(a, True, False) for a in it[1]):
                    return False
            elif k == "L":
                args = it[1]
                if not args or not args[0]:
                    return False
                if len(args) > 1 and not M.r_content(args[-1]).strip():
                    return False
                for i, a in enumerate(args):
                    if any(x[0] == "U" for x in a) or not _valid_content(a, in_call, False):
                        return False
            elif k == "U":
                if it[2] is not None:
                    if not it[2] or not _valid_content(it[2], in_call, top):
                        return False
                    if it[2][0][0] == "x" and it[2][0][1][:1].isspace():
                        return False        # the blank after the URL is the separator, a second one is not generated
                    if any(x[0] == "H" and len(x) > 5 and "\n" in x[5] for x in it[2]):
                        return False        # a bracketed external link is written on one line
            elif k in ("B", "I"):
                if not it[1] or not _valid_content(it[1], in_call, top):
                    return False
            elif k == "H":
                if it[3] is not None:
                    if not _valid_content(it[3], in_call, top):
                        return False
                    if any(c[0] == "H" and not nesting_ok(it[1].lower(), c[1].lower()) for c in it[3]):
                        return False
        prev = it
    return True


def valid(sp):
    if sp["kind"] != "table":
        its = sp["items"]
        if not its or (its[0][0] == "x" and (its[0][1][:1].isspace() or its[0][1][:1] in "-*#:;={|!")):
            return False        # a first line starting with a blank / list marker / rule is a block construct
        return _valid_content(its, False, True)
    if sp["cap"] is not None and not _valid_content(sp["cap"], False, True):
        return False
    for r in sp["rows"]:
        for c in r["cells"]:
            if not _valid_content(c["content"], False, True):
                return False
            if c["content"] and c["content"][0][0] == "x" and c["content"][0][1][:1] in "-+}*#:;!|":
                return False
            if not c["content"] and c["attr"] and c["pad"] != " ":
                return False
    return True


def _haz_attrs(at, h, where):
    for a in at:
        if a[2] == "'" and a[1] == "" and where != "tag":
            h.add("attr-empty-single-quoted")
        if any(not (ch.isascii() and (ch.isalnum() or ch in "-:")) for ch in a[0]):
            h.add("attr-name-charset")


def _haz_content(items, h, inarg=False):
    for it in items:
        k = it[0]
        if k == "x":
            if "!!" in it[1] or "\n!" in it[1]:
                h.add("header-token-in-argument")
            if "\n----" in it[1]:
                h.add("rule-line-in-argument")
        elif k == "T":
            for a in it[2]:
                _haz_content(a[2] if a[0] == "n" else a[1], h, True)
        elif k == "P":
            for a in it[2]:
                _haz_content(a, h, True)
        elif k in ("A", "L"):
            for a in it[1]:
                _haz_content(a, h, True)
        elif k == "U":
            if it[1][-1:] in ".,!?":
                h.add("url-ends-in-punct")
            if not it[1].startswith(("http://", "https://", "//")):
                h.add("url-scheme")
            if it[2] is not None:
                if any(x[0] == "H" for x in it[2]):
                    h.add("html-in-extlink-label")
                _haz_content(it[2], h, inarg)
        elif k in ("B", "I"):
            _haz_content(it[1], h, inarg)
        elif k == "H":
            _haz_attrs(it[2], h, "tag")
            if len(it) > 5 and it[5] != " " and it[2]:
                h.add("tag-white-space")
            _haz_content(it[3] or [], h, inarg)


def hazards(sp):
    """input classes that are known to be delicate (each is generated at a low rate and tagged): the
    minimiser may remove them from a witness but never introduce one the witness did not have, so a
    disagreement is never 'simplified' into a different, already known one"""
    h = set()
    if sp["kind"] != "table":
        _haz_content(sp["items"], h)
        return h
    _haz_attrs(sp["tattr"], h, "table")
    _haz_attrs(sp.get("capattr") or [], h, "table")
    if sp["cap"]:
        _haz_content(sp["cap"], h)
    for r in sp["rows"]:
        _haz_attrs(r["attr"], h, "table")
        for c in r["cells"]:
            _haz_attrs(c["attr"], h, "table")
            if not c["content"]:
                h.add("empty-cell")
            _haz_content(c["content"], h)
    return h


def minimise(run, sp, rule, budget=900):
    """greedy descent over the spec: take the first alternative that is inside the generator's domain, has
    no delicate input class the original lacks, and still disagrees with its own expected structure"""
    # every alternative is a step towards a canonical form (drop / replace by the canonical atom / move to
    # the canonical place), no alternative undoes another one, so the descent terminates; the budget is a
    # safety net
    used = 0
    cur = sp
    haz = hazards(sp)
    progress = True
    while progress and used < budget:
        progress = False
        gen = shrink_table(cur) if cur["kind"] == "table" else shrink_inline(cur)
        for cand in gen:
            if used >= budget:
                break
            if not valid(cand) or not hazards(cand) <= haz:
                continue
            used += 1
            d = run.check(cand, count=False)
            if d is not None:
                cur, rule = cand, d[0]
                progress = True
                break
    return cur, rule, used


# ---------------------------------------------------------------- feature tags of a (minimal) witness

def text_class(s):
    t = set()
    if s == "":
        return {"empty"}
    if "=" in s:
        t.add("has=")
    if "!!" in s:
        t.add("has!!")
    elif "\n!" in s:
        t.add("line-start!")
    elif "!" in s:
        t.add("has!")
    if "\n----" in s:
        t.add("rule-line")
        s = s.replace("\n----\n", " ")
    if ":" in s:
        t.add("has:")
    if s != s.strip():
        t.add("blank-padded")
    if "\n" in s:
        t.add("newline")
    if s.strip().isdigit():
        t.add("digits")
    rest = [ch for ch in s if not (ch.isalnum() and ch.isascii()) and ch not in "=!: \n"]
    if rest:
        t.add("chars:" + "".join(sorted(set("U" if not ch.isascii() else ch for ch in rest))))
    return t


def attr_tags(at, where):
    t = set()
    if not at:
        return t
    t.add(where)
    for a in at:
        q = a[2]
        if q != '"':
            t.add(where + ".q=" + ("sq" if q == "'" else "bare"))
        if (a[3] if len(a) > 3 else "=") != "=":
            t.add(where + ".eq-blanks")
        if a[1] == "":
            t.add(where + ".empty-value")
        elif a[1] != "v":
            x = "".join(sorted(set(ch for ch in a[1] if not ch.isalnum())))
            t.add(where + ".value" + (":" + x if x else ""))
        if a[0] != "class":
            odd = any(not (ch.isascii() and (ch.isalnum() or ch in "-:")) for ch in a[0])
            t.add(where + (".name-outside[-a-zA-Z0-9:]" if odd else ".name"))
    if len(at) > 1:
        t.add(where + ".n=%d" % len(at))
    return t


def content_tags(items, prefix=""):
    t = set()
    for it in items:
        k = it[0]
        if k == "x":
            if it[1] != "x":
                t |= {prefix + "text." + c for c in text_class(it[1])}
        elif k == "T":
            t.add(prefix + "T")
            if it[1] != [["x", "zq0"]]:
                t |= {prefix + "T.name." + c for c in text_class(M.r_content(it[1]))} or {prefix + "T.name"}
            for a in it[2]:
                if a[0] == "n":
                    t.add(prefix + "T.named-arg")
                    if a[1] != "k":
                        t |= {prefix + "T.key." + c for c in text_class(a[1])}
                c = a[2] if a[0] == "n" else a[1]
                if not c:
                    t.add(prefix + "T.empty-arg")
                t |= content_tags(c, prefix + "T>")
        elif k == "P":
            t.add(prefix + "P")
            if it[1] != "lc":
                t.add(prefix + "P.name:" + it[1])
            for a in it[2]:
                if not a:
                    t.add(prefix + "P.empty-arg")
                t |= content_tags(a, prefix + "P>")
        elif k in ("A", "L"):
            t.add(prefix + k)
            if len(it[1]) > 1:
                t.add(prefix + k + ".piped")
            for i, a in enumerate(it[1]):
                if not a:
                    t.add(prefix + k + ".empty-arg")
                t |= content_tags(a, prefix + k + (".target>" if i == 0 and k == "L" else ">"))
        elif k == "U":
            t.add(prefix + "U")
            u = it[1]
            if u != "http://a.org/b":
                if u[-1:] in ".,!?":
                    t.add(prefix + "U.url-ends-in-punct")
                elif u.startswith("//"):
                    t.add(prefix + "U.protocol-relative")
                elif not u.startswith(("http://", "https://")):
                    t.add(prefix + "U.scheme-not-http(s)")
                else:
                    t.add(prefix + "U.url-other")
            if it[2] is None:
                t.add(prefix + "U.no-text")
            else:
                t |= content_tags(it[2], prefix + "U>")
        elif k in ("B", "I"):
            t.add(prefix + k)
            t |= content_tags(it[1], prefix + k + ">")
        elif k == "H":
            tag = it[1]
            name = "H" if tag.lower() == "span" else "H:" + tag.lower()
            t.add(prefix + name)
            if tag != tag.lower():
                t.add(prefix + "H.tag-uppercase")
            if len(it) > 5 and it[5] != " ":
                t.add(prefix + "H.attr-sep=" + {"\n": "newline", "\t": "tab"}.get(it[5], "blanks+newline" if "\n" in it[5] else "blanks"))
            if len(it) > 4 and it[4]:
                t.add(prefix + ("H.blank-in-end-tag" if it[3] is not None else "H.void-slash"))
            if it[3] is None:
                t.add(prefix + "H.void")
            t |= {prefix + x for x in attr_tags(it[2], "H.attrs")}
            t |= content_tags(it[3] or [], prefix + name + ">")
    return t


def table_tags(sp):
    t = set()
    rows = sp["rows"]
    t.add("grid=%dx%d" % (len(rows), len(rows[0]["cells"])))
    t |= attr_tags(sp["tattr"], "table-attrs")
    if sp["cap"] is not None:
        t.add("caption")
        t |= attr_tags(sp.get("capattr") or [], "caption-attrs")
        t |= content_tags(sp["cap"], "caption>")
    if not sp.get("marker", True) and not rows[0]["attr"]:
        t.add("no-first-row-marker")
    if sp.get("indent"):
        t.add("indent")
    if sp.get("pre"):
        t.add("text-before")
    if sp.get("post", "").strip():
        t.add("text-after")
    for r in rows:
        t |= attr_tags(r["attr"], "row-attrs")
        for j, c in enumerate(r["cells"]):
            pos = "cell0" if j == 0 else "cellN"
            if not c["nl"] and j > 0:
                t.add("sep=" + c["sep"] + ("(hdr)" if c["h"] else ""))
            if c["h"]:
                t.add(pos + ".hdr")
            if c["pad"] and not (not c["content"] and c["attr"]):
                t.add(pos + ".pad")
            t |= attr_tags(c["attr"], pos + ".attrs")
            if not c["content"]:
                t.add(pos + ">empty")
            t |= content_tags(c["content"], pos + ">")
    if len(rows[0]["cells"]) > 1 and all(c["nl"] for r in rows for c in r["cells"]):
        t.add("one-cell-per-line")
    return t


def signature(sp, rule):
    fam = sp["kind"]
    tags = table_tags(sp) if fam == "table" else content_tags(sp["items"])
    return "%s:%s/%s" % (fam, rule, "+".join(sorted(tags)))


# ---------------------------------------------------------------- evaluation of one case

def classes(obs, items, where, inarg=False):
    """input classes written inside content (recursively): where = "cell" | "top" """
    for it in items:
        k = it[0]
        if k == "x":
            if inarg:
                s = it[1]
                if "!!" in s:
                    obs.count("cls.%s.call-arg-has-!!" % where)
                if "\n!" in s:
                    obs.count("cls.%s.call-arg-line-start-!" % where)
                if "\n----" in s:
                    obs.count("cls.%s.call-arg-rule-line" % where)
        elif k == "T":
            classes(obs, it[1], where, inarg)
            for a in it[2]:
                classes(obs, a[2] if a[0] == "n" else a[1], where, True)
        elif k == "P":
            obs.count("cls.%s.parser-function-call" % where)
            obs.add("parser_functions", it[1])
            for a in it[2]:
                classes(obs, a, where, True)
        elif k in ("A", "L"):
            if k == "A":
                obs.count("cls.%s.template-argument-ref" % where)
            for i, a in enumerate(it[1]):
                classes(obs, a, where, True)
        elif k == "U":
            obs.add("url_schemes", it[1].split("//")[0] + "//" if "//" in it[1] else it[1].split(":")[0] + ":")
            if it[2] is not None:
                if any(x[0] == "H" for x in it[2]):
                    obs.count("cls.extlink-label-with-html")
                if any(x[0] == "T" for x in it[2]):
                    obs.count("cls.extlink-label-with-template")
                classes(obs, it[2], where, inarg)
        elif k in ("B", "I"):
            classes(obs, it[1], where, inarg)
        elif k == "H":
            if len(it) > 5 and it[5] != " " and it[2]:
                obs.count("cls.tag-attr-sep." + ("newline" if "\n" in it[5] else "tab" if "\t" in it[5] else "blanks"))
            classes(obs, it[3] or [], where, inarg)


def sq_empty(obs, at, where):
    for a in at:
        if a[2] == "'" and a[1] == "":
            obs.count("cls.attr-empty-single-quoted." + where)


def features(obs, sp):
    """workload counters: what was written"""
    if sp["kind"] == "table":
        rows = sp["rows"]
        obs.count("gen.table")
        sq_empty(obs, sp["tattr"], "table")
        sq_empty(obs, sp.get("capattr") or [], "caption")
        if sp["cap"]:
            classes(obs, sp["cap"], "cell")
        for r in rows:
            sq_empty(obs, r["attr"], "row")
            for c in r["cells"]:
                sq_empty(obs, c["attr"], "cell")
                classes(obs, c["content"], "cell")
        obs.add("shapes", "%dx%d" % (len(rows), len(rows[0]["cells"])))
        lay = set()
        for r in rows:
            cs = r["cells"]
            if len(cs) > 1:
                k = sum(1 for c in cs[1:] if not c["nl"])
                lay.add("line" if k == 0 else ("dbl" if k == len(cs) - 1 else "mixed"))
        if not lay:
            lay = {"line", "dbl"}      # single-column tables are the same text in both layouts
        for l in lay:
            obs.count("table.layout." + l)
        kinds = {("hdr" if c["h"] else "data") for r in rows for c in r["cells"]}
        pos = {"none"} if not (sp["tattr"] or any(r["attr"] for r in rows) or any(c["attr"] for r in rows for c in r["cells"])) else set()
        if sp["tattr"]:
            pos.add("table")
        if any(r["attr"] for r in rows):
            pos.add("row")
        if any(c["attr"] for r in rows for c in r["cells"]):
            pos.add("cell")
        for l in lay & {"line", "dbl"}:
            for p in pos:
                for k in kinds:
                    obs.add("matrix", "%s/%s/%s" % (l, p, k))
        if sp["cap"] is not None:
            obs.count("table.caption")
            if sp.get("capattr"):
                obs.count("table.caption-attrs")
        if not sp.get("marker", True):
            obs.count("table.no-first-marker")
        for r in rows:
            for j, c in enumerate(r["cells"]):
                obs.add("cell_classes", c.get("cls", "?"))
                if c["h"] and not c["nl"] and j > 0:
                    obs.count("table.hdr-sep=" + c["sep"])
                for a in c["attr"]:
                    obs.add("quote_styles", a[2] or "bare")
        obs.maxi("max_cells", len(rows) * len(rows[0]["cells"]))
        return len(rows) * len(rows[0]["cells"]) >= 2 or bool(pos - {"none"})
    f = sp.get("focus", "inline")
    obs.count("gen." + f)
    classes(obs, sp["items"], "top")
    nt = f in ("parserfn", "targ")
    if f == "html":
        obs.add("html_tags_nested" if sp.get("parent") else "html_tags_top", sp["tag"])
        obs.add("html_nattrs", sp["nattrs"])
        obs.add("html_content_classes", sp.get("cc"))
        if sp.get("parent"):
            obs.add("html_parents", sp["parent"])
        nt = bool(sp["nattrs"] or sp.get("parent") or sp.get("cc") not in ("text", "empty"))
    for it in sp["items"]:
        if it[0] == "T" and f == "template":
            obs.add("template_nargs", len(it[2]))
            obs.maxi("max_template_args", len(it[2]))
            nt = nt or len(it[2]) >= 1
            for a in it[2]:
                obs.count("template.arg." + ("named" if a[0] == "n" else "positional"))
                if not (a[2] if a[0] == "n" else a[1]):
                    obs.count("template.arg.empty")
        if it[0] == "L" and f == "link":
            obs.add("link_nargs", len(it[1]) - 1)
            nt = nt or len(it[1]) >= 2
        if it[0] == "U":
            obs.count("extlink." + ("no-text" if it[2] is None else "text"))
            if it[1][-1:] in ".,!?":
                obs.count("extlink.url-ends-in-punct")
            nt = nt or it[2] is not None
        if it[0] == "H":
            for a in it[2]:
                obs.add("quote_styles", a[2] or "bare")
    return nt


def evaluate(run, obs, sp, gen):
    nt = features(obs, sp)
    obs.count("sweep." + gen)
    d = run.check(sp)
    src = M.render(sp)
    obs.case(src, nontrivial=nt, sample={"gen": gen, "src": src[:300]})
    if d is None:
        return None
    rule = d[0]
    small, rule, used = minimise(run, sp, rule)
    obs.count("minimiser.parses", used)
    obs.count("disagreements")
    d2 = run.check(small, count=False)
    if d2 is None or d2[0] != rule:        # cannot happen (descent keeps the rule); fall back to the original
        small, d2 = sp, d
    sig = signature(small, rule)
    msg = "%s at %s: expected %s got %s | minimal source %r" % (
        rule, d2[1], json.dumps(d2[2], ensure_ascii=False)[:200], json.dumps(d2[3], ensure_ascii=False, default=str)[:200], d2[4][:300])
    obs.violation(sig, msg, {"spec": small, "rule": rule, "src": d2[4]})
    return sig


# ---------------------------------------------------------------- workload

def sweep_cases(tier, seed):
    """deterministic enumeration: yields (index, gen-name, builder(rng) -> spec)"""
    idx = 0
    D = 3 if tier == "quick" else 4
    K = 4 if tier == "quick" else 60
    for r in range(1, D + 1):
        for c in range(1, D + 1):
            for style in ("line", "dbl"):
                for cap in (False, True):
                    for k in range(K):
                        yield idx, "S1", (lambda rng, r=r, c=c, style=style, cap=cap: G.table(rng, r=r, c=c, style=style, cap=cap))
                        idx += 1
    reps = 1 if tier == "quick" else 4
    for a in G.CELL_CLASSES:
        for b in G.CELL_CLASSES:
            for lay in ("line-d", "line-h", "dbl-d", "dbl-h!!", "dbl-h||"):
                for at in (0, 1):
                    for _ in range(reps):
                        yield idx, "S2", (lambda rng, a=a, b=b, lay=lay, at=at: pair_case(rng, a, b, lay, at))
                        idx += 1
    ccs = ["text", "ww", "T", "L", "B", "nested", "empty"]
    for tag in G.paired_tags():
        places = [None] + sorted(set(G.parents_of(tag)))
        for na in range(4):
            for q in ((None,) if na == 0 else ('"', "'", "")):
                for cc in ccs:
                    for par in places:
                        for _ in range(reps):
                            yield idx, "S3", (lambda rng, tag=tag, na=na, q=q, cc=cc, par=par: G.html_case(rng, tag, na, quote=q, content_cls=cc, parent=par))
                            idx += 1
    for focus, seq in G.call_sweep(3 if tier == "quick" else 5):
        yield idx, "S4", (lambda rng, focus=focus, seq=seq: G.call_from_seq(rng, focus, seq))
        idx += 1
    # S5: every declared external-link protocol x {bare, label, label with markup} x {top level, table cell}
    for sch in G.url_starts():
        for lab in ("none", "text", "rich"):
            for place in ("top", "cell"):
                for _ in range(reps):
                    yield idx, "S5", (lambda rng, sch=sch, lab=lab, place=place: scheme_case(rng, sch, lab, place))
                    idx += 1
    # S6: every paired tag x white space written between tag name / attributes (newline, tab)
    for tag in G.paired_tags():
        for na in (1, 2, 3):
            for q in ('"', "'", ""):
                for ws in ("\n", "\t"):
                    for _ in range(reps):
                        yield idx, "S6", (lambda rng, tag=tag, na=na, q=q, ws=ws: ws_case(rng, tag, na, q, ws))
                        idx += 1


def scheme_case(rng, sch, lab, place):
    it = G.extlink(rng, 1, scheme=sch)
    if lab == "none":
        it[2] = None
    elif lab == "text":
        it[2] = [["x", G.word(rng) + " " + G.word(rng)]]
    else:
        mid = G.item(rng, 0, allow=("I", "B", "H", "T"))
        if mid[0] == "H" and len(mid) > 5 and "\n" in mid[5]:
            mid[5] = "\t"
        it[2] = [["x", G.word(rng) + " "], mid, ["x", " " + G.word(rng)]]
    if place == "top":
        return {"kind": "inline", "focus": "extlink", "items": [["x", G.word(rng) + " "], it, ["x", " " + G.word(rng)]]}
    sp = pair_case(rng, "text", "text", rng.choice(["line-d", "dbl-d", "dbl-h!!"]), 0)
    sp["rows"][0]["cells"][rng.randrange(3)]["content"] = [it]
    del sp["pair"]
    return sp


def ws_case(rng, tag, na, q, ws):
    sp = G.html_case(rng, tag, na, quote=q, content_cls="text")
    for it in sp["items"]:
        if it[0] == "H":
            while len(it) < 5:
                it.append("")
            it[5:] = [ws]
    return sp


def pair_case(rng, a, b, lay, at):
    h = lay.split("-")[1].startswith("h")
    c1 = G.cell(rng, h, cls=a, pattr=0)
    c2 = G.cell(rng, h, cls=b, pattr=0)
    c3 = G.cell(rng, h, cls="text", pattr=0)
    if at:
        c1["attr"] = G.attrs(rng, 1)
        if not c1["content"]:
            c1["pad"] = " "
    elif not c1["content"]:
        c1["pad"] = ""          # the empty cell directly followed by the separator: !!! / ||| runs
    cells = [c1, c2, c3]
    if lay.startswith("dbl"):
        for c in cells[1:]:
            c["nl"] = False
            c["sep"] = "!!" if lay.endswith("!!") else "||"
    sp = {"kind": "table", "style": lay[:3], "tattr": [], "cap": None, "capattr": [], "marker": True, "indent": "",
          "rows": [{"attr": [], "cells": cells}], "pre": "", "post": "\n", "pair": a + "," + b}
    return sp


def random_case(rng, tier):
    r = rng.random()
    if r < 0.5:
        return "R.table", G.table(rng, maxdim=3 if tier == "quick" and rng.random() < 0.8 else 4)
    if r < 0.68:
        tags = G.paired_tags()
        tag = rng.choice(tags)
        par = rng.choice([None] + G.parents_of(tag))
        return "R.html", G.html_case(rng, tag, rng.randint(0, 3), parent=par, odd=rng.random() < 0.04)
    if r < 0.77:
        return "R.template", G.call_case(rng, "template", depth=rng.randint(0, 2))
    if r < 0.8:
        return "R.parserfn", G.call_case(rng, rng.choice(["parserfn", "parserfn", "targ"]), depth=rng.randint(0, 2))
    if r < 0.9:
        return "R.link", G.call_case(rng, "link", depth=rng.randint(0, 2))
    return "R.extlink", G.call_case(rng, "extlink", punct=rng.random() < 0.06)


def run_shard(spec):
    obs = Obs()
    run = Runner(obs)
    tier, seed, idx, nsh = spec["tier"], spec["seed"], spec["idx"], spec["nsh"]
    for i, gen, build in sweep_cases(tier, seed):
        if i % nsh != idx:
            continue
        rng = random.Random("%d:%s:%d" % (seed, gen, i))
        sp = build(rng)
        if sp.get("pair"):
            obs.add("pair_classes", sp["pair"])
        evaluate(run, obs, sp, gen)
    rng = random.Random("%d:R:%d" % (seed, idx))
    for _ in range(spec["n"]):
        gen, sp = random_case(rng, tier)
        evaluate(run, obs, sp, gen)
    run.close()
    obs.anchors.update(anchors.snapshot())
    return obs


def replay(case):
    run = Runner(None)
    sp = case["spec"]
    d = run.check(sp, count=False)
    run.close()
    out = {"source": M.render(sp), "expected": M.expected(sp), "violations": []}
    if d is not None:
        out["violations"].append((signature(sp, d[0]), "%s at %s: expected %r got %r" % (d[0], d[1], d[2], d[3])))
    return out
