"""C14 -- all three views of a template call's arguments agree.

For one argument list ARGS the monitor obtains, from the real code,

  P  parse("{{t|ARGS}}")            -> TemplateNode.template_parameters
  E  expand("{{t|ARGS}}", template_fn=recorder) -> the dict handed to template_fn
  L  expand("{{#invoke:echo|f|ARGS}}")          -> what pairs(frame.args) shows a Lua module (hex-encoded echo)

and compares each with the rule of the statement (vf.ref.c14_argviews.rule: named = split at the first '=',
name and value trimmed, positive numeric name -> int key; positional = numbered 1.. over positionals only,
value verbatim).  Where the statement is silent (non-ASCII blanks / digits) either reading is accepted but the
three views must still coincide; likewise an argument 'x=v' whose x is empty or contains ] [ & < > " ' may be read
as named or as positional, but by all three views alike (Monitor.assess).  Every deviating view is delta-minimised separately (drop arguments, then
reduce every pad / name / value to a canonical representative) and the signature is built from the minimal
canonical witness: <views>:<what differs>/[argument kinds + the features that could not be removed]/<witness>=><view>.
"""
from __future__ import annotations

import random

from vf.core.obs import Obs, cpu_guard, CpuBudget, exc_sig
from vf.core import anchors
from vf.ref import c14_argviews as R

LEVEL = "exploration"
RULE = ("argument lists for {{t|ARGS}} / {{#invoke:echo|f|ARGS}}: E1 every admissible list over the 13-atom alphabet "
        "(positional a,' b ','\\nc','d\\ne'; named k=v,' m = w ','n=\\nz','p =q=r'; numeric 1=,2=,01=,0=,7=) up to length 2 "
        "(quick) / 3 (thorough); E2 every combination of 5 blank classes in every pad slot of one positional / named / "
        "numeric-named argument, alone and before/after a companion of another kind; R seeded random lists of length 1..6 "
        "(blanks, tabs, newlines, rare CR/NBSP/U+3000 around names and values, inner newlines, '=' in values, hostile plain "
        "names: apostrophe, ampersand, double quote, a lone < > [ ], no name at all ('=v'), blank runs, signs, decimals, 0/00, "
        "non-ASCII letters and digits, numeric names with leading zeros, >1000, around 2**53, 20 digits). Lists violating the precondition (distinct effective names, "
        "non-blank values, plain text, no positional ending in a newline) are not generated. distinct = distinct ARGS "
        "string; non-trivial = >=2 argument kinds in the list, or any pad / newline / '=' in value / non-simple name")
ASSUMPTIONS = [
    "Lua: ustring/libraryUtil stand-in pages are installed (Scribunto submodule absent); the echo module is a stand-in "
    "page Module:echo that hex-encodes type and text of every key and value it sees via pairs(frame.args)",
    "'trimmed' and 'numeric name' are not defined by the statement outside ASCII: for NBSP / U+3000 padding and non-ASCII "
    "decimal digits either reading (ASCII-only or Unicode) is accepted, but the three views must coincide",
    "positional values that END in a newline are outside the quantifier (leading / inner newlines only) and are not generated",
    "the statement does not say what a name may consist of: for an argument 'x=v' whose x is empty or contains one of "
    "] [ & < > \" ' both 'named x' and 'positional x=v' are accepted readings, but the three views must give the same map; "
    "when they do not, the views that differ from the plain reading (split at the first '=') are named as deviating",
    "a lone [ ] < > is plain text; lists with two characters of one family (which could pair up to a link / tag) are not generated",
    "not generated: a name made only of non-ASCII blanks (a name in one reading of 'trimmed', none in the other); an 'either way' "
    "argument that ends in a newline (as a positional it would end in a newline, which is outside the quantifier)",
    "Lua 5.1 numbers are doubles: for a numeric name above 2**53 the Lua view is accepted when its key is the double nearest to the name",
    "per-call CPU budget 20 s (ITIMER_VIRTUAL) stands for 'returns'",
]
WALL = {"quick": 600, "thorough": 3000}
VIEWS = ("parser", "expander", "lua")

ECHO = r'''
local e = {}
local function hex(s)
  return (s:gsub(".", function(c) return string.format("%02x", string.byte(c)) end))
end
local function show(x)
  -- strings and numbers in full (integers exactly, Lua 5.1 tostring() rounds to 14 digits); of anything else only the type
  if type(x) == "string" then return "string:" .. hex(x) end
  if type(x) == "number" then
    if x == math.floor(x) and x > -1e300 and x < 1e300 then return "number:" .. hex(string.format("%.0f", x)) end
    return "number:" .. hex(tostring(x))
  end
  return type(x) .. ":"
end
function e.f(frame)
  local out = {}
  for k, v in pairs(frame.args) do
    out[#out + 1] = show(k) .. "=" .. show(v) .. "=" .. show(frame.args[k])
  end
  return "[" .. table.concat(out, ";") .. "]"
end
return e
'''

import os

# spelling of the call around the argument list: (template open, close, invoke open, close, text before, text after)
STYLES = [("{{t|", "}}", "{{#invoke:echo|f|", "}}", "", ""),
          ("{{t\n|", "}}", "{{#invoke:echo|f\n|", "}}", "", ""),
          ("{{ t |", "}}", "{{#invoke: echo | f |", "}}", "", ""),
          ("{{t|", "}}", "{{#invoke:echo|f|", "}}", "x ", " y")]
STYLE_NAME = ["plain", "name-then-newline", "padded-name", "text-around-call"]

PER = {"quick": 1100, "thorough": 14000}      # random lists per shard
if os.environ.get("VERIF_C14_N"):               # development knob: smaller / larger random part (floors follow)
    PER = {k: int(os.environ["VERIF_C14_N"]) for k in PER}
EXH_LEN = {"quick": 2, "thorough": 3}


def shards(tier, seed):
    n = 16
    return [{"seed": seed * 1000 + i, "n": PER[tier], "idx": i, "nsh": n, "tier": tier} for i in range(n)]


_EXP = {}


def expected_exhaustive(tier):
    if tier not in _EXP:
        from vf.gen import c14_args as G
        _EXP[tier] = G.n_exhaustive(EXH_LEN[tier])
    return _EXP[tier]


def floors(tier):
    e1, e2 = expected_exhaustive(tier)
    n = 16 * PER[tier]
    return {"oracle.rule-vs-parser": n, "oracle.rule-vs-expander": n, "oracle.rule-vs-lua": n, "oracle.three-way": n,
            "counters.gen.E1": e1, "counters.gen.E2": e2, "counters.gen.R": n,
            "anchors.parser.TemplateNode.template_parameters": n, "anchors.core.expand_recurse": n,
            "anchors.luaexec.make_frame": n, "counters.template_fn.calls": n, "counters.lua.echo-decoded": n,
            "counters.feature.pos-after-num": 50, "counters.feature.all-three-kinds": 50,
            "counters.feature.pos.vl.nl": 50, "counters.feature.named.vl.nl": 50, "counters.feature.num.lead0": 50,
            "counters.feature.named.n.empty": 20, "counters.feature.named.n.amp": 20, "counters.feature.named.n.apos": 20,
            "counters.feature.named.n.dquote": 20, "counters.feature.named.n.lt": 5, "counters.feature.named.n.rbracket": 5,
            "counters.feature.named.n.ws-run": 20, "counters.feature.num.gt1000": 50, "counters.feature.num.gt2p53": 10,
            "counters.len.6": 50, "nontrivial": n // 2}


def exhaustive(tier, total):
    e1, e2 = expected_exhaustive(tier)
    c = total.get("counters", {})
    return c.get("gen.E1", 0) == e1 and c.get("gen.E2", 0) == e2 and not total.get("inconclusive")


# --------------------------------------------------------------------------------------------- the three views

def decode_echo(s):
    """'[number:31=string:61=string:61;...]' -> dict (typed keys). Each item: key=value seen by pairs()=value by index."""
    if not (s.startswith("[") and s.endswith("]")):
        raise ValueError("frame")
    d = {}
    if s == "[]":
        return d

    def one(x):
        t, h = x.split(":")
        txt = bytes.fromhex(h).decode("utf-8", "surrogateescape")
        if t == "string":
            return txt
        if t == "number":
            try:
                return int(txt)
            except ValueError:
                return float(txt)
        return ("<%s>" % t,)
    for it in s[1:-1].split(";"):
        k, v, w = (one(x) for x in it.split("="))
        if isinstance(k, tuple):
            k = "<key of type %s>" % k[0]
        if w != v or type(w) is not type(v):
            v = ("<pairs-vs-index>", repr((v, w)))
        if k in d:
            raise ValueError("duplicate key")
        d[k] = v
    return d


class Monitor:
    def __init__(self, obs):
        from vf.core.wtp import fresh
        import wikitextprocessor.parser as P
        import wikitextprocessor.core as C
        import wikitextprocessor.luaexec as LX
        self.obs = obs
        self.cm = fresh(lua=True, pages=[("Module:echo", 828, ECHO), ("Template:t", 10, "body")])
        self.ctx = self.cm.__enter__()
        self.TemplateNode = P.TemplateNode
        anchors.watch({"parser.TemplateNode.template_parameters": P.TemplateNode.template_parameters,
                       "core.expand_recurse": (C.Wtp.expand, "expand_recurse"),
                       "core.Wtp.expand": C.Wtp.expand, "core.Wtp.parse": C.Wtp.parse,
                       "luaexec.make_frame": (LX.call_lua_sandbox, "make_frame"),
                       "luaexec.call_lua_sandbox": LX.call_lua_sandbox})
        self.calls = {"parser": 0, "expander": 0, "lua": 0}
        self.memo = {}

    def close(self):
        self.cm.__exit__(None, None, None)

    # each view returns ("ok", canon) | ("raises", "ExcType", detail) | ("shape", tag, detail) | ("budget", ...)
    def view(self, which, args, style=0):
        # one case asks for the same (view, list) several times (one minimisation per deviating view)
        key = (which, style, tuple(args))
        if key not in self.memo:
            if len(self.memo) > 5000:
                self.memo.clear()
            self.memo[key] = self._view(which, args, style)
        return self.memo[key]

    def _view(self, which, args, style=0):
        self.calls[which] += 1
        body = "|".join(args)
        topen, tclose, iopen, iclose, pre, post = STYLES[style]
        ctx = self.ctx
        ctx.start_page("Pg")
        try:
            with cpu_guard(20):
                if which == "parser":
                    root = ctx.parse(pre + topen + body + tclose + post)
                    ch = [c for c in root.children if not isinstance(c, str)]
                    txt = "".join(c for c in root.children if isinstance(c, str))
                    if len(ch) != 1 or not isinstance(ch[0], self.TemplateNode) or txt != pre + post:
                        return ("shape", "not-one-template-node", str(root)[:200])
                    if ch[0].template_name != "t":
                        return ("shape", "template-name", repr(ch[0].template_name)[:100])
                    return ("ok", R.canon(ch[0].template_parameters))
                if which == "expander":
                    got = []

                    def rec(name, ht):
                        got.append((name, dict(ht)))
                        return ""
                    out = ctx.expand(pre + topen + body + tclose + post, template_fn=rec)
                    self.obs.count("template_fn.calls", len(got))
                    if len(got) != 1:
                        return ("shape", "template_fn-called-%s-times" % ("0" if not got else "n"), out[:200])
                    if got[0][0] != "t":
                        return ("shape", "template_fn-other-name", repr(got[0][0])[:100])
                    if out != pre + post:
                        return ("shape", "text-around-call-changed", out[:200])
                    return ("ok", R.canon(got[0][1]))
                out = ctx.expand(pre + iopen + body + iclose + post)
                try:
                    if not (out.startswith(pre) and out.endswith(post)):
                        raise ValueError("frame")
                    d = decode_echo(out[len(pre):len(out) - len(post)])
                except Exception:
                    return ("shape", "lua-error-text" if "error" in out.lower() else "echo-undecodable", out[:300])
                self.obs.count("lua.echo-decoded")
                # Lua 5.1 numbers are doubles: a numeric name above 2**53 can only arrive as the nearest double;
                # it is accepted for the name it is nearest to (see ASSUMPTIONS)
                big = {}
                for raw in args:
                    n = raw.split("=", 1)[0].strip() if "=" in raw else ""
                    if n.isdigit():
                        try:
                            if int(n) > 2 ** 53:
                                big[int(float(int(n)))] = int(n)
                        except (ValueError, OverflowError):
                            pass
                if big:
                    d = {(big.get(k, k) if isinstance(k, int) and not (big.get(k, k) in d and big.get(k, k) != k) else k): v
                         for k, v in d.items()}
                return ("ok", R.canon(d))
        except CpuBudget as e:
            return ("budget", "no-return-within-cpu-budget", str(e)[-300:])
        except Exception as e:
            return ("raises", type(e).__name__, exc_sig(e) + " " + repr(e)[:160])

    # ------------------------------------------------------------------ judging the views against the rule
    @staticmethod
    def _kind(res, maps):
        """what differs between one view and a family of accepted maps (None: nothing)."""
        if res[0] != "ok":
            return "%s:%s" % (res[0], res[1]) if res[0] != "budget" else res[1]
        kinds = [R.diff_kind(res[1], m) for m in maps]
        if None in kinds:
            return None
        return min(kinds, key=R.SEVERITY.index)

    def assess(self, args, style=0, only=None):
        """All three views of args against the accepted readings. Returns (results, {view: kind of deviation}, odd).

        Without 'either way' arguments (R.heuristic_args) every view must equal the rule (ASCII or Unicode reading of
        blanks/digits) -- and the same one: odd lists views that follow another accepted reading than the other two.
        With such arguments each view is first matched with the reading it is closest to; an 'either way' argument
        counts as positional only if ALL three views read it so, otherwise the plain reading (split at the first '=')
        is expected of everybody: a view is never blamed for following the plain reading.
        only=(view, kind): answer just 'does this view still deviate with this kind', evaluating the other views
        only when needed."""
        subs = R.candidate_subsets(args)
        plain = [R.canon(m) for m in R.family(args)]
        res = {}
        if only is not None:
            v, kind = only
            res[v] = self.view(v, args, style)
            k = self._kind(res[v], plain)
            if k is None:
                return False
            if len(subs) == 1 or res[v][0] != "ok":
                return k == kind
        for w in VIEWS:
            if w not in res:
                res[w] = self.view(w, args, style)
        common = ()
        if len(subs) > 1:
            fams = {sub: [R.canon(m) for m in R.family(args, sub)] for sub in subs}
            common = None
            for w in VIEWS:
                if res[w][0] != "ok":
                    continue
                best = min(subs, key=lambda sub: self._distance(res[w][1], fams[sub]) + (len(sub),))
                common = set(best) if common is None else common & set(best)
            common = tuple(sorted(common or ()))
        exp = plain if not common else [R.canon(m) for m in R.family(args, common)]
        dev = {}
        for w in VIEWS:
            k = self._kind(res[w], exp)
            if k is not None:
                dev[w] = k
        odd = []
        if not dev and not (res["parser"][1] == res["expander"][1] == res["lua"][1]):
            for w in VIEWS:
                if sum(res[x][1] == res[w][1] for x in VIEWS) == 1:
                    odd.append(w)
        if only is not None:
            return dev.get(only[0]) == only[1]
        return res, dev, odd

    @staticmethod
    def _distance(c, maps):
        """(severity of the difference, number of differing entries) to the closest map of a family."""
        out = []
        for m in maps:
            k = R.diff_kind(c, m)
            out.append((0 if k is None else 1 + R.SEVERITY.index(k), len(set(c) ^ set(m))))
        return min(out)

    def ambiguous(self, args):
        return R.rule(args, "A") != R.rule(args, "U")


# ------------------------------------------------------------------------------------------------ minimisation
# Every field of the surviving arguments is replaced by the first representative (in a fixed order) that
# keeps the deviation alive; the tag of that representative names the feature. A field that no
# representative can stand for stays raw (tag '...-raw') and the signature then carries no literal witness.

def _cands_pad(raw, side):
    out = [("", "")]
    if raw == "":
        return out
    out.append(("ws", " "))
    cl = R.ws_classes(raw)
    if "nl" in cl and len(cl) > 1:
        out.append(("blankline", " \n" if side == "lead" else "\n "))
        out.append(("nl-ws", "\n " if side == "lead" else " \n"))
    for c in cl:
        if c != "ws":
            out.append((c, R.WS_REP[c]))
    return out


INNER_WS = ("ws-run", "nl", "tab", "nl-nl", "nl-marker", "blankline", "uspace")
NAME_REP = {"apos": "k%d'x", "amp": "k%d&x", "dquote": 'k%d"x', "ws-run": "k%d  x", "nl": "k%d\nx", "tab": "k%d\tx",
            "sp": "k%d x", "nonascii": "é%d", "digit-lead": "%dk", "punct": "k%d.x",
            "nl-nl": "k%d\n\nx", "nl-marker": "k%d\n*x", "uspace": "k%d\xa0x", "blankline": "k%d\n \nx",
            "lbracket": "k%d[x", "rbracket": "k%d]x", "lt": "k%d<x", "gt": "k%d>x"}
VAL_REP = {"eq": "v%d=w", "apos": "v%d'w", "amp": "v%d&w", "dquote": 'v%d"w', "ws-run": "v%d  w", "nl": "v%d\nw",
           "tab": "v%d\tw", "sp": "v%d w", "nonascii": "é%d", "udigit": "v%d٣", "punct": "v%d.w", "nl-nl": "v%d\n\nw",
           "nl-marker": "v%d\n*w", "uspace": "v%d\xa0w", "blankline": "v%d\n \nw",
           "lbracket": "v%d[w", "rbracket": "v%d]w", "lt": "v%d<w", "gt": "v%d>w"}
UDIGIT_NAMES = [("udigit-int", "٣"), ("udigit-int", "１２"), ("udigit-nonint", "²"), ("udigit-nonint", "①")]


# characters that one implementation treats alike get ONE representative first (so that e.g. '[' ']' '&', all excluded
# by the same character class, give one signature); the character's own representative is tried after it
FAMILY = (({"amp", "lbracket", "rbracket"}, "amp"), ({"dquote", "lt", "gt"}, "dquote"))


def _cands_name(raw, i):
    out = [("", "k%d" % i)]
    if raw == "":
        out.append(("name-empty", ""))
    cl = R.text_classes(raw, True)
    if any(c in INNER_WS for c in cl):
        out.append(("name-inner-ws", "k%d  x" % i))
    for members, rep in FAMILY:
        if members & set(cl):
            out.append(("name-" + rep, NAME_REP[rep] % i))
    for c in cl:
        rep = NAME_REP.get(c)
        if rep:
            out.append(("name-" + c, rep % i))
    if any(ch.isdigit() and not ch.isascii() for ch in raw):
        for tag, rep in UDIGIT_NAMES:
            out.append(("name-" + tag, rep))
    if raw[:1] and raw[:1] in "-+0123456789":
        for rep, tag in (("0", "name-zero"), ("00", "name-zero"), ("-1", "name-signed"), ("1.5", "name-decimal")):
            out.append((tag, rep))
    return out


def _cands_val(raw, i):
    out = [("", "v%d" % i)]
    for c in R.text_classes(raw, False):
        rep = VAL_REP.get(c)
        if rep:
            out.append(("val-" + c, rep % i))
    return out


def _cands_num(raw):
    small = ("2", "3", "4", "5", "6", "7", "8", "9")
    out = [("", n) for n in small]
    if raw.isascii():
        if raw.startswith("0"):
            out += [("num-lead0", "0" + n) for n in small]
        try:
            v = int(raw)
        except ValueError:
            v = 0
        if v > 1000:
            out += [("num-gt1000", "1001"), ("num-gt1000", "1002"), ("num-gt1000", "1003")]
        if v > 2 ** 53:
            out += [("num-gt2p53", "9007199254740993"), ("num-gt2p53", "99999999999999999999")]
        if v >= 1000:
            out += [("num-ge1000", "1000")]
        out.append(("num-one", "1"))
    else:
        out += [("num-udigit", "٣"), ("num-udigit", "１２")]
    return out


def minimise(args, pred, budget=200):
    """Greedy delta-minimisation. pred(list) -> bool ('still the same deviation'); only admissible lists are tried.
    Returns (args, tag per argument, fully_canonical)."""
    left = [budget]

    def ok(c):
        if left[0] <= 0 or not R.admissible(c):
            return False
        left[0] -= 1
        return pred(c)

    def drop(a):
        changed = True
        while changed and len(a) > 1:
            changed = False
            for i in range(len(a)):
                c = a[:i] + a[i + 1:]
                if ok(c):
                    a = c
                    changed = True
                    break
        return a

    args = drop(list(args))
    S = [R.destructure(a) for a in args]
    tags = [dict() for _ in S]

    def rendered():
        return [R.render(s) for s in S]

    def attempt(i, fld, cands):
        for tag, val in cands:
            if S[i][fld] == val:
                tags[i][fld] = tag
                return
            old = S[i][fld]
            S[i][fld] = val
            if R.destructure(R.render(S[i]))["kind"] == S[i]["kind"] and ok(rendered()):
                tags[i][fld] = tag
                return
            S[i][fld] = old
        tags[i][fld] = "raw"

    def simpler_kind(i):
        """num -> named -> pos when the name does not matter."""
        s = S[i]
        if s["kind"] == "pos":
            return
        if "=" not in s["v"]:
            c = {"kind": "pos", "vl": s["vl"], "v": s["v"], "vr": s["vr"]}
            S[i] = c
            if R.destructure(R.render(c))["kind"] == "pos" and ok(rendered()):
                return
            S[i] = s
        if s["kind"] == "num":
            c = dict(s, kind="named", n="k%d" % (i + 1))
            S[i] = c
            if ok(rendered()):
                return
            S[i] = s

    def whole(i):
        # a feature that may sit in a pad, in the name or inside the text gets ONE canonical place (inside a
        # positional value) when that is enough
        if "blankline" in R.text_classes(R.render(S[i]), False):
            old = S[i]
            S[i] = {"kind": "pos", "vl": "", "v": VAL_REP["blankline"] % (i + 1), "vr": ""}
            if old == S[i] or not ok(rendered()):
                S[i] = old
            else:
                tags[i].clear()
                tags[i]["v"] = "val-blankline"
                return True
        return False

    for i in range(len(S)):
        if whole(i):
            continue
        attempt(i, "vl", _cands_pad(S[i]["vl"], "lead"))
        attempt(i, "vr", _cands_pad(S[i]["vr"], "trail"))
        attempt(i, "v", _cands_val(S[i]["v"], i + 1))
        simpler_kind(i)
        if whole(i):
            continue
        if S[i]["kind"] != "pos":
            attempt(i, "nl", _cands_pad(S[i]["nl"], "lead"))
            attempt(i, "nr", _cands_pad(S[i]["nr"], "trail"))
            if S[i]["kind"] == "named":
                attempt(i, "n", _cands_name(S[i]["n"], i + 1))
            else:
                attempt(i, "n", _cands_num(S[i]["n"]))
    out = rendered()
    out2 = drop(out)
    if len(out2) != len(out):
        keep = []
        j = 0
        for i, a in enumerate(out):
            if j < len(out2) and out2[j] == a:
                keep.append(i)
                j += 1
        S = [S[i] for i in keep]
        tags = [tags[i] for i in keep]
        out = out2
    canonical = all(t != "raw" for tg in tags for t in tg.values())
    return out, [_argtag(S[i], tags[i]) for i in range(len(S))], canonical


_FLD = {"vl": "lead", "vr": "trail", "nl": "name-lead", "nr": "name-trail"}


def _argtag(s, t):
    kind = s["kind"]
    parts = [kind]
    for fld in ("nl", "nr", "vl", "vr"):
        if fld in s and t.get(fld):
            pre = _FLD[fld] if kind == "pos" or fld in ("nl", "nr") else "val-" + _FLD[fld]
            parts.append("%s-%s" % (pre, t[fld]))
    if kind != "pos" and t.get("n"):
        parts.append(t["n"] if t["n"] != "raw" else "name-raw")
    if t.get("v"):
        parts.append(t["v"] if t["v"] != "raw" else "val-raw")
    return "+".join(parts)


def esc(s):
    return (s.replace("\\", "\\\\").replace("\n", "\\n").replace("\t", "\\t").replace("\r", "\\r").replace("\f", "\\f")
            .replace("\v", "\\v").replace("\xa0", "\\xa0").replace("　", "\\u3000"))


def _lit(res):
    return R.show(res[1]) if res[0] == "ok" else res[0]


def signature(mon, view, kind, args, style=0):
    """Minimise the deviation (view, kind) of args, then describe the minimal witness: the signature is a function
    of the witness alone (all three views are evaluated on it). Returns (sig, witness, style, {view: result})."""
    def pred(c):
        return mon.assess(c, style, only=(view, kind))
    m, tags, canonical = minimise(args, pred)
    if not mon.assess(m, style, only=(view, kind)):   # budget ran out in the middle of a step: fall back to the input
        m, tags, canonical = list(args), ["unminimised"], False
    if style and mon.assess(m, 0, only=(view, kind)):
        style = 0                                        # the spelling of the call does not matter
    res, dev, _odd = mon.assess(m, style)
    dv = [v for v in VIEWS if v in dev]
    if len({dev[v] for v in dv}) == 1:
        head = "+".join(dv) + ":" + dev[dv[0]]
    else:
        head = "+".join("%s:%s" % (v, dev[v]) for v in dv)
    sig = head + "/[" + ",".join(tags) + "]"
    if style:
        sig += "@call-" + STYLE_NAME[style]
    if canonical:
        lits = []
        for v in dv:
            if _lit(res[v]) not in lits:
                lits.append(_lit(res[v]))
        sig += "/" + esc("|".join(m)) + "=>" + esc(" / ".join(lits))
    return sig, m, style, {v: res[v] for v in dv}


# ------------------------------------------------------------------------------------------------ one case

def call_text(args, style):
    topen, tclose, _io, _ic, pre, post = STYLES[style]
    return esc(pre + topen + "|".join(args) + tclose + post)


def run_case(mon, obs, args, gen, style=0, record=True):
    """Evaluate one argument list. Returns list of (sig, msg, case)."""
    mon.memo.clear()
    res, dev, odd = mon.assess(args, style)
    for v in VIEWS:
        obs.check("rule-vs-" + v)
    obs.check("three-way")
    oks = [res[v][1] for v in VIEWS if res[v][0] == "ok"]
    three = len(oks) == 3 and oks[0] == oks[1] == oks[2]
    amb = mon.ambiguous(args)
    if record:
        f = R.features(args)
        obs.case("|".join(args) + "#%d" % style, nontrivial=bool(f - {"kind.pos", "kind.named", "kind.num"}),
                 sample={"gen": gen, "call": STYLE_NAME[style], "args": args, "parser_view": _lit(res["parser"])})
        obs.count("gen." + gen)
        obs.count("call-style." + STYLE_NAME[style])
        obs.count("len.%d" % len(args))
        obs.maxi("max_len", len(args))
        for t in f:
            obs.count("feature." + t)
        if amb:
            obs.count("rule-ambiguous(non-ascii blank or digit)")
        for a, b in (("parser", "expander"), ("expander", "lua"), ("parser", "lua")):
            same = res[a][0] == "ok" and res[a][:2] == res[b][:2]
            obs.count("pair.%s=%s.%s" % (a, b, "agree" if same else "differ"))
        obs.count("agree.all-three" if three else "agree.not-all-three")
        for v in VIEWS:
            obs.count("view.%s.%s" % (v, "deviates" if (v in dev or v in odd) else "as-rule"))
    out = []
    for v in odd:
        cls = sorted({x.split(".")[-1] for x in R.features(args)} & {"nbsp", "uws", "udigit", "uspace", "cr", "ff", "vt"})
        sig = "%s:reading-of-non-ascii-blank-or-digit-differs-from-other-views/[%s]" % (v, ",".join(cls))
        msg = "%s: %s" % (call_text(args, style), "; ".join("%s view: %s" % (w, esc(_lit(res[w]))) for w in VIEWS))
        out.append((sig, msg, {"args": args, "style": style}))
    seen = set()
    for v, kind in dev.items():
        sig, m, st, rs = signature(mon, v, kind, args, style)
        if sig in seen:
            continue
        seen.add(sig)
        exp = R.show(R.canon(R.rule(m, "A")))
        msg = "%s: rule says %s; " % (call_text(m, st), esc(exp)) + "; ".join(
            "%s view: %s" % (w, esc(R.show(r[1])) if r[0] == "ok" else r[1:]) for w, r in rs.items())
        out.append((sig, msg, {"args": m, "style": st}))
    return out


def run_shard(spec):
    from vf.gen import c14_args as G
    obs = Obs()
    rng = random.Random(spec["seed"])
    mon = Monitor(obs)
    idx, nsh = spec["idx"], spec["nsh"]

    def do(args, gen, style=0):
        for sig, msg, case in run_case(mon, obs, args, gen, style):
            obs.violation(sig, msg, case)

    for i, lst in enumerate(G.exhaustive_lists(EXH_LEN[spec["tier"]])):
        if i % nsh == idx:
            do(lst, "E1")
    for i, lst in enumerate(G.padding_lists()):
        if i % nsh == idx:
            do(lst, "E2")
    for _ in range(spec["n"]):
        do(G.random_list(rng), "R", rng.choice((0, 0, 0, 0, 0, 0, 1, 1, 2, 3)))
    mon.close()
    obs.anchors.update(anchors.snapshot())
    for v in VIEWS:
        obs.count("view-calls." + v, mon.calls[v])
    return obs


def replay(case):
    obs = Obs()
    mon = Monitor(obs)
    args = case["args"]
    style = case.get("style", 0)
    found = run_case(mon, obs, args, "replay", style, record=False)
    views = {v: mon.view(v, args, style) for v in VIEWS}
    mon.close()
    return {"violations": [(s, m) for s, m, _c in found], "call": call_text(args, style),
            "rule": R.show(R.canon(R.rule(args, "A"))),
            "views": {v: (R.show(r[1]) if r[0] == "ok" else list(r)) for v, r in views.items()}}
