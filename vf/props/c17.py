"""C17 -- template analysis marks exactly the closure of structure-affecting templates.

Monitor: a generated template library (inclusion graph + flag set + redirect placement) is stored
with add_page, the real Wtp.analyze_templates is run with a table-driven classifier (returns the
used names *as written* and the flag), and need_pre_expand of Wtp.get_all_pages([Template ns]) is
compared with the closure model of vf/ref/c17_closure.py (written from the statement; name
resolution = the page-store title rules, not the code).  The marked set must EQUAL the closure: the least
set closed under all three rules of the statement at once (inclusion, redirect to, redirect from), seeded
with the flagged templates and with what was marked before the analysis.  (The one-hop reading of the
redirect clause that earlier versions tolerated as a lower bound is only used to NAME a disagreement.)
A second oracle needs no model: analysing the unchanged store once more must not change the marks.
Histories: "readd" rounds store the same titles again and re-analyse; "grow" rounds ADD new templates to
the long-lived store and re-analyse, the model being the closure of the current (union) store seeded
additionally with what was marked before (monotone marks); pages may be stored pre-marked.
Termination: every analysis runs under a CPU budget.

Signature = rule / why-the-model-marks-the-page [/ the feature whose removal makes the
disagreement disappear]: a failing case is re-run (a) in a fresh context without the earlier rounds
and (b) with every used name rewritten to the canonical title; the first simplification that makes
the disagreement vanish names the mechanism, otherwise the simplified case is the witness.
"""
from __future__ import annotations

import json
import os
import random
import signal
import sqlite3
import time
import unicodedata

from vf.core.obs import Obs, cpu_guard, CpuBudget, exc_sig
from vf.core import anchors
from vf.ref import c17_closure as M
from vf.gen import c17_graphs as G

LEVEL = "exploration"
RULE = ("libraries of 1-8 Template pages: EXHAUSTIVE for <=3 pages (every adjacency matrix x every flag set x every "
        "redirect placement incl. self-redirects; quick tier: n<=2 complete, n=3 complete without redirect pages plus a "
        "seeded sample of the 258 048 n=3 libraries with redirect pages; thorough: all 262 144), plus seeded random "
        "libraries (12 shapes: random density, chain, ring, layered diamond, stars, complete, two rings, tree, ladder; "
        "flag sets one/end/two/none/all/random; redirects to page/self/absent/chains, in spelled libraries 30% of the redirect targets written "
        "Template:b_c / Template:b c / T:B c / template:B c, redirect pages that the classifier "
        "also classifies; used names canonical or spelled lower-initial / Template: / template: / T: / underscore and "
        "combinations; non-resolving decoy names; titles with blanks, unicode, stored lower-case initial + upper-case "
        "twin, quotes, %, inner colon, and titles NOT in Unicode NFC (base+combining mark, OHM/ANGSTROM SIGN, Hangul jamo, "
        "combining-order) stored verbatim and used with the same code points -- also the third title of the exhaustive part; 15% re-add + re-analyse rounds in the same context; 30% GROWING stores: one library "
        "dealt out over 2-4 rounds, each round adds new templates -- new includers of already marked and of unmarked "
        "templates, new flagged templates, new redirects, names that resolve only once a later round added the page -- and "
        "analyses the long-lived store again; 30% of the cases store some pages with need_pre_expand=True up front). "
        "distinct = history (per round: titles, redirects, used names as written, flags, pre-marks, insertion order); "
        "non-trivial = the model marks at least one page that the classifier did not flag")
ASSUMPTIONS = [
    "the classifier is a pure table lookup on page.title (no dependence on page bodies), the same table in every round of a history",
    "stores with a history: marks are monotone; the closure is that of the CURRENT store, seeded with the flagged templates and "
    "with everything that was marked before the analysis (earlier analysis / add_page(need_pre_expand=True))",
    "a redirect page points at the template that the page store resolves its stored target title to (C10 title rules: "
    "'_' = blank, prefix alias / other case, lower-case initial); targets are always written WITH a Template-namespace prefix",
    "'redirects from or to a marked template' is read as part of the least fixed point ('exactly the closure'): a template marked "
    "through a redirect counts as marked for includers and for further redirects",
    "name resolution of used names follows the page-store title rules as stated in C10; leading/trailing blanks in names are not generated",
    "per-analysis CPU budget 3 s (ITIMER_VIRTUAL for Python code + a SQLite progress handler installed by the harness on ctx.db_conn for "
    "a statement that spins inside SQLite; a normal analysis takes < 5 ms) stands for 'terminates'; a shard stops after 3 "
    "budget overruns",
    "marks are read with get_all_pages (uncached); the memoised get_page view is property C10/C13",
]
WALL = {"quick": 900, "thorough": 5400}
BUDGET = 3.0
MAX_OVERRUNS = 3
NSH = 16
RANDOM_PER_SHARD = {"quick": 1000, "thorough": 19000}
EXH3_SAMPLE_PER_SHARD = {"quick": 500, "thorough": 0}


def floors(tier):
    f = {
        "oracle.closure-exact": 20000 if tier == "quick" else 500000,
        "oracle.terminates": 20000 if tier == "quick" else 500000,
        "counters.exh.n1.graphs": G.exh_size(1), "counters.exh.n2.graphs": G.exh_size(2),
        "counters.exh.n3.plain.graphs": G.exh_plain_size(3),
        "counters.exh.n3.redirect.graphs": 6000 if tier == "quick" else G.exh_size(3) - G.exh_plain_size(3),
        "counters.random.graphs": 12000 if tier == "quick" else 250000,
        "counters.graph.cyclic": 3000, "counters.graph.self-inclusion": 1000, "counters.graph.multipath": 1000,
        "counters.model.propagated": 5000, "counters.model.redirect-source-marked": 500,
        "counters.model.redirect-target-marked": 500, "counters.model.readings-differ": 100,
        "counters.model.beyond-one-hop.inclusion": 300, "counters.model.beyond-one-hop.redirect": 300,
        "counters.graph.redirect-target-not-spelled-as-stored-title": 300, "oracle.idempotent": 10000,
        "counters.edge.noncanonical": 2000, "counters.rounds.later": 500, "counters.n.8": 100,
        "counters.flagged-redirect-page": 200,
        "counters.graph.title-not-in-NFC": 5000, "counters.edge.into-or-out-of-title-not-in-NFC": 10000,
        "counters.model.propagation-involves-title-not-in-NFC": 2000,
        "counters.history.grow-round": 3000, "counters.history.store-with-premarked-page": 1500,
        "counters.history.flagged-template-already-marked": 2000,
        "counters.history.new-derivation-only-through-already-marked-flagged": 600,
        "counters.history.new-derivation-only-through-already-marked-unflagged": 200,
        "anchors.Wtp.analyze_templates": 20000 if tier == "quick" else 500000,
        "anchors.Wtp.set_template_pre_expand": 20000, "anchors.Wtp.get_page": 10000,
        "nontrivial": 4000,
    }
    return f


def shards(tier, seed):
    # VERIF_C17_SCALE < 1 shrinks the seeded parts for development runs (the floors then report INCONCLUSIVE)
    scale = float(os.environ.get("VERIF_C17_SCALE", "1"))
    # _rlimit_cpu (vf.core.shard): a spin in C code that neither guard can reach kills the shard after this much CPU
    # -> shard lost -> INCONCLUSIVE, long before the wall watchdog (a quick shard needs < 60 s CPU, a thorough one < 900 s)
    return [{"seed": seed * 1000 + i, "idx": i, "nsh": NSH, "tier": tier, "scale": scale,
             "_rlimit_cpu": 600 if tier == "quick" else 3000,
             "random": int(RANDOM_PER_SHARD[tier] * scale),
             "exh3_sample": int(EXH3_SAMPLE_PER_SHARD[tier] * scale)} for i in range(NSH)]


# ------------------------------------------------------------------------------------------------ real runs

class Stop(Exception):
    pass


def _classifier(table, calls):
    def check(ctx, page):
        calls.append(page.title)
        row = table[page.title]
        return set(row["u"]), bool(row["f"])
    return check


class SqlStuck(CpuBudget):
    """The CPU budget of one analysis ran out INSIDE a SQLite statement: the progress handler interrupted it."""


def analyse(ctx, check):
    """ctx.analyze_templates(check) under the per-analysis CPU budget.
    Python-level spinning: vf.core.obs.cpu_guard (signal handler raises CpuBudget between bytecodes).
    Spinning inside ONE SQLite statement (C code; the signal handler never gets to run): a progress handler on the
    context's connection, called every 100 000 SQLite VM instructions, compares the process CPU time with the
    start of the analysis and interrupts the statement once the budget is used up -> sqlite3.OperationalError
    'interrupted' -> SqlStuck.  A logical verdict, independent of machine load and of the wall watchdog."""
    t0 = time.process_time()
    fired = [False]

    def progress():
        if fired[0] or time.process_time() - t0 > BUDGET:
            fired[0] = True
            return 1
        return 0

    conn = ctx.db_conn
    conn.set_progress_handler(progress, 100000)
    try:
        with cpu_guard(BUDGET):
            # cpu_guard arms a one-shot timer; an alarm that lands inside a callback whose caller swallows
            # exceptions (sqlite trace / progress callback) would be lost -> re-arm it as a repeating timer; it
            # starts a little after the progress handler's budget so that a stuck statement is named as such
            signal.setitimer(signal.ITIMER_VIRTUAL, BUDGET + 1.0, 0.25)
            ctx.analyze_templates(check)
    except sqlite3.OperationalError as e:
        if fired[0] or "interrupt" in str(e).lower():
            raise SqlStuck("analyze_templates: a single SQLite statement was still running after %.0f s CPU "
                           "(interrupted by the harness's progress handler): %r" % (BUDGET, e)) from None
        raise
    finally:
        try:
            conn.set_progress_handler(None, 0)
        except Exception:
            pass
    if fired[0]:
        # the code under test swallowed the interruption: it still did not finish its statement
        raise SqlStuck("analyze_templates: a SQLite statement was interrupted after %.0f s CPU and the error was swallowed" % BUDGET)


def stuck_cat(m, err):
    cat = "cyclic-inclusion" if M.cyclic(m["inc"]) else "acyclic-inclusion"
    return cat + "/stuck-in-sql-statement" if isinstance(err, SqlStuck) else cat


def run_rounds(case, sql=None, again=False):
    """Store + analyse every round in ONE fresh context; -> list of (marked-title set, classifier calls), one
    per round.  mode "readd": every round stores its pages (again); mode "grow": every round adds its (new)
    pages and the classifier table is the union.  again=True appends the result of one more analysis of the
    unchanged final store.  Raises CpuBudget / any exception of the code under test
    (tagged with .round)."""
    from vf.core.wtp import fresh
    out = []
    grow = case.get("mode") == "grow"
    with fresh(title=None) as ctx:
        if sql is not None:
            ctx.db_conn.set_trace_callback(sql)
        table = {}
        for k, g in enumerate(case["rounds"]):
            if not grow:
                table = {}
            for p in g["pages"]:
                pre = bool(p.get("p"))
                if p["r"] is not None:
                    ctx.add_page(p["t"], 10, None, redirect_to=p["r"], need_pre_expand=pre, model="wikitext")
                else:
                    ctx.add_page(p["t"], 10, "body of " + p["t"], need_pre_expand=pre, model="wikitext")
                table[p["t"]] = p
            calls = []
            try:
                analyse(ctx, _classifier(table, calls))
            except BaseException as e:
                e.round = k
                raise
            out.append(({p.title for p in ctx.get_all_pages([10]) if p.need_pre_expand}, calls))
        if again and out:
            # idempotence probe: the same analysis of the now unchanged store
            calls = []
            try:
                analyse(ctx, _classifier(table, calls))
            except BaseException as e:
                e.round = len(out) - 1
                raise
            out.append(({p.title for p in ctx.get_all_pages([10]) if p.need_pre_expand}, calls))
    return out


def before_of(case, k, res):
    """Titles already marked in the store when round k is analysed (besides the pages stored pre-marked)."""
    return res[k - 1][0] if (k > 0 and case.get("mode") == "grow") else set()


ALREADY = ("includer-of-flagged-template-that-was-already-marked",
           "includer-of-unflagged-template-that-was-already-marked")
ORDER = ["already-marked-before-analysis", "flagged-template", "includer-of-marked", "redirect-source", "redirect-target"]


def judge(graph, got, before=()):
    """-> (model, [(rule, category, detail)]) for one analysed library: marked set == closure, exactly."""
    m = M.closure(graph, before)
    probs = []
    missed = m["full"] - got
    over = got - m["full"]
    if missed:
        base = missed & m["two_phase"]
        if base:
            cat = min((m["why"][t] for t in base), key=ORDER.index)
            if cat == "includer-of-marked":
                cat = M.refine_missed(m, got) or cat
        else:
            # everything up to the one-hop reading is there: name the first rule application that is missing
            lay = min(m["beyond"][t][0] for t in missed)
            rules = {m["beyond"][t][1] for t in missed if m["beyond"][t][0] == lay}
            cat = ("includer-of-template-marked-via-redirect" if "inclusion" in rules
                   else "redirect-of-template-marked-via-redirect")
        probs.append(("missed", cat, "not marked: %s (model: %s)" % (
            sorted(missed), {t: m["why"][t] for t in sorted(missed)})))
    if over:
        red = {p["t"] for p in graph["pages"] if p["r"] is not None}
        cat = "unknown-title" if over - m["titles"] else ("redirect-page" if over & red else "plain-template")
        probs.append(("overmarked", cat, "marked but outside the closure: %s" % sorted(over)))
    return m, probs


def idem(got, got2):
    """Metamorphic oracle (no model): analysing the unchanged store once more must not change the marks."""
    if got2 == got:
        return []
    cat = "second-analysis-of-unchanged-store-marks-more" if got2 > got else "second-analysis-of-unchanged-store-changes-marks"
    return [("not-idempotent", cat, "first analysis marked %s, the same analysis again: +%s -%s" % (
        sorted(got), sorted(got2 - got), sorted(got - got2)))]


def outcome(case):
    """Run a case on the real code and judge its LAST round.  -> list of (rule, category, detail)."""
    rounds = case["rounds"]
    try:
        res = run_rounds(case, again=True)
    except CpuBudget as e:
        m = M.closure(M.graph_at(case, e.round))
        return [("does-not-return", stuck_cat(m, e),
                 "analyze_templates used more than %.0f s CPU" % BUDGET)] if e.round == len(rounds) - 1 else \
               [("does-not-return", "earlier-round", "")]
    except Exception as e:
        return [("raises", exc_sig(e), repr(e)[:300])]
    k = len(rounds) - 1
    probs = judge(M.graph_at(case, k), res[k][0], before_of(case, k, res))[1]
    if not probs:
        probs = idem(res[k][0], res[k + 1][0])
    return probs


def find(probs, rule):
    for r, c, d in probs:
        if r == rule:
            return c, d
    return None


def broken(probs):
    return any(r in ("does-not-return", "raises") for r, _, _ in probs)


def with_rounds(case, rounds):
    c = {"rounds": rounds}
    if "mode" in case:
        c["mode"] = case["mode"]
    return c


def drop_redirects(case):
    return with_rounds(case, [{"pages": [dict(p, r=None) for p in r["pages"]]} for r in case["rounds"]])


def nfc_case(case):
    """The same history with every title / redirect target / used name in Unicode NFC; None if two titles collide."""
    nf = lambda x: None if x is None else unicodedata.normalize("NFC", x)
    for r in case["rounds"]:
        ts = [p["t"] for p in r["pages"]]
        if len({nf(t) for t in ts}) != len(set(ts)):
            return None
    allt = {p["t"] for r in case["rounds"] for p in r["pages"]}
    if len({nf(t) for t in allt}) != len(allt):
        return None
    rounds = []
    for r in case["rounds"]:
        pages = []
        for p in r["pages"]:
            u = []
            for w in p["u"]:
                if nf(w) not in u:
                    u.append(nf(w))
            pages.append(dict(p, t=nf(p["t"]), r=nf(p["r"]), u=u))
        rounds.append({"pages": pages})
    return with_rounds(case, rounds)


def collapse(case):
    """The store of the last round, filled and analysed once."""
    return {"rounds": [M.graph_at(case, len(case["rounds"]) - 1)]}


def diagnose(case, probs):
    """Name the mechanism of each problem of `case` by dropping features until it disappears:
    redirect-target spellings -> redirect pages -> history (earlier analyses) -> non-canonical spellings.  A feature whose removal makes
    the disagreement vanish is the mechanism tag (redirects: the category already says so); otherwise the
    simpler case replaces the witness and the category (why the model marks the missed page) is taken from
    the simplest failing version, so that a propagation failure that merely *shows* in the redirect phase is
    named by its root.  Categories that already name a history mechanism (ALREADY) end the search.
    -> list of (sig, msg, witness case)."""
    out = []
    for rule, cat, detail in probs:
        if rule in ("does-not-return", "raises"):
            out.append(("%s/%s" % (rule, cat), detail, case))
            continue
        wit = case
        tag = None
        c = M.canonicalise_redirects_case(wit)
        if c != wit:
            o = outcome(c)
            if not broken(o):
                f = find(o, rule)
                if f is None:
                    tag = "redirect-target-not-spelled-as-stored-title"
                else:
                    wit, (cat, detail) = c, f
        if tag is None and any(p["r"] is not None for r in wit["rounds"] for p in r["pages"]):
            c = drop_redirects(wit)
            o = outcome(c)
            if not broken(o):
                f = find(o, rule)
                if f is not None:
                    wit, (cat, detail) = c, f
        if tag is None and cat not in ALREADY and len(wit["rounds"]) > 1:
            c = collapse(wit)
            o = outcome(c)
            if not broken(o):
                f = find(o, rule)
                if f is None:
                    tag = "only-after-an-earlier-analysis-in-the-same-context"
                else:
                    wit, (cat, detail) = c, f
        if tag is None and cat not in ALREADY:
            c = M.canonicalise_case(wit)
            if c != wit:
                o = outcome(c)
                if not broken(o):
                    f = find(o, rule)
                    if f is None:
                        tag = "used-name-not-canonical-title"
                    else:
                        wit, (cat, detail) = c, f
        if tag is None:
            c = nfc_case(wit)
            if c is not None and c != wit:
                o = outcome(c)
                if not broken(o):
                    f = find(o, rule)
                    if f is None:
                        tag = "template-title-not-in-unicode-NFC"
                    else:
                        wit, (cat, detail) = c, f
        out.append(("%s/%s" % (rule, tag or cat), detail, wit))
    return out


def sigs_of(case):
    probs = outcome(case)
    return {s for s, _, _ in diagnose(case, probs)} if probs else set()


def _simpler(cur):
    """Every case obtained from `cur` by ONE simplification, most drastic first."""
    cp = lambda: json.loads(json.dumps(cur))
    rounds = cur["rounds"]
    for i in range(len(rounds) - 1):
        yield with_rounds(cur, rounds[:i] + rounds[i + 1:])
    if cur.get("mode") == "grow":
        for i in range(len(rounds) - 1):        # merge two consecutive rounds (one analysis fewer)
            yield with_rounds(cur, rounds[:i] + [{"pages": rounds[i]["pages"] + rounds[i + 1]["pages"]}] + rounds[i + 2:])
    titles = []
    for r in rounds:
        for p in r["pages"]:
            if p["t"] not in titles:
                titles.append(p["t"])
    if len(titles) > 1:
        for t in titles:
            yield with_rounds(cur, [{"pages": [p for p in r["pages"] if p["t"] != t]} for r in rounds])
    union = set(titles)
    for ri, r in enumerate(rounds):
        tset = union if cur.get("mode") == "grow" else {p["t"] for p in r["pages"]}
        for pi, p in enumerate(r["pages"]):
            for key, val in (("r", None), ("f", 0), ("p", 0)):
                if p.get(key):
                    c = cp()
                    c["rounds"][ri]["pages"][pi][key] = val
                    yield c
            if p["r"] is not None:
                t = M.resolve(p["r"], tset)
                if t is not None and t != p["r"]:
                    c = cp()
                    c["rounds"][ri]["pages"][pi]["r"] = t
                    yield c
            for ui, w in enumerate(p["u"]):
                c = cp()
                del c["rounds"][ri]["pages"][pi]["u"][ui]
                yield c
            for ui, w in enumerate(p["u"]):
                t = M.resolve(w, tset)
                if t is not None and M.canonical_name(t) != w and M.canonical_name(t) not in p["u"]:
                    c = cp()
                    c["rounds"][ri]["pages"][pi]["u"][ui] = M.canonical_name(t)
                    yield c


def minimise(case, sig, budget=300):
    """Greedy delta-minimisation of a witness: apply single simplifications while the signature stays."""
    cur = json.loads(json.dumps(case))
    tries = 0
    progress = True
    while progress:
        progress = False
        for c in _simpler(cur):
            tries += 1
            if tries > budget:
                return cur
            if sig in sigs_of(c):
                cur, progress = c, True
                break
    return cur



# ------------------------------------------------------------------------------------------------ shard

class Shard:
    def __init__(self, obs):
        from wikitextprocessor import Wtp
        self.obs = obs
        self.overruns = 0
        self.minimised = {}
        anchors.watch({"Wtp.analyze_templates": Wtp.analyze_templates,
                       "Wtp.set_template_pre_expand": Wtp.set_template_pre_expand,
                       "Wtp.get_page": Wtp.get_page, "Wtp.get_all_pages": Wtp.get_all_pages,
                       "Wtp.add_page": Wtp.add_page})

    def _sql(self, stmt):
        if "need_pre_expand = 1" in stmt and stmt.lstrip().startswith("UPDATE"):
            if "AS dest" in stmt:
                self.obs.count("sql.redirect-source-update")
            elif "AS source" in stmt:
                self.obs.count("sql.redirect-target-update")
            else:
                self.obs.count("sql.mark-update")

    def observe(self, graph, m, later):
        obs = self.obs
        n = len(graph["pages"])
        obs.count("n.%d" % n)
        obs.maxi("templates", n)
        if M.cyclic(m["inc"]):
            obs.count("graph.cyclic")
        if any(t in s for t, s in m["inc"].items()):
            obs.count("graph.self-inclusion")
        if M.multipath(m["inc"], m["flagged"]):
            obs.count("graph.multipath")
        if m["spelled_redirects"]:
            obs.count("graph.redirect-target-not-spelled-as-stored-title")
        for t, (lay, rule) in m["beyond"].items():
            obs.count("model.beyond-one-hop." + rule)
            obs.maxi("closure_rounds_beyond_one_hop", lay)
        if m["redirect"]:
            obs.count("graph.with-redirect-pages")
            if any(m["redirect"].get(t) in m["redirect"] for t in m["redirect"]):
                obs.count("graph.redirect-chain-or-loop")
        nonnfc = {t for t in m["titles"] if unicodedata.normalize("NFC", t) != t}
        if nonnfc:
            obs.count("graph.title-not-in-NFC")
            e = sum(1 for t, s in m["inc"].items() for y in s if t in nonnfc or y in nonnfc)
            obs.count("edge.into-or-out-of-title-not-in-NFC", e)
            if (m["m0"] - m["flagged"]) & nonnfc or any(m["inc"][t] & nonnfc for t in m["m0"] - m["flagged"]):
                obs.count("model.propagation-involves-title-not-in-NFC")
        if any(p["r"] is not None and p["f"] for p in graph["pages"]):
            obs.count("flagged-redirect-page")
        if any(p["r"] is not None and p["u"] for p in graph["pages"]):
            obs.count("including-redirect-page")
        obs.count("edge.resolved", sum(len(s) for s in m["inc"].values()))
        obs.count("edge.noncanonical", m["noncanonical_edges"])
        obs.count("edge.unresolved-name", m["unresolved_names"])
        for k, v in m["spelling"].items():
            obs.count("spelling." + k, v)
            obs.add("spelling-classes", k)
        if m["depth"]:
            obs.maxi("propagation_depth", max(m["depth"].values()))
        if m["m0"] - m["flagged"]:
            obs.count("model.propagated")
        if m["src"]:
            obs.count("model.redirect-source-marked")
        if m["tgt"]:
            obs.count("model.redirect-target-marked")
        if m["full"] != m["two_phase"]:
            obs.count("model.readings-differ")
        if not m["full"]:
            obs.count("model.nothing-marked")
        elif m["full"] == m["titles"]:
            obs.count("model.everything-marked")
        obs.maxi("marked", len(m["full"]))
        if later:
            obs.count("rounds.later")

    def run_case(self, case, gen, feats=()):
        """One generated case = one context; every round is analysed and judged (until one fails)."""
        obs = self.obs
        rounds = case["rounds"]
        for f in feats:
            obs.add("features", f)
        try:
            res = run_rounds(case, sql=self._sql, again=True)
            err = None
        except CpuBudget as e:
            err, res = e, None
        except Exception as e:
            err, res = e, None
        if err is not None:
            k = getattr(err, "round", len(rounds) - 1)
            sub = with_rounds(case, rounds[:k + 1])
            obs.case(sub, nontrivial=True, sample=None)
            obs.count(gen + ".graphs")
            g = M.graph_at(case, k)
            m = M.closure(g)
            self.observe(g, m, k > 0)
            if isinstance(err, CpuBudget):
                obs.check("terminates")
                self.overruns += 1
                sig = "does-not-return/" + stuck_cat(m, err)
                if isinstance(err, SqlStuck):
                    obs.count("sql-statement-interrupted-by-progress-handler")
                obs.violation(sig, "analyze_templates used more than %.0f s CPU; %s" % (BUDGET, str(err)[-500:]), sub)
                if self.overruns >= MAX_OVERRUNS:
                    obs.inconclusive.append("shard stopped after %d analyses exceeded the CPU budget" % self.overruns)
                    raise Stop()
            else:
                obs.violation("raises/" + exc_sig(err), repr(err)[:300], sub)
            return
        grow = case.get("mode") == "grow"
        for k in range(len(rounds)):
            got, calls = res[k]
            sub = with_rounds(case, rounds[:k + 1])
            g = M.graph_at(case, k)
            m, probs = judge(g, got, before_of(case, k, res))
            obs.check("terminates")
            obs.check("closure-exact")
            nontriv = bool(m["full"] - m["flagged"] - m["before"])
            obs.case(sub, nontrivial=nontriv,
                     sample={"gen": gen, "case": sub, "marked": sorted(got)} if nontriv and len(g["pages"]) >= 4 else None)
            obs.count(gen + ".graphs")
            self.observe(g, m, k > 0)
            if grow and k > 0:
                obs.count("history.grow-round")
                obs.maxi("grow_rounds", k + 1)
            if m["premarked"]:
                obs.count("history.store-with-premarked-page")
            if m["before"]:
                obs.count("history.analysis-of-partly-marked-store")
                if m["before"] & m["flagged"]:
                    obs.count("history.flagged-template-already-marked")
                for kind in M.history_triggers(m):
                    obs.count("history.new-derivation-only-through-already-marked-" + kind)
                if m["full"] - m["before"]:
                    obs.count("history.model-marks-more-than-before")
            obs.count("classifier.calls", len(calls))
            if sorted(calls) != sorted(m["titles"]):
                obs.count("classifier.not-once-per-template")
            if not probs and k == len(rounds) - 1:
                obs.check("idempotent")
                probs = idem(got, res[k + 1][0])
            if not probs:
                continue
            for sig, msg, wit in diagnose(sub, probs):
                obs.count("disagreement." + sig)
                for cls in m["spelling"]:
                    if cls != "canonical" and sig.endswith("used-name-not-canonical-title"):
                        obs.add("spelling-classes-in-failing-cases", cls)
                if self.minimised.get(sig, 0) < 2:
                    self.minimised[sig] = self.minimised.get(sig, 0) + 1
                    wit = minimise(wit, sig)
                    try:
                        p2 = outcome(wit)
                        msg = "; ".join(d for _, _, d in p2) or msg
                    except (Exception, CpuBudget):
                        pass
                obs.violation(sig, msg, wit)
            break       # later rounds of a store that already disagrees are not judged


def run_shard(spec):
    obs = Obs()
    sh = Shard(obs)
    rng = random.Random(spec["seed"])
    idx, nsh, tier = spec["idx"], spec["nsh"], spec["tier"]
    try:
        # bounded-exhaustive part, interleaved over the shards
        for n in (1, 2):
            for k in range(idx, G.exh_size(n), nsh):
                sh.run_case({"rounds": [G.exh_decode(n, k)]}, "exh.n%d" % n)
        for k in range(idx, G.exh_plain_size(3), nsh):
            sh.run_case({"rounds": [G.exh_decode(3, k)]}, "exh.n3.plain")
        lo, hi = G.exh_plain_size(3), G.exh_size(3)
        if tier == "thorough":
            ks = range(lo + idx, hi, nsh if spec.get("scale", 1) >= 1 else int(nsh / spec["scale"]))
        else:
            ks = sorted(rng.sample(range(lo, hi), spec["exh3_sample"]))
        for k in ks:
            sh.run_case({"rounds": [G.exh_decode(3, k)]}, "exh.n3.redirect")
        # random part
        for _ in range(spec["random"]):
            case, feats = G.random_case(rng)
            sh.run_case(case, "random", feats)
    except Stop:
        pass
    obs.anchors.update(anchors.snapshot())
    return obs


def replay(case):
    probs = outcome(case)
    d = diagnose(case, probs) if probs else []
    k = len(case["rounds"]) - 1
    g = M.graph_at(case, k)
    try:
        res = run_rounds(case)
        got = sorted(res[k][0])
        m = M.closure(g, before_of(case, k, res))
    except BaseException as e:
        got = "no result: " + type(e).__name__
        m = M.closure(g)
    return {"violations": [(s, msg) for s, msg, _ in d], "marked": got,
            "marked_before_this_analysis": sorted(m["before"]),
            "model_closure": sorted(m["full"]), "model_one_hop_reading": sorted(m["two_phase"]),
            "why": {t: m["why"][t] for t in sorted(m["why"])}}
