"""C02 -- section, list and rule structure follows the nesting model.

Oracle: history + executable model.  The generator writes outlines whose headings, list lines and fillers carry
unique ids (H<n>, I<n>, F<n>); vf.ref.c02_model (stack models written from the statement) says for every id which
section / item / list it belongs to; the monitor walks the tree returned by the real Wtp.parse, builds the same map
from the tree and compares id by id.  The first differing id (document order) is delta-minimised (drop lines,
simplify decorations/markers while the same rule keeps failing) and the signature is rule + shape of the minimal
outline.  The culprit line is then removed from the original outline and the comparison repeated, so a second,
independent defect in the same outline is not masked by the first and cascades of the first are not reported.
"""
from __future__ import annotations

import os
import random
import re

from vf.core.obs import Obs, cpu_guard, CpuBudget, exc_sig
from vf.core import anchors
from vf.ref import c02_model as M
from vf.gen import c02_outline as G

LEVEL = "exploration"
RULE = ("outlines of headings (levels 1..6, 12 title decorations), */# list lines (30 markers of depth<=4, 12 item "
        "decorations), rules and the balanced filler blocks of vf/gen/c02_outline.py (plain/inline markup, templates, colon-style parser functions, div/table blocks, end tags with white space before '>', space-indented lines), every line carrying a unique id; bounded-exhaustive parts: "
        "all level sequences up to length 3 (quick) / 4 (thorough) x rule at every position x gap filler (quick: "
        "paragraph, nothing, 2 parser-function blocks, split end tag, indented line; thorough: every catalogue block, nothing), all marker sequences up to 2 (quick) / 3 "
        "(thorough) lines, consecutive and with a filler block between the last two lines (quick: every catalogue "
        "block; thorough: 6 of them); sampled part: random outlines up to 10 headings / 12 list lines / 22 lines, "
        "optional balanced <div> wrapping a run of lines, under parse / pre_expand / expand_all, with/without final "
        "newline.  distinct = rendered text + mode; non-trivial = the outline has >=2 structural lines (heading / "
        "list line / rule)")
ASSUMPTIONS = [
    "ids H<n>/I<n>/F<n> identify tree nodes: the catalogue texts contain no other token of that shape",
    "'balanced filler' is read as the F_KIND catalogue in vf/gen/c02_outline.py (complete lines, all markup closed in the block; quote markup is line-scoped, so no ''..'' spans lines); a space-indented filler is never placed directly after a list line (continuation of the item); the tree parent of a section node must be its parent section node or the root; "
    "headings are never placed inside a filler",
    "a line of the outline that is not a list line (heading, rule, filler, blank line, <div>/</div> wrapper line) closes all open lists",
    "per-case CPU budget 20 s stands for 'parse returns'",
]
WALL = {"quick": 600, "thorough": 3000}
MODES = [{}, {"pre_expand": True}, {"expand_all": True}]
MODE_TAG = ["", "+pre_expand", "+expand_all"]
NSH = 16
QUICK_SAMPLED = 8000       # per shard
THOROUGH_SAMPLED = 180000  # per shard
FAMILY = {"pf_": "pf_if", "et_": "et_div_nl", "ind_": "ind_line"}  # filler/decoration families -> canonical member
ID_RE = re.compile(r"(?<![A-Za-z0-9])([HIF]\d+)(?![A-Za-z0-9])")


def bounds(tier):
    if tier == "quick":
        return {"hlen": 3, "hfill": ["para", "none", "pf_if", "pf_nest", "et_div_nl", "ind_line"], "llen": 2, "lfill": G.F_KINDS_AFTER_LIST}
    return {"hlen": 4, "hfill": G.F_KINDS + ["none"], "llen": 3, "lfill": ["para", "blank", "div", "table", "tmpl", "span", "pf_if", "pf_nest", "et_div_nl"]}


def expected_exhaustive(tier):
    b = bounds(tier)
    return {"xh": G.n_heading_outlines(b["hlen"], len(b["hfill"])), "xl": G.n_list_outlines(b["llen"], len(b["lfill"]))}


def floors(tier):
    e = expected_exhaustive(tier)
    return {"oracle.sections-model": e["xh"], "oracle.lists-model": e["xl"], "oracle.ids-compared": 20000,
            "counters.exhaustive.heading-outlines": e["xh"], "counters.exhaustive.list-outlines": e["xl"],
            "counters.gen.sampled": 1000,
            "anchors.parser.subtitle_start_fn": 1000, "anchors.parser.subtitle_end_fn": 1000,
            "anchors.parser.hline_fn": 500, "anchors.parser.list_fn": 1000,
            "anchors.parser.pop_until_nth_list": 1000, "anchors.parser.text_fn": 1000,
            "sets.level-bigram": 36, "sets.rule-context": 4, "sets.marker-relation": 6,
            "sets.heading-deco": len(G.H_DECOS), "sets.item-deco": len(G.L_DECOS), "sets.filler-kind": len(G.F_KINDS),
            "sets.list-closer": 4, "nontrivial": 5000}


def exhaustive(tier, total):
    e = expected_exhaustive(tier)
    c = total["counters"]
    return c.get("exhaustive.heading-outlines", 0) == e["xh"] and c.get("exhaustive.list-outlines", 0) == e["xl"]


def shards(tier, seed):
    per = {"quick": QUICK_SAMPLED, "thorough": THOROUGH_SAMPLED}[tier]
    per = int(os.environ.get("VERIF_C02_N", per))  # development only: smaller sampled part
    return [{"seed": seed * 1000 + i, "n": per, "idx": i, "nsh": NSH, "tier": tier} for i in range(NSH)]


# ---------------------------------------------------------------- reading the real tree
def text_of(x):
    """all text below x; pieces are separated by a blank so that ids never fuse with neighbouring text"""
    if isinstance(x, str):
        return x
    if isinstance(x, (list, tuple)):
        return " ".join(text_of(y) for y in x)
    return text_of(x.largs) + " " + text_of(x.children)


def extract(root):
    """{H: id -> [(level, parent section id)], C: id -> [(section id, enclosing item id)],
        I: id -> [(sarg, parent item id, list uid, parent-is-LIST)], HR: [section id], extra: {...}, depth...}"""
    from wikitextprocessor.parser import WikiNode, NodeKind as K
    LEV = {K.LEVEL1: 1, K.LEVEL2: 2, K.LEVEL3: 3, K.LEVEL4: 4, K.LEVEL5: 5, K.LEVEL6: 6}
    A = {"H": {}, "C": {}, "I": {}, "HR": [], "astext": set(), "anon_level": 0, "anon_item": 0,
         "maxsec": 0, "maxlist": 0, "nlist": 0}
    item_ids = {}  # id(node) -> own I id

    def own_id(n):
        """the I id of a LIST_ITEM: first id in its content that is not inside a nested LIST_ITEM"""
        st = list(reversed(n.children))
        while st:
            c = st.pop()
            if isinstance(c, str):
                m = re.search(r"(?<![A-Za-z0-9])I\d+(?![A-Za-z0-9])", c)
                if m:
                    return m.group(0)
            elif isinstance(c, WikiNode):
                if c.kind == K.LIST_ITEM:
                    continue
                sub = []
                for a in c.largs:
                    sub.extend(a)
                sub.extend(c.children)
                st.extend(reversed(sub))
        return None

    def walk(n, sec, item, lst, sdepth, ldepth, parent_kind):
        if isinstance(n, str):
            for m in ID_RE.finditer(n):
                i = m.group(1)
                if i[0] == "H":
                    A["astext"].add(i)
                else:
                    A["C"].setdefault(i, []).append((sec, item))
            return
        k = n.kind
        if k in LEV:
            t = text_of(n.largs)
            m = ID_RE.search(t)
            hid = m.group(1) if m and m.group(1)[0] == "H" else None
            if hid is None:
                A["anon_level"] += 1
                hid = "?"
            else:
                A["H"].setdefault(hid, []).append((LEV[k], sec, len(n.largs), parent_kind.name))
            A["maxsec"] = max(A["maxsec"], sdepth + 1)
            for c in n.children:
                walk(c, hid, None, None, sdepth + 1, 0, k)
            return
        if k == K.LIST:
            A["nlist"] += 1
            A["maxlist"] = max(A["maxlist"], ldepth + 1)
            for c in n.children:
                walk(c, sec, item, id(n), sdepth, ldepth + 1, k)
            return
        if k == K.LIST_ITEM:
            own = own_id(n)
            if own is None:
                A["anon_item"] += 1
                own = "?"
            else:
                A["I"].setdefault(own, []).append((n.sarg, item, lst, parent_kind == K.LIST))
            for c in n.children:
                walk(c, sec, own, None, sdepth, ldepth, k)
            return
        if k == K.HLINE:
            A["HR"].append(sec)
            return
        for a in n.largs:
            for c in a:
                walk(c, sec, item, None, sdepth, ldepth, k)
        for c in n.children:
            walk(c, sec, item, None, sdepth, ldepth, k)

    for c in root.children:
        walk(c, None, None, None, 0, 0, K.ROOT)
    return A


# ---------------------------------------------------------------- comparison
def sec_relation(H, exp, got):
    if got == "?":
        return "in-unidentified-section"
    if got in M.ancestors(H, exp):
        return "closed-too-many"      # the real tree has it in an outer section: something closed a section it should not
    if exp in M.ancestors(H, got):
        return "closed-too-few"       # it sits in a deeper section than the model's: a section was not closed
    return "elsewhere"


def compare(lines, A, obs=None):
    """-> mismatches [(pos, order, rule, relation, detail)] sorted in document order"""
    mod = M.model(lines)
    H = mod["H"]
    out = []
    n_ids = 0

    def mm(pos, order, rule, rel, detail):
        out.append((pos, order, rule, rel, detail))

    hr_i = 0
    model_prev_in_list = {}
    last_of_list = {}
    for ln in lines:
        if ln["k"] == "l":
            lu = mod["I"][ln["id"]][2]
            model_prev_in_list[ln["id"]] = last_of_list.get(lu)
            last_of_list[lu] = ln["id"]
    # actual "previous item in the same LIST node", document order = order of the lines
    act_prev_in_list = {}
    last_of_alist = {}
    for ln in lines:
        if ln["k"] == "l":
            occ = A["I"].get(ln["id"])
            if occ and len(occ) == 1:
                lu = occ[0][2]
                act_prev_in_list[ln["id"]] = last_of_alist.get(lu)
                last_of_alist[lu] = ln["id"]
    for pos, ln in enumerate(lines):
        k = ln["k"]
        if k == "h":
            n_ids += 1
            i = ln["id"]
            occ = A["H"].get(i, [])
            if len(occ) != 1:
                rel = ("left-as-text" if i in A["astext"] else "missing") if not occ else "duplicated"
                mm(pos, 0, "heading-node-count", rel, "%s: %d LEVEL nodes" % (i, len(occ)))
                continue
            lv, par, nargs, pkind = occ[0]
            if lv != ln["lv"]:
                mm(pos, 1, "heading-level", "deeper" if lv > ln["lv"] else "shallower", "%s: LEVEL%d for %d '='" % (i, lv, ln["lv"]))
            if i in A["astext"]:
                mm(pos, 1, "heading-node-count", "also-as-text", i)
            exp = H[i][1]
            if par != exp:
                mm(pos, 2, "heading-parent", sec_relation(H, exp, par), "%s: parent section %s, model %s" % (i, par, exp))
            # the section node's tree parent is the parent section node itself (the root when it has none): the
            # outline never puts a heading inside a filler or wrapper, so nothing else may be open there
            if not (pkind == "ROOT" or pkind.startswith("LEVEL")):
                mm(pos, 3, "heading-container", "inside-" + pkind, "%s: section node is a child of a %s node" % (i, pkind))
        elif k == "hr":
            n_ids += 1
            exp = mod["HR"][hr_i]
            if hr_i >= len(A["HR"]):
                mm(pos, 0, "rule-node-count", "missing", "rule #%d has no HLINE node" % hr_i)
            elif A["HR"][hr_i] != exp:
                mm(pos, 2, "rule-section", sec_relation(H, exp, A["HR"][hr_i]),
                   "rule #%d: in section %s, model %s" % (hr_i, A["HR"][hr_i], exp))
            hr_i += 1
        elif k == "f":
            i = ln.get("id")
            if i is None:
                continue
            n_ids += 1
            occ = A["C"].get(i, [])
            if len(occ) != 1:
                mm(pos, 0, "content-count", "missing" if not occ else "duplicated", "%s: %d occurrences" % (i, len(occ)))
                continue
            sec, item = occ[0]
            if sec != mod["C"][i]:
                mm(pos, 2, "content-section", sec_relation(H, mod["C"][i], sec), "%s: in section %s, model %s" % (i, sec, mod["C"][i]))
            if item is not None:
                mm(pos, 3, "filler-placement", "inside-list-item", "%s: inside item %s" % (i, item))
        elif k == "l":
            n_ids += 1
            i = ln["id"]
            occ = A["I"].get(i, [])
            if len(occ) != 1:
                mm(pos, 0, "item-node-count", "missing" if not occ else "duplicated", "%s: %d LIST_ITEM nodes" % (i, len(occ)))
                continue
            sarg, par, lu, under_list = occ[0]
            em, epar, elu = mod["I"][i]
            if sarg != em:
                mm(pos, 1, "item-prefix", "differs", "%s: sarg %r, marker %r" % (i, sarg, em))
            if not under_list:
                mm(pos, 1, "item-container", "not-under-LIST", i)
            cocc = A["C"].get(i, [])
            if len(cocc) != 1:
                mm(pos, 1, "content-count", "missing" if not cocc else "duplicated", "%s: %d occurrences" % (i, len(cocc)))
            elif cocc[0][0] != mod["C"][i]:
                mm(pos, 2, "item-section", sec_relation(H, mod["C"][i], cocc[0][0]),
                   "%s: in section %s, model %s" % (i, cocc[0][0], mod["C"][i]))
            if par != epar:
                rel = "not-nested" if par is None else ("nested-but-model-top-level" if epar is None else "other-parent-item")
                mm(pos, 3, "item-parent", rel, "%s: parent item %s, model %s" % (i, par, epar))
            ap, mp = act_prev_in_list.get(i), model_prev_in_list.get(i)
            if ap != mp:
                rel = "split" if ap is None else ("merged" if mp is None else "regrouped")
                mm(pos, 4, "list-grouping", rel, "%s: continues the list of %s, model %s" % (i, ap, mp))
    end = len(lines)
    if hr_i < len(A["HR"]):
        mm(end, 0, "extra-node", "HLINE", "%d HLINE nodes for %d rules" % (len(A["HR"]), hr_i))
    if A["anon_level"]:
        mm(end, 0, "extra-node", "LEVEL", "%d LEVEL nodes without a heading id" % A["anon_level"])
    if A["anon_item"]:
        mm(end, 0, "extra-node", "LIST_ITEM", "%d LIST_ITEM nodes without an item id" % A["anon_item"])
    out.sort(key=lambda t: (t[0], t[1]))
    if obs is not None:
        obs.check("ids-compared", n_ids)
        if mod["H"] or mod["HR"]:
            obs.check("sections-model")
        if mod["I"]:
            obs.check("lists-model")
    return out, mod


# ---------------------------------------------------------------- the monitor
class Monitor:
    def __init__(self):
        from vf.core.wtp import fresh, tmpl
        import wikitextprocessor.parser as P
        self.cm = fresh(lua=False, pages=[tmpl(k, v) for k, v in G.TEMPLATES.items()])
        self.ctx = self.cm.__enter__()
        anchors.watch({"parser." + n: getattr(P, n) for n in
                       ("subtitle_start_fn", "subtitle_end_fn", "hline_fn", "list_fn", "pop_until_nth_list",
                        "text_fn", "close_begline_lists")})
        self.nparse = 0
        self.memo = {}

    def close(self):
        self.cm.__exit__(None, None, None)

    def run(self, lines, mode, eof_nl=True, obs=None):
        """parse on the real code -> (mismatches, model, A, error-sig)"""
        text = G.render(lines, eof_nl)
        self.ctx.start_page("Pg")
        self.nparse += 1
        try:
            with cpu_guard(20):
                root = self.ctx.parse(text, **MODES[mode])
        except CpuBudget as e:
            return [(len(lines), 0, "parse-no-return", "cpu-budget", str(e)[-300:])], None, None
        except Exception as e:
            return [(len(lines), 0, "parse-raises", exc_sig(e), repr(e)[:200])], None, None
        A = extract(root)
        mms, mod = compare(lines, A, obs)
        return mms, mod, A

    # -- delta minimisation
    def first(self, lines, mode, eof_nl):
        mms, _, _ = self.run(lines, mode, eof_nl)
        return mms[0] if mms else None

    def minimise(self, lines, mode, eof_nl, target, pos=None):
        """smallest outline (drop lines, then simplify) whose FIRST mismatch is still (rule, relation) == target"""
        memo = self.memo

        def holds(ls, md=mode, nl=eof_nl):
            if not ls or not G.admissible(ls):
                return False
            ls = G.with_ids(ls)  # canonical ids: the verdicts of small outlines repeat a lot
            key = (G.render(ls, nl), md)
            r = memo.get(key)
            if r is None:
                f = self.first(ls, md, nl)
                r = (f[2], f[3]) if f is not None else ()
                if len(memo) > 200000:
                    memo.clear()
                memo[key] = r
            return r == target

        def drop(ls, i):
            k = ls[i]["k"]
            if k == "wc":
                return None
            if k == "wo":
                depth = 0
                for j in range(i, len(ls)):
                    if ls[j]["k"] == "wo":
                        depth += 1
                    elif ls[j]["k"] == "wc":
                        depth -= 1
                        if depth == 0:
                            return ls[:i] + ls[i + 1:j] + ls[j + 1:]
                return None
            return ls[:i] + ls[i + 1:]

        cur = list(lines)
        # 0. structural slice: the headings / items still open at the culprit line, and that line
        if pos is not None and pos < len(cur):
            secs, items = [], []
            for j, ln in enumerate(cur[:pos]):
                k = ln["k"]
                if k == "h":
                    while secs and cur[secs[-1]]["lv"] >= ln["lv"]:
                        secs.pop()
                    secs.append(j)
                    items = []
                elif k == "l":
                    while items and not ln["m"].startswith(cur[items[-1]]["m"]):
                        items.pop()
                    items.append(j)
                elif not (k == "f" and ln.get("fk") == "none"):
                    items = []
            cand = [cur[j] for j in sorted(set(secs + items + [pos]))]
            if len(cand) < len(cur) and holds(cand):
                cur = cand
        # 1. chunk removal (ddmin-like halving), then single lines to a fixpoint
        chunk = max(1, len(cur) // 2)
        while chunk >= 1:
            i = 0
            while i < len(cur):
                if chunk == 1:
                    cand = drop(cur, i)
                else:
                    seg = cur[i:i + chunk]
                    cand = cur[:i] + cur[i + chunk:] if not any(x["k"] in ("wo", "wc") for x in seg) else None
                if cand is not None and holds(cand):
                    cur = cand
                else:
                    i += chunk
            if chunk == 1:
                break
            chunk //= 2
        changed = True
        while changed:
            changed = False
            for i in range(len(cur)):
                cand = drop(cur, i)
                if cand is not None and holds(cand):
                    cur = cand
                    changed = True
                    break
        # 2. simplify decorations / fillers / rule length
        for i, ln in enumerate(cur):
            # canonical replacements, simplest first (a block of a family falls back to the family's plainest member)
            for key, plains in (("deco", ("plain",)), ("fk", ("para",)), ("n", (4,))):
                val = cur[i].get(key)
                if val is None:
                    continue
                cands = list(plains)
                for pre, canon_kind in FAMILY.items():
                    if str(val).startswith(pre):
                        cands.append(canon_kind)
                for plain in cands:
                    if cur[i][key] != plain:
                        cand = [dict(x) for x in cur]
                        cand[i][key] = plain
                        if holds(cand):
                            cur = cand
                            break
        # 3. canonical markers: strip a common leading character, shorten single markers, '#' -> '*', '*' first
        def lset(ls, f):
            return [dict(x, m=f(x["m"])) if x["k"] == "l" else x for x in ls]

        if any(x["k"] == "l" for x in cur):
            while all(len(x["m"]) > 1 for x in cur if x["k"] == "l"):
                cand = lset(cur, lambda m: m[1:])
                if holds(cand):
                    cur = cand
                else:
                    break
            cand = lset(cur, lambda m: m.replace("#", "*"))
            if cand != cur and holds(cand):
                cur = cand
            changed = True
            while changed:
                changed = False
                for i, ln in enumerate(cur):
                    if ln["k"] != "l":
                        continue
                    m = ln["m"]
                    cands = []
                    if len(m) > 1:
                        cands += [m[:p] + m[p + 1:] for p in range(len(m) - 1, -1, -1)]
                    cands += [m[:p] + "*" + m[p + 1:] for p in range(len(m)) if m[p] == "#"]
                    seen = set()
                    for c in cands:
                        if c in seen or c == m:
                            continue
                        seen.add(c)
                        cand = [dict(x) for x in cur]
                        cand[i]["m"] = c
                        if holds(cand):
                            cur = cand
                            changed = True
                            break
                    if changed:
                        break
            first = next(x["m"] for x in cur if x["k"] == "l")
            if first[0] == "#":
                cand = lset(cur, lambda m: m.translate({35: 42, 42: 35}))
                if holds(cand):
                    cur = cand
        # 4. plain parse / final newline if that is enough
        md, nl = mode, eof_nl
        if not nl and holds(cur, md, True):
            nl = True
        if md != 0 and holds(cur, 0, nl):
            md = 0
        return G.with_ids(cur), md, nl


def shape(lines):
    """abstract rendering of a minimal outline for the signature"""
    has_hr = any(x["k"] == "hr" for x in lines)
    lvls = sorted({x["lv"] for x in lines if x["k"] == "h"})
    nh = sum(1 for x in lines if x["k"] == "h")
    out = []
    for x in lines:
        k = x["k"]
        if k == "h":
            s = "h"
            if has_hr:
                s += "1" if x["lv"] == 1 else ("2" if x["lv"] == 2 else "3+")
            if nh > 1:
                s += "abcdef"[lvls.index(x["lv"])]
            if x.get("deco", "plain") != "plain":
                s += "." + x["deco"]
            out.append(s)
        elif k == "hr":
            out.append("hr" if x.get("n", 4) == 4 else "hr.long")
        elif k == "l":
            out.append(x["m"] + ("." + x["deco"] if x.get("deco", "plain") != "plain" else ""))
        elif k == "f":
            out.append("f" if x["fk"] == "para" else "f." + x["fk"])
        elif k == "wo":
            out.append("<div>")
        elif k == "wc":
            out.append("</div>")
    return ",".join(out)


def diagnose(mon, lines, mode, eof_nl, first_mms=None):
    """-> [(sig, msg, case)] : one entry per independent root cause found in this outline"""
    res = []
    cur = list(lines)
    mms = first_mms
    for _round in range(5):
        if mms is None:
            mms, _, _ = mon.run(cur, mode, eof_nl)
        if not mms:
            break
        pos, _o, rule, rel, detail = mms[0]
        if rule in ("parse-raises", "parse-no-return"):
            res.append(("%s/%s" % (rule, rel), detail, {"lines": cur, "mode": mode, "eof_nl": eof_nl}))
            break
        wit, md, nl = mon.minimise(cur, mode, eof_nl, (rule, rel), pos)
        sig = "%s/%s:%s%s%s" % (rule, rel, shape(wit), MODE_TAG[md], "" if nl else "+no-final-newline")
        wm = mon.first(wit, md, nl)
        res.append((sig, "%s | witness %r" % (wm[4] if wm else detail, G.render(wit, nl)),
                    {"lines": wit, "mode": md, "eof_nl": nl}))
        if pos >= len(cur):
            break
        # remove the culprit line (and its partner for a wrapper) and look for an independent second cause
        k = cur[pos]["k"]
        if k in ("wo", "wc"):
            break
        cur = cur[:pos] + cur[pos + 1:]
        mms = None
    return res


# ---------------------------------------------------------------- observation
def observe(obs, lines, mod):
    prev_lv = None
    prev_m = None
    stack = []
    since_list = None
    for ln in lines:
        k = ln["k"]
        obs.count("line." + k)
        if k == "h":
            obs.add("heading-deco", ln.get("deco", "plain"))
            if prev_lv is not None:
                obs.add("level-bigram", "%d>%d" % (prev_lv, ln["lv"]))
            prev_lv = ln["lv"]
            while stack and stack[-1] >= ln["lv"]:
                stack.pop()
            stack.append(ln["lv"])
            obs.maxi("model.section-depth", len(stack))
        elif k == "hr":
            top = stack[-1] if stack else 0
            obs.add("rule-context", "none" if top == 0 else ("top=1" if top == 1 else ("top=2" if top == 2 else "top>=3")))
            if top > 2:
                obs.count("rule.closes-a-section")
            while stack and stack[-1] > 2:
                stack.pop()
        elif k == "f":
            obs.add("filler-kind", ln["fk"])
        if k == "l":
            obs.add("item-deco", ln.get("deco", "plain"))
            m = ln["m"]
            if prev_m is None:
                rel = "first"
                if since_list is not None:
                    obs.add("list-closer", since_list)
            elif m == prev_m:
                rel = "equal"
            elif m.startswith(prev_m):
                rel = "child+1" if len(m) == len(prev_m) + 1 else "child+k"
            elif prev_m.startswith(m):
                rel = "back-to-ancestor"
            elif m[0] == prev_m[0]:
                rel = "diverges-inside"
            else:
                rel = "unrelated"
            obs.add("marker-relation", rel)
            prev_m = m
            since_list = None
        else:
            if prev_m is not None or since_list is not None:
                since_list = since_list or (k if k != "f" else "f." + ln["fk"])
            prev_m = None
    if mod is not None:
        depth = {}
        for i, (m, par, lu) in mod["I"].items():
            depth[i] = depth.get(par, 0) + 1 if par is not None else 1
        if depth:
            obs.maxi("model.item-depth", max(depth.values()))


def one_case(mon, obs, lines, mode, eof_nl, gen):
    mms, mod, A = mon.run(lines, mode, eof_nl, obs)
    nstruct = sum(1 for x in lines if x["k"] in ("h", "l", "hr"))
    text = G.render(lines, eof_nl)
    obs.case(text + "#%d" % mode, nontrivial=nstruct >= 2,
             sample={"gen": gen, "mode": MODES[mode], "text": text[:400]})
    obs.count("gen." + gen)
    obs.count("mode.%d" % mode)
    if mod is not None:
        observe(obs, lines, mod)
        obs.maxi("tree.section-depth", A["maxsec"])
        obs.maxi("tree.list-depth", A["maxlist"])
        obs.count("tree.LEVEL-nodes", sum(len(v) for v in A["H"].values()))
        obs.count("tree.LIST_ITEM-nodes", sum(len(v) for v in A["I"].values()))
        obs.count("tree.LIST-nodes", A["nlist"])
        obs.count("tree.HLINE-nodes", len(A["HR"]))
    if mms:
        obs.count("cases-with-mismatch")
        for sig, msg, case in diagnose(mon, lines, mode, eof_nl, mms):
            obs.violation(sig, msg, case)


def run_shard(spec):
    obs = Obs()
    mon = Monitor()
    tier = spec.get("tier", "quick")
    b = bounds(tier)
    idx, nsh = spec["idx"], spec["nsh"]
    n = 0
    for (tag, L), lines in G.heading_outlines(b["hlen"], b["hfill"]):
        if n % nsh == idx:
            one_case(mon, obs, lines, 0, True, "exhaustive-headings")
            obs.count("exhaustive.heading-outlines")
        n += 1
    n = 0
    for (tag, L), lines in G.list_outlines(b["llen"], b["lfill"]):
        if n % nsh == idx:
            one_case(mon, obs, lines, 0, True, "exhaustive-lists")
            obs.count("exhaustive.list-outlines")
        n += 1
    rng = random.Random(spec["seed"])
    for _ in range(spec["n"]):
        lines = G.sample_outline(rng)
        mode = rng.choice([0, 0, 1, 2])
        eof_nl = rng.random() < 0.8
        one_case(mon, obs, lines, mode, eof_nl, "sampled")
    mon.close()
    obs.count("parses", mon.nparse)
    obs.anchors.update(anchors.snapshot())
    return obs


def replay(case):
    mon = Monitor()
    lines, mode, eof_nl = case["lines"], case.get("mode", 0), case.get("eof_nl", True)
    mms, mod, A = mon.run(lines, mode, eof_nl)
    out = diagnose(mon, lines, mode, eof_nl, mms) if mms else []
    text = G.render(lines, eof_nl)
    mon.ctx.start_page("Pg")
    try:
        tree = str(mon.ctx.parse(text, **MODES[mode]))[:2000]
    except Exception as e:
        tree = repr(e)
    mon.close()
    return {"violations": [(s, m) for s, m, _ in out], "text": text, "mismatches": [list(x) for x in (mms or [])][:10],
            "model": {k: (v if not isinstance(v, dict) else {a: list(b) if isinstance(b, tuple) else b for a, b in v.items()})
                      for k, v in (mod or {}).items()},
            "tree": tree}
